package c13

import (
	"encoding/json"
	"fmt"
	"math"
	"os"
	"path/filepath"
	"regexp"
	"strconv"
	"strings"
	"sync"
	"testing"
	"time"

	"pgregory.net/rapid"
	"wa-lang.org/wa/zverif/harness/core"
	"wa-lang.org/wa/zverif/harness/wk"
)

const prop = "C13"

// keyRangeDelete is the structural key of "deleting the visited key inside a
// range loop makes the loop skip a live entry" (Go guarantees every entry that
// is not removed is produced exactly once).
const keyRangeDelete = "range-delete-visited/entry-skipped"

func TestMain(m *testing.M) { core.Main(m) }

// one worker client per test process
var (
	workerOnce sync.Once
	worker     *wk.Client
)

func w() *wk.Client {
	workerOnce.Do(func() { worker = wk.New(wk.Options{CPULimit: 60 * time.Second}) })
	return worker
}

// ---------------------------------------------------------------- oracle

type verdict struct {
	Key          string
	What         string
	Inconclusive string // non-empty: no verdict (worker killed / timed out)
}

var intRe = regexp.MustCompile(`-?\d+`)

func ints(s string) []int64 {
	var out []int64
	for _, f := range intRe.FindAllString(s, -1) {
		v, err := strconv.ParseInt(f, 10, 64)
		if err != nil {
			u, _ := strconv.ParseUint(f, 10, 64)
			v = int64(u)
		}
		out = append(out, v)
	}
	return out
}

func at(v []int64, i int) int64 {
	if i < len(v) {
		return v[i]
	}
	return math.MinInt64
}

// classify names the kind of disagreement between an expected and an actual line.
func classify(o *op, e expLine, got string) string {
	ev, gv := ints(e.Text), ints(got)
	if at(gv, 0) != at(ev, 0) {
		return "output-out-of-step"
	}
	switch e.Part {
	case "len", "rdel-len":
		return "wrong-len"
	case "lookup":
		if o.T == "get" {
			switch {
			case at(ev, 1) != 0 && at(gv, 1) == 0:
				return "live-key-not-found"
			case at(ev, 1) == 0 && at(gv, 1) != 0:
				return "deleted-or-absent-key-found"
			}
			return "wrong-value"
		}
		switch {
		case at(ev, 2) == 1 && at(gv, 2) == 0:
			return "live-key-not-found"
		case at(ev, 2) == 0 && at(gv, 2) == 1:
			return "deleted-or-absent-key-found"
		}
		return "wrong-value"
	case "range", "rdel-visits":
		if o.T == "range" && (o.F == "v" || o.F == "n") {
			if at(ev, 1) != at(gv, 1) {
				return "wrong-count"
			}
			return "wrong-value"
		}
		emask := uint64(at(ev, 2)) | uint64(at(ev, 3))<<32
		gmask := uint64(at(gv, 2)) | uint64(at(gv, 3))<<32
		switch {
		case emask&^gmask != 0:
			if e.Part == "rdel-visits" {
				return "entry-skipped"
			}
			return "live-entry-not-visited"
		case gmask&^emask != 0:
			return "deleted-entry-visited"
		case at(gv, 1) != at(ev, 1):
			return "entry-visited-twice"
		}
		if o.T == "range" && o.F != "k" && at(gv, 4) != at(ev, 4) {
			return "wrong-value"
		}
		return "unknown-key-or-duplicate"
	case "rdel-sanity":
		return "unknown-key-or-duplicate"
	}
	return "mismatch"
}

var trapRe = regexp.MustCompile(`[^A-Za-z0-9]+`)

func trapClass(err string) string {
	s := strings.ToLower(err)
	for _, c := range []string{"out of bounds", "unreachable", "stack overflow", "divide by zero", "indirect call", "invalid table access", "nil"} {
		if strings.Contains(s, c) {
			return strings.ReplaceAll(c, " ", "-")
		}
	}
	s = trapRe.ReplaceAllString(s, "-")
	if len(s) > 40 {
		s = s[:40]
	}
	return strings.Trim(s, "-")
}

func opName(o *op) string {
	if o == nil {
		return "program"
	}
	if o.T == "range" {
		f := o.F
		if f == "" {
			f = "kv"
		}
		return "range-" + f
	}
	return o.T
}

var workerCPUms, workerRuns, workerCrashRetried int64 // bookkeeping only (reported as counters)
var workerCrashNote string

var fatalRe = regexp.MustCompile(`(?m)^(fatal error|runtime: |panic: |signal ).*$`)

// runProgram compiles and runs one program in the worker.  The worker process
// is recycled every 40 programs (its address space grows with every wazero
// run and is capped by RLIMIT_AS), and a request during which the process died
// is repeated once on a fresh process: only a death that repeats is attributed
// to the program.
func runProgram(src string) wk.Outcome {
	if workerRuns > 0 && workerRuns%40 == 0 {
		w().Close()
	}
	o := w().Do("run", wk.Src{Name: "c13.wa", Src: src})
	workerRuns++
	if o.CPUms > 0 {
		workerCPUms += o.CPUms
	}
	if o.Kind == wk.Exited {
		first := o
		o = w().Do("run", wk.Src{Name: "c13.wa", Src: src})
		workerRuns++
		if o.CPUms > 0 {
			workerCPUms += o.CPUms
		}
		if o.Kind != wk.Exited {
			workerCrashRetried++
			if workerCrashNote == "" {
				workerCrashNote = fmt.Sprintf("worker process died (code %d %s) on a request that succeeded on a fresh process: %s", first.ExitCode, first.Signal, firstLine(fatalRe.FindString(first.Output)))
			}
		}
	}
	return o
}

// evaluate renders, runs and compares one history.
func evaluate(h *history) verdict {
	if len(h.Keys) == 0 {
		return verdict{}
	}
	for _, o := range h.Ops {
		if (o.T == "ins" || o.T == "del" || o.T == "get" || o.T == "ok") && (o.K < 0 || o.K >= len(h.Keys)) {
			return verdict{Key: "harness/bad-replay", What: "key index out of range"}
		}
	}
	src, exp, _ := h.build()
	o := runProgram(src)
	var rr wk.RunResult
	o.Decode(&rr)
	switch o.Kind {
	case wk.Killed, wk.Timeout:
		return verdict{Inconclusive: o.String()}
	case wk.OK:
	case wk.Error:
		if rr.Stage == "run" {
			break
		}
		fallthrough
	default: // build/assemble diagnostic, compiler panic, os.Exit
		detail := firstLine(o.String())
		if alt, form := h.withoutRangeForms(); form != "" {
			src2, _, _ := alt.build()
			o2 := runProgram(src2)
			var r2 wk.RunResult
			o2.Decode(&r2)
			if o2.Kind == wk.Killed || o2.Kind == wk.Timeout {
				return verdict{Inconclusive: o2.String()}
			}
			if o2.Kind == wk.OK || (o2.Kind == wk.Error && r2.Stage == "run") {
				return verdict{Key: "rangeform=" + form + "/does-not-compile",
					What: fmt.Sprintf("a map range loop of form %q (k = key only, v = value only, n = no variables) is rejected by the compiler (%s); the same program with `for k, v := range m` compiles", form, detail)}
			}
		}
		return verdict{Key: "keykind=" + h.Kind + "/does-not-compile",
			What: fmt.Sprintf("generated program for key kind %s (%d keys, %d ops) does not compile/assemble [stage %s]: %s", h.Kind, len(h.Keys), len(h.Ops), rr.Stage, detail)}
	}
	got := []string{}
	if s := strings.TrimRight(rr.Stdout, "\n"); s != "" {
		got = strings.Split(s, "\n")
	}
	describe := func(e expLine) (*op, string) {
		if e.Op < 0 {
			return nil, e.Part
		}
		oo := h.Ops[e.Op]
		js, _ := json.Marshal(oo)
		d := fmt.Sprintf("op #%d %s", e.Op, js)
		if oo.T == "ins" || oo.T == "del" || oo.T == "get" || oo.T == "ok" {
			d += " key " + h.Keys[oo.K].String()
		}
		return &oo, d
	}
	for i, e := range exp {
		if i >= len(got) {
			oo, d := describe(e)
			if o.Kind == wk.Error {
				return verdict{Key: fmt.Sprintf("keykind=%s/%s/trap:%s", h.Kind, opName(oo), trapClass(o.Err)),
					What: fmt.Sprintf("program stopped with %q at %s (after %d of %d output lines)", firstLine(o.Err), d, len(got), len(exp))}
			}
			return verdict{Key: fmt.Sprintf("keykind=%s/%s/output-missing", h.Kind, opName(oo)),
				What: fmt.Sprintf("output ends after %d of %d lines, at %s", len(got), len(exp), d)}
		}
		if e.Strict && !h.StrictRangeDelete {
			continue
		}
		if got[i] == e.Text {
			continue
		}
		oo, d := describe(e)
		if oo == nil {
			return verdict{Key: fmt.Sprintf("keykind=%s/%s", h.Kind, e.Part),
				What: fmt.Sprintf("%s: expected line %q, got %q", d, e.Text, got[i])}
		}
		cl := classify(oo, e, got[i])
		if cl == "output-out-of-step" && o.Kind == wk.Error {
			return verdict{Key: fmt.Sprintf("keykind=%s/%s/trap:%s", h.Kind, opName(oo), trapClass(got[i]+" "+o.Err)),
				What: fmt.Sprintf("kind %s, %s: program stopped: %q / %q (expected line %q)", h.Kind, d, got[i], firstLine(o.Err), e.Text)}
		}
		if e.Part == "rdel-visits" && cl == "entry-skipped" {
			return verdict{Key: keyRangeDelete,
				What: fmt.Sprintf("kind %s, %s: deleting the visited key inside `for k, v := range m` made the loop skip live entries: expected (count lo-mask hi-mask digest) %q, got %q", h.Kind, d, e.Text, got[i])}
		}
		return verdict{Key: fmt.Sprintf("keykind=%s/%s/%s", h.Kind, opName(oo), cl),
			What: fmt.Sprintf("kind %s, %s [%s]: Go map model says %q, Wa program printed %q (line %d)", h.Kind, d, e.Part, e.Text, got[i], i+1)}
	}
	if o.Kind == wk.Error {
		return verdict{Key: fmt.Sprintf("keykind=%s/program/trap:%s", h.Kind, trapClass(o.Err)),
			What: fmt.Sprintf("program printed all expected lines and then stopped with %q", firstLine(o.Err))}
	}
	if len(got) > len(exp) {
		return verdict{Key: fmt.Sprintf("keykind=%s/program/extra-output", h.Kind), What: fmt.Sprintf("unexpected extra output line %q", got[len(exp)])}
	}
	return verdict{}
}

func firstLine(s string) string {
	s = strings.TrimSpace(s)
	if i := strings.IndexByte(s, '\n'); i >= 0 {
		s = s[:i]
	}
	if len(s) > 300 {
		s = s[:300] + "…"
	}
	return s
}

// ---------------------------------------------------------------- generator

var strategies = []string{"asc", "desc", "zigzag", "midout", "random"}

// permFromSeed: Fisher–Yates driven by a SplitMix stream of one rapid-drawn seed.
func permFromSeed(n int, seed uint64) []int {
	o := make([]int, n)
	for i := range o {
		o[i] = i
	}
	x := seed
	for i := n - 1; i > 0; i-- {
		x = core.SplitMix(x)
		j := int(x % uint64(i+1))
		o[i], o[j] = o[j], o[i]
	}
	return o
}

// orderFor lays out pool indices (the pool is sorted in key order) so that
// consecutive inserts/deletes hit the tree from one side, both sides
// alternately, or from the middle outwards.
func orderFor(strategy string, n int, seed uint64) []int {
	o := make([]int, 0, n)
	switch strategy {
	case "asc":
		for i := 0; i < n; i++ {
			o = append(o, i)
		}
	case "desc":
		for i := n - 1; i >= 0; i-- {
			o = append(o, i)
		}
	case "zigzag":
		for lo, hi := 0, n-1; lo <= hi; lo, hi = lo+1, hi-1 {
			o = append(o, lo)
			if hi != lo {
				o = append(o, hi)
			}
		}
	case "midout":
		mid := n / 2
		o = append(o, mid)
		for d := 1; len(o) < n; d++ {
			if mid-d >= 0 {
				o = append(o, mid-d)
			}
			if mid+d < n {
				o = append(o, mid+d)
			}
		}
	default:
		o = permFromSeed(n, seed)
	}
	return o
}

var valueSpecial = []int32{-1, math.MinInt32, math.MaxInt32, 1 << 16, -(1 << 16), 255}

// item is one drawn single op of a "rnd" phase; the key is resolved against
// the model state when the phases are expanded.
type item struct {
	Typ     string
	Pick    int  // start of the search for a present/absent pool index
	Present bool // prefer a key that is present (else absent)
	Val     int32
	Sp      string
}

// phase is one rapid-drawn element of a history; rapid shrinks the slice of
// phases (dropping phases, reducing counts) and expand() turns it into ops.
type phase struct {
	Typ      string
	Count    int    // fill / drain
	Strategy string // drain / clear order
	Seed     uint64 // random orders
	Spell    string // spelling pattern, cycled over the ops of the phase
	Val      int32  // 0 = distinct value per op
	Items    []item // rnd
	Mask     uint64 // rdel
	Form     string // range
}

var phaseTypes = []string{"rnd", "fill", "fill", "fill", "fill", "drain", "drain", "drain", "rnd", "rnd", "rnd", "rnd",
	"range", "range", "rdel", "probe", "probe", "clear", "new"}

func genValue() *rapid.Generator[int32] {
	return rapid.Custom(func(t *rapid.T) int32 {
		switch rapid.IntRange(0, 9).Draw(t, "vclass") {
		case 0:
			return rapid.SampledFrom(valueSpecial).Draw(t, "vspecial")
		case 1, 2:
			return int32(rapid.IntRange(1, 9999).Draw(t, "vsmall"))
		}
		return 0 // distinct per op: a stale value is recognisable
	})
}

var spellPatterns = []string{"a", "b", "l", "ab", "abl", "aabl", "ba", "la"}

func genPhase(n int, forms []string) *rapid.Generator[phase] {
	return rapid.Custom(func(t *rapid.T) phase {
		p := phase{Typ: rapid.SampledFrom(phaseTypes).Draw(t, "phase")}
		switch p.Typ {
		case "fill":
			p.Count = rapid.IntRange(1, n).Draw(t, "count")
			p.Spell = rapid.SampledFrom(spellPatterns).Draw(t, "spell")
			p.Val = genValue().Draw(t, "value")
		case "drain", "clear":
			p.Count = rapid.IntRange(1, n).Draw(t, "count")
			p.Strategy = rapid.SampledFrom(strategies).Draw(t, "order")
			p.Seed = rapid.Uint64().Draw(t, "seed")
			p.Spell = rapid.SampledFrom(spellPatterns).Draw(t, "spell")
		case "rnd":
			p.Items = rapid.SliceOfN(rapid.Custom(func(t *rapid.T) item {
				return item{
					Typ:     rapid.SampledFrom([]string{"ins", "ins", "ins", "del", "del", "del", "get", "ok", "ok", "len"}).Draw(t, "optype"),
					Pick:    rapid.IntRange(0, n-1).Draw(t, "pick"),
					Present: rapid.IntRange(0, 3).Draw(t, "present") != 0,
					Val:     genValue().Draw(t, "value"),
					Sp:      rapid.SampledFrom([]string{"a", "a", "b", "b", "l"}).Draw(t, "sp"),
				}
			}), 1, 30).Draw(t, "items")
		case "range":
			p.Form = rapid.SampledFrom(forms).Draw(t, "form")
		case "rdel":
			switch rapid.IntRange(0, 4).Draw(t, "maskClass") {
			case 0:
				p.Mask = math.MaxUint64
			case 1:
				p.Mask = 0x5555555555555555
			case 2:
				p.Mask = 1 << uint(rapid.IntRange(0, n-1).Draw(t, "one"))
			default:
				p.Mask = rapid.Uint64().Draw(t, "mask")
			}
		case "probe":
			p.Form = rapid.SampledFrom([]string{"ok", "get"}).Draw(t, "probe")
			p.Spell = rapid.SampledFrom(spellPatterns).Draw(t, "spell")
		}
		return p
	})
}

const maxOps = 600

// expand turns the drawn phases into the flat op list (deterministic).
func expand(h *history, phases []phase, insSeed uint64) {
	n := len(h.Keys)
	present := make([]bool, n)
	insOrder := orderFor(h.Strategy, n, insSeed)
	ic, dc := 0, 0
	add := func(o op) {
		if len(h.Ops) >= maxOps {
			return
		}
		switch o.T {
		case "ins":
			present[o.K] = true
			if o.V == 0 {
				o.V = int32(len(h.Ops) + 1)
			}
		case "del":
			present[o.K] = false
		case "new":
			for i := range present {
				present[i] = false
			}
		case "rdel":
			for i := range present {
				if o.M>>uint(i)&1 == 1 {
					present[i] = false
				}
			}
		}
		h.Ops = append(h.Ops, o)
	}
	pick := func(r int, wantPresent bool) int {
		for d := 0; d < n; d++ {
			if j := (r + d) % n; present[j] == wantPresent {
				return j
			}
		}
		return r % n
	}
	sp := func(pat string, i int) string {
		if pat == "" {
			return "a"
		}
		return string(pat[i%len(pat)])
	}
	for _, p := range phases {
		switch p.Typ {
		case "fill":
			for i := 0; i < p.Count; i++ {
				add(op{T: "ins", K: insOrder[ic%n], V: p.Val, Sp: sp(p.Spell, i)})
				ic++
			}
		case "drain":
			dorder := orderFor(p.Strategy, n, p.Seed)
			for i := 0; i < p.Count; i++ {
				add(op{T: "del", K: dorder[dc%n], Sp: sp(p.Spell, i)})
				dc++
			}
		case "clear": // clear-by-delete-all in a drawn order, then observe emptiness
			i := 0
			for _, j := range orderFor(p.Strategy, n, p.Seed) {
				if present[j] {
					add(op{T: "del", K: j, Sp: sp(p.Spell, i)})
					i++
				}
			}
			add(op{T: "len"})
			add(op{T: "range", F: "kv"})
		case "rnd":
			for _, it := range p.Items {
				switch it.Typ {
				case "ins":
					add(op{T: "ins", K: pick(it.Pick, !it.Present), V: it.Val, Sp: it.Sp}) // mostly new keys, sometimes overwrite
				case "del", "get", "ok":
					add(op{T: it.Typ, K: pick(it.Pick, it.Present), Sp: it.Sp})
				default:
					add(op{T: "len"})
				}
			}
		case "range":
			add(op{T: "range", F: p.Form})
		case "rdel":
			add(op{T: "rdel", M: p.Mask & (1<<uint(n) - 1)})
			add(op{T: "range", F: "kv"})
		case "probe":
			for j := 0; j < n; j++ {
				add(op{T: p.Form, K: j, Sp: sp(p.Spell, j)})
			}
		case "new":
			add(op{T: "new"})
		}
	}
	if len(h.Ops) >= maxOps {
		h.Ops = h.Ops[:maxOps-1]
	}
	h.Ops = append(h.Ops, op{T: "range", F: "kv"}) // the final state is always observed
}

func genHistory(strict bool, forms []string) *rapid.Generator[*history] {
	return rapid.Custom(func(t *rapid.T) *history {
		kind := rapid.SampledFrom(kindWeighted).Draw(t, "kind")
		n := rapid.IntRange(4, maxPool).Draw(t, "pool")
		if n < 30 && rapid.IntRange(0, 3).Draw(t, "bigPool") != 0 {
			n = 30 + n%19 // three quarters of the pools can hold ≥ 30 live keys
		}
		if kind == "bool" {
			n = 2
		}
		keys := genPool(kind, n).Draw(t, "keys")
		n = len(keys)
		h := &history{Kind: kind, Keys: keys, StrictRangeDelete: strict}
		h.Strategy = rapid.SampledFrom(strategies).Draw(t, "strategy")
		insSeed := rapid.Uint64().Draw(t, "insSeed")
		var phases []phase
		if rapid.IntRange(0, 4).Draw(t, "startFull") != 0 { // usually start by building a large tree in strategy order
			phases = append(phases, phase{Typ: "fill", Count: n - rapid.IntRange(0, n/6).Draw(t, "short"), Spell: "aabl"})
		}
		phases = append(phases, rapid.SliceOfN(genPhase(n, forms), 8, 60).Draw(t, "phases")...)
		expand(h, phases, insSeed)
		return h
	})
}

func bucket(v int, bounds ...int) string {
	for _, b := range bounds {
		if v < b {
			return "<" + strconv.Itoa(b)
		}
	}
	return ">=" + strconv.Itoa(bounds[len(bounds)-1])
}

// allowedForms: range loop forms the generator may use (known findings excluded).
func allowedForms(s *core.Stats) []string {
	forms := []string{"kv", "kv", "kv"}
	for _, f := range []string{"k", "v", "n"} {
		if core.IsKnown(prop, "rangeform="+f+"/does-not-compile") {
			if s != nil {
				s.Counter("excluded_by_known/rangeform="+f+"/does-not-compile", 1)
			}
			continue
		}
		forms = append(forms, f)
	}
	return forms
}

// ---------------------------------------------------------------- tests

func TestHistories(t *testing.T) {
	s := core.NewStats(prop, "Histories")
	s.Rule("rapid: key kind ∈ {i32,u8,i64,u64,string,f64,bool,struct{a i32;b string},pointer,interface(mixed dynamic types)} × pool of 4–48 distinct keys laid out in key order × insertion strategy ∈ {asc,desc,zigzag,midout,random} × phases (fill / drain / random single ops / range in 4 loop forms / range deleting visited keys / probe-all / delete-all / re-make) until 100–600 ops; every op prints its observable result, one Wa program per history, run through the compiler + wazero; oracle = the same history applied to a Go map (keys as Go values, so Go key equality decides ±0, string content, struct fields, pointer identity, dynamic type), stdout compared line by line; range = count + visited-key bit mask + Σ value·(index+1) + unknown-key and visited-twice counters; non-trivial = ≥30 keys live at some point and ≥10 deletes of present keys and ≥1 range over a non-empty map after a delete")
	s.Assume("Wa `==` on the key type (used by the generated program to map a ranged key back to its pool index), println of integers, i64/u32 arithmetic and slices are correct; they are covered by other properties")
	s.Assume("worker outcomes killed/timeout are inconclusive and only counted")
	strict := !core.IsKnown(prop, keyRangeDelete)
	if !strict {
		s.Counter("excluded_by_known/"+keyRangeDelete, 1)
	}
	forms := allowedForms(s)
	defer func() {
		s.Counter("worker_programs_run", workerRuns)
		s.Counter("worker_cpu_ms", workerCPUms)
		if workerCrashRetried > 0 {
			s.Counter("worker_died_retried_ok", workerCrashRetried)
			s.Note(workerCrashNote)
		}
		s.Flush()
	}()
	s.Check(t, func(t *rapid.T, c *core.Case) {
		h := genHistory(strict, forms).Draw(t, "history")
		c.Set(h)
		_, _, st := h.build()
		c.Class("kind=" + h.Kind)
		c.Class("strategy=" + h.Strategy)
		c.Class("pool=" + bucket(len(h.Keys), 8, 16, 30, 40))
		c.Class("ops=" + bucket(len(h.Ops), 100, 200, 400, 600))
		c.Class("deletes-present=" + bucket(st.DelPresent+st.RangeDeletes, 1, 10, 30, 100))
		c.Class("maxlive=" + bucket(st.MaxLive, 3, 10, 30, 40))
		c.Class("range-after-delete=" + strconv.FormatBool(st.RangeAfterDelete > 0))
		c.Class("range-deletes=" + strconv.FormatBool(st.RangeDeletes > 0))
		c.Class("reinsert-after-delete=" + strconv.FormatBool(st.Reinserts > 0))
		for _, f := range []string{"k", "v", "n"} {
			if h.usesForm(f) {
				c.Class("rangeform=" + f)
			}
		}
		v := evaluate(h)
		if v.Inconclusive != "" {
			s.Counter("inconclusive_worker_killed_or_timeout", 1)
			saveInconclusive(h, v.Inconclusive)
			t.Skip("inconclusive: " + v.Inconclusive)
		}
		if v.Key != "" {
			c.Fail(v.Key, "%s", v.What)
		}
		if st.MaxLive >= 30 && st.DelPresent >= 10 && st.RangeAfterDelete >= 1 {
			c.Nontrivial()
		}
	})
}

// saveInconclusive keeps the history of a killed / timed-out run for inspection
// (replay format, key "inconclusive"; it is not a violation).
func saveInconclusive(h *history, why string) {
	dir := os.Getenv("VERIF_REPLAY_DIR")
	if dir == "" {
		return
	}
	raw, _ := json.Marshal(h)
	rf := core.ReplayFile{Property: prop, Test: "Histories", Key: "inconclusive", What: why, Seed: core.Seed(), Case: raw}
	data, _ := json.MarshalIndent(rf, "", " ")
	os.MkdirAll(dir, 0o755)
	os.WriteFile(filepath.Join(dir, fmt.Sprintf("inconclusive-%016x.json", core.Hash64(raw))), data, 0o644)
}

func replay(test string, raw json.RawMessage) (string, string) {
	var h history
	if err := json.Unmarshal(raw, &h); err != nil {
		return "harness/bad-replay", err.Error()
	}
	v := evaluate(&h)
	if v.Inconclusive != "" {
		return "", ""
	}
	return v.Key, v.What
}

func TestReplay(t *testing.T) { core.RunReplays(t, prop, replay) }
