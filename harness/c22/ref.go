// Package c22 checks property C22 (text diffs of internal/lsp/diff) with
// oracles written independently of the package under test: an edit-list
// applier/validator and a unified-diff parser/applier that follow the format
// as GNU diff/patch define it.
package c22

import (
	"fmt"
	"strconv"
	"strings"
	"unicode/utf8"
)

// ed mirrors diff.Edit without importing it (the oracle side must not depend
// on the package under test).
type ed struct {
	Start, End int
	New        string
}

// refValidate checks the structural promises: sorted by (Start, End), in
// bounds, pairwise non-overlapping.
func refValidate(before string, edits []ed) (key, what string) {
	lastStart, lastEnd := 0, 0
	for i, e := range edits {
		if !(0 <= e.Start && e.Start <= e.End && e.End <= len(before)) {
			return "edits/out-of-bounds", fmt.Sprintf("edit #%d {%d,%d,%q} is out of bounds of a %d-byte text", i, e.Start, e.End, e.New, len(before))
		}
		if i > 0 {
			if e.Start < lastStart || (e.Start == lastStart && e.End < lastEnd) {
				return "edits/not-sorted", fmt.Sprintf("edit #%d {%d,%d} sorts before edit #%d {%d,%d}", i, e.Start, e.End, i-1, lastStart, lastEnd)
			}
			if e.Start < lastEnd {
				return "edits/overlap", fmt.Sprintf("edit #%d {%d,%d} overlaps edit #%d ending at %d", i, e.Start, e.End, i-1, lastEnd)
			}
		}
		lastStart, lastEnd = e.Start, e.End
	}
	return "", ""
}

// refApply applies validated edits left to right.
func refApply(before string, edits []ed) string {
	var b strings.Builder
	last := 0
	for _, e := range edits {
		b.WriteString(before[last:e.Start])
		b.WriteString(e.New)
		last = e.End
	}
	b.WriteString(before[last:])
	return b.String()
}

// onRuneBoundary reports whether offset i of valid UTF-8 text s is a rune boundary.
func onRuneBoundary(s string, i int) bool {
	return i == 0 || i == len(s) || utf8.RuneStart(s[i])
}

// ---------------------------------------------------------------- lines

// A text is a sequence of lines; every line but possibly the last ends in \n.
type lineSpan struct{ lo, hi int } // byte range including the terminator

func splitSpans(s string) []lineSpan {
	var out []lineSpan
	lo := 0
	for i := 0; i < len(s); i++ {
		if s[i] == '\n' {
			out = append(out, lineSpan{lo, i + 1})
			lo = i + 1
		}
	}
	if lo < len(s) {
		out = append(out, lineSpan{lo, len(s)})
	}
	return out
}

// ---------------------------------------------------------------- unified diff

type uLine struct {
	kind byte   // ' ', '-', '+'
	text string // with its \n unless noEOL
}

type uHunk struct {
	oldStart, oldCount int
	newStart, newCount int
	lines              []uLine
}

// parseUnified parses "--- a\n+++ b\n" followed by hunks.  Counts omitted in a
// header mean 1 (POSIX / GNU diff).  A "\ No newline at end of file" marker
// removes the newline of the preceding body line.
func parseUnified(u, oldLabel, newLabel string) ([]uHunk, string) {
	head := "--- " + oldLabel + "\n+++ " + newLabel + "\n"
	if !strings.HasPrefix(u, head) {
		return nil, fmt.Sprintf("output does not start with %q", head)
	}
	rest := u[len(head):]
	if rest != "" && !strings.HasSuffix(rest, "\n") {
		return nil, "output does not end with a newline"
	}
	var raw []string
	if rest != "" {
		raw = strings.Split(rest[:len(rest)-1], "\n")
	}
	var hunks []uHunk
	var cur *uHunk
	for i := 0; i < len(raw); i++ {
		l := raw[i]
		if l == "" {
			return nil, fmt.Sprintf("body line %d is empty (no prefix character)", i)
		}
		switch l[0] {
		case '@':
			h, err := parseHeader(l)
			if err != "" {
				return nil, err
			}
			hunks = append(hunks, h)
			cur = &hunks[len(hunks)-1]
		case ' ', '-', '+':
			if cur == nil {
				return nil, "body line before the first hunk header"
			}
			cur.lines = append(cur.lines, uLine{l[0], l[1:] + "\n"})
		case '\\':
			if cur == nil || len(cur.lines) == 0 {
				return nil, "no-newline marker without a preceding line"
			}
			last := &cur.lines[len(cur.lines)-1]
			last.text = strings.TrimSuffix(last.text, "\n")
		default:
			return nil, fmt.Sprintf("body line %d has prefix %q", i, l[0])
		}
	}
	return hunks, ""
}

func parseHeader(l string) (uHunk, string) {
	var h uHunk
	if !strings.HasPrefix(l, "@@ -") || !strings.HasSuffix(l, " @@") {
		return h, fmt.Sprintf("malformed hunk header %q", l)
	}
	f := strings.Fields(l[3 : len(l)-3])
	if len(f) != 2 || f[0][0] != '-' || f[1][0] != '+' {
		return h, fmt.Sprintf("malformed hunk header %q", l)
	}
	rng := func(s string) (int, int, bool) {
		a, b, has := strings.Cut(s, ",")
		st, err := strconv.Atoi(a)
		if err != nil || st < 0 {
			return 0, 0, false
		}
		n := 1
		if has {
			n, err = strconv.Atoi(b)
			if err != nil || n < 0 {
				return 0, 0, false
			}
		}
		return st, n, true
	}
	var ok1, ok2 bool
	h.oldStart, h.oldCount, ok1 = rng(f[0][1:])
	h.newStart, h.newCount, ok2 = rng(f[1][1:])
	if !ok1 || !ok2 {
		return h, fmt.Sprintf("malformed hunk header %q", l)
	}
	return h, ""
}

// applyUnified applies the hunks to before the way patch(1) does (exact
// positions, no fuzz) and also returns which old lines were deleted and which
// lines of the result were added.
func applyUnified(before string, hunks []uHunk) (after string, delOld, addNew []int, key, what string) {
	old := splitSpans(before)
	var out strings.Builder
	outLines := 0
	next := 0 // next old line (0-based) not yet consumed
	for hi, h := range hunks {
		oc, nc := 0, 0
		for _, l := range h.lines {
			if l.kind != '+' {
				oc++
			}
			if l.kind != '-' {
				nc++
			}
		}
		if oc != h.oldCount || nc != h.newCount {
			return "", nil, nil, "unified/header-count", fmt.Sprintf("hunk %d header says -%d,%d +%d,%d but its body has %d old and %d new lines", hi, h.oldStart, h.oldCount, h.newStart, h.newCount, oc, nc)
		}
		// With a zero count the start names the line *before* the hunk.
		at := h.oldStart - 1
		if h.oldCount == 0 {
			at = h.oldStart
		}
		if at < next || at > len(old) {
			return "", nil, nil, "unified/header-position", fmt.Sprintf("hunk %d starts at old line %d (0-based) but %d lines are already consumed of %d", hi, at, next, len(old))
		}
		for ; next < at; next++ {
			out.WriteString(before[old[next].lo:old[next].hi])
			outLines++
		}
		nat := h.newStart - 1
		if h.newCount == 0 {
			nat = h.newStart
		}
		if nat != outLines {
			return "", nil, nil, "unified/header-position", fmt.Sprintf("hunk %d claims new start line %d (0-based) but the result has %d lines at that point", hi, nat, outLines)
		}
		for li, l := range h.lines {
			if l.kind != '+' {
				if next >= len(old) || before[old[next].lo:old[next].hi] != l.text {
					got := "<EOF>"
					if next < len(old) {
						got = before[old[next].lo:old[next].hi]
					}
					return "", nil, nil, "unified/context-mismatch", fmt.Sprintf("hunk %d line %d (%q %q) does not match old line %d %q", hi, li, l.kind, l.text, next, got)
				}
				if l.kind == '-' {
					delOld = append(delOld, next)
				}
				next++
			}
			if l.kind != '-' {
				if l.kind == '+' {
					addNew = append(addNew, outLines)
				}
				out.WriteString(l.text)
				outLines++
			}
		}
	}
	for ; next < len(old); next++ {
		out.WriteString(before[old[next].lo:old[next].hi])
	}
	return out.String(), delOld, addNew, "", ""
}

// touched returns, for each line span, whether the closed interval of some
// region touches it.  This is the liberal reading of "a changed line": a line
// that no edit even touches can never legitimately be listed.
func touched(spans []lineSpan, regions [][2]int) []bool {
	out := make([]bool, len(spans))
	for i, sp := range spans {
		for _, r := range regions {
			if r[0] <= sp.hi && r[1] >= sp.lo {
				out[i] = true
				break
			}
		}
	}
	return out
}
