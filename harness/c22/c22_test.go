package c22

import (
	"encoding/json"
	"fmt"
	"strconv"
	"strings"
	"testing"
	"unicode/utf8"

	"pgregory.net/rapid"
	"wa-lang.org/wa/internal/lsp/diff"
	"wa-lang.org/wa/zverif/harness/core"
)

const prop = "C22"

func TestMain(m *testing.M) { core.Main(m) }

// ---------------------------------------------------------------- oracle

// kase is the replayable form of one case.  Texts may be invalid UTF-8, so
// they are stored as Go-quoted ASCII literals.
type kase struct {
	Before string `json:"before_q"`
	After  string `json:"after_q"`
	Ctx    int    `json:"ctx"`
}

func q(s string) string { return strconv.QuoteToASCII(s) }

func unq(s string) string {
	u, err := strconv.Unquote(s)
	if err != nil {
		return s
	}
	return u
}

func toEd(es []diff.Edit) []ed {
	out := make([]ed, len(es))
	for i, e := range es {
		out[i] = ed{e.Start, e.End, e.New}
	}
	return out
}

type facts struct {
	edits        int
	multiAdj     bool // a multi-byte rune is adjacent to an edit boundary
	hunks        int
	noEOLMarker  bool
	zeroCountHdr bool
}

// checkPair is the whole oracle; "" = the property holds on (before, after).
func checkPair(before, after string, ctx int) (key, what string, f facts) {
	valid := utf8.ValidString(before) && utf8.ValidString(after)
	enc := "utf8"
	if !valid {
		enc = "invalid-utf8"
	}
	var edits []diff.Edit
	for _, api := range []string{"Strings", "Bytes"} {
		var es []diff.Edit
		if api == "Strings" {
			es = diff.Strings(before, after)
		} else {
			es = diff.Bytes([]byte(before), []byte(after))
		}
		r := toEd(es)
		pre := api + "/" + enc + "/"
		if k, w := refValidate(before, r); k != "" {
			return pre + k, fmt.Sprintf("diff.%s(%q, %q) = %v: %s", api, before, after, es, w), f
		}
		if got := refApply(before, r); got != after {
			return pre + "apply-mismatch", fmt.Sprintf("diff.%s(%q, %q) = %v; applying the edits gives %q", api, before, after, es, got), f
		}
		got, err := diff.Apply(before, es)
		if err != nil {
			return pre + "apply-error", fmt.Sprintf("diff.Apply(%q, %v) = error %v", before, es, err), f
		}
		if got != after {
			return pre + "apply-mismatch", fmt.Sprintf("diff.Apply(%q, diff.%s(…)) = %q, want %q", before, api, got, after), f
		}
		gotB, err := diff.ApplyBytes([]byte(before), es)
		if err != nil || string(gotB) != after {
			return pre + "applybytes-mismatch", fmt.Sprintf("diff.ApplyBytes(%q, %v) = %q, %v; want %q", before, es, gotB, err, after), f
		}
		if before == after && len(es) != 0 {
			return pre + "edits-for-equal-texts", fmt.Sprintf("diff.%s on equal texts %q returned %v", api, before, es), f
		}
		if valid {
			for i, e := range r {
				if !onRuneBoundary(before, e.Start) || !onRuneBoundary(before, e.End) {
					return pre + "rune-boundary", fmt.Sprintf("diff.%s(%q, %q): edit #%d {%d,%d} is not on a rune boundary of before", api, before, after, i, e.Start, e.End), f
				}
				if !utf8.ValidString(e.New) {
					return pre + "rune-boundary/new", fmt.Sprintf("diff.%s(%q, %q): edit #%d inserts %q, which is not valid UTF-8", api, before, after, i, e.New), f
				}
			}
		}
		if api == "Strings" {
			edits = es
		}
	}
	f.edits = len(edits)
	for _, e := range edits {
		for _, p := range []int{e.Start, e.End} {
			if p < len(before) && before[p] >= utf8.RuneSelf || p > 0 && before[p-1] >= utf8.RuneSelf {
				f.multiAdj = true
			}
		}
		if n := len(e.New); n > 0 && (e.New[0] >= utf8.RuneSelf || e.New[n-1] >= utf8.RuneSelf) {
			f.multiAdj = true
		}
	}

	// unified rendering of the same edits
	u, err := diff.ToUnified("a", "b", before, edits, ctx)
	pre := "unified/" + enc + "/"
	if err != nil {
		return pre + "error", fmt.Sprintf("ToUnified(%q, %v, ctx=%d) = error %v", before, edits, ctx, err), f
	}
	if len(edits) == 0 {
		if u != "" {
			return pre + "nonempty-for-no-edits", fmt.Sprintf("ToUnified with no edits = %q", u), f
		}
		return "", "", f
	}
	hunks, perr := parseUnified(u, "a", "b")
	if perr != "" {
		return pre + "malformed", fmt.Sprintf("ToUnified(%q, %v, ctx=%d) = %q: %s", before, edits, ctx, u, perr), f
	}
	f.hunks = len(hunks)
	f.noEOLMarker = strings.Contains(u, "\n\\ No newline at end of file\n")
	for _, h := range hunks {
		if h.oldCount == 0 || h.newCount == 0 {
			f.zeroCountHdr = true
		}
	}
	got, delOld, addNew, k, w := applyUnified(before, hunks)
	if k != "" {
		return strings.Replace(k, "unified/", pre, 1), fmt.Sprintf("ToUnified(%q, %v, ctx=%d) = %q: %s", before, edits, ctx, u, w), f
	}
	if got != after {
		return pre + "apply-mismatch", fmt.Sprintf("ToUnified(%q, %v, ctx=%d) = %q; applying the hunks gives %q, want %q", before, edits, ctx, u, got, after), f
	}
	// every listed line is one that an edit touches ("exactly the changed lines")
	var oldReg, newReg [][2]int
	shift := 0
	for _, e := range edits {
		oldReg = append(oldReg, [2]int{e.Start, e.End})
		newReg = append(newReg, [2]int{e.Start + shift, e.Start + shift + len(e.New)})
		shift += len(e.New) - (e.End - e.Start)
	}
	oldT := touched(splitSpans(before), oldReg)
	for _, i := range delOld {
		if !oldT[i] {
			return pre + "lists-unchanged-line/old", fmt.Sprintf("ToUnified(%q, %v, ctx=%d) = %q lists old line %d as deleted, but no edit touches it", before, edits, ctx, u, i), f
		}
	}
	newT := touched(splitSpans(after), newReg)
	for _, i := range addNew {
		if i >= len(newT) || !newT[i] {
			return pre + "lists-unchanged-line/new", fmt.Sprintf("ToUnified(%q, %v, ctx=%d) = %q lists new line %d as added, but no edit touches it", before, edits, ctx, u, i), f
		}
	}
	// and every line strictly inside a changed region is listed
	listed := map[int]bool{}
	for _, i := range delOld {
		listed[i] = true
	}
	for i, sp := range splitSpans(before) {
		for _, r := range oldReg {
			if r[0] < r[1] && r[0] < sp.hi && r[1] > sp.lo && !listed[i] {
				return pre + "omits-changed-line", fmt.Sprintf("ToUnified(%q, %v, ctx=%d) = %q does not list old line %d, part of which edit {%d,%d} deletes", before, edits, ctx, u, i, r[0], r[1]), f
			}
		}
	}
	return "", "", f
}

// ---------------------------------------------------------------- generators

// Small alphabets so that the LCS has something to find; multi-byte runes of
// every UTF-8 length, a combining mark, CR, and raw bytes that are invalid UTF-8.
var (
	asciiAtoms   = []string{"a", "b", "c", "x", " ", "\t", "0", "(", "{"}
	unicodeAtoms = []string{"é", "ß", "中", "文", "́", "😀", "𝄞", " ", "�"}
	invalidAtoms = []string{"\xff", "\x80", "\xc3", "\xe4\xb8", "\xf0\x9f\x98", "\xed\xa0\x80", "\xc0\xaf"}
)

type flavour struct {
	name    string
	unicode int // weight out of 10
	invalid int
}

var flavours = []flavour{
	{"ascii", 0, 0},
	{"unicode", 4, 0},
	{"invalid", 2, 2},
}

func genAtom(fl flavour) *rapid.Generator[string] {
	return rapid.Custom(func(t *rapid.T) string {
		r := rapid.IntRange(0, 9).Draw(t, "atomclass")
		switch {
		case r < fl.invalid:
			return rapid.SampledFrom(invalidAtoms).Draw(t, "inv")
		case r < fl.invalid+fl.unicode:
			return rapid.SampledFrom(unicodeAtoms).Draw(t, "uni")
		}
		return rapid.SampledFrom(asciiAtoms).Draw(t, "asc")
	})
}

func genLine(fl flavour, maxAtoms int) *rapid.Generator[string] {
	return rapid.Custom(func(t *rapid.T) string {
		return strings.Join(rapid.SliceOfN(genAtom(fl), 0, maxAtoms).Draw(t, "atoms"), "")
	})
}

// genText: line-structured or single-line, LF / CRLF, with or without final newline.
func genText(fl flavour) *rapid.Generator[string] {
	return rapid.Custom(func(t *rapid.T) string {
		switch rapid.IntRange(0, 19).Draw(t, "shape") {
		case 0:
			return ""
		case 1, 2, 3: // single line, possibly long
			return genLine(fl, 120).Draw(t, "single")
		case 4, 5: // long text over a tiny alphabet: hundreds of differences, drives the LCS past its depth limit
			alpha := []string{"a", "b", "a", "b", "\n"}
			if fl.unicode > 0 {
				alpha = append(alpha, "é", "😀")
			}
			if fl.invalid > 0 {
				alpha = append(alpha, "\xff")
			}
			return strings.Join(rapid.SliceOfN(rapid.SampledFrom(alpha), 120, 250).Draw(t, "long"), "")
		}
		n := rapid.IntRange(1, 14).Draw(t, "nlines")
		var b strings.Builder
		for i := 0; i < n && b.Len() < 380; i++ {
			b.WriteString(genLine(fl, 8).Draw(t, "line"))
			if i < n-1 || rapid.IntRange(0, 3).Draw(t, "finalnl") != 0 {
				if rapid.IntRange(0, 7).Draw(t, "crlf") == 0 {
					b.WriteString("\r")
				}
				b.WriteString("\n")
			}
		}
		return b.String()
	})
}

// mutate derives after from before by 0..8 edits.
func mutate(t *rapid.T, fl flavour, before string) (string, []string) {
	s := before
	var ops []string
	n := rapid.IntRange(0, 8).Draw(t, "nmut")
	for i := 0; i < n; i++ {
		lines := strings.SplitAfter(s, "\n")
		if lines[len(lines)-1] == "" {
			lines = lines[:len(lines)-1]
		}
		op := rapid.SampledFrom([]string{"ins", "del", "repl", "move", "dup", "insline", "delline", "toggle-final-nl"}).Draw(t, "mut")
		ops = append(ops, op)
		cut := func(label string) int { // a byte offset, snapped to a rune start when the text is valid there
			p := rapid.IntRange(0, len(s)).Draw(t, label)
			if fl.invalid == 0 {
				for p > 0 && p < len(s) && !utf8.RuneStart(s[p]) {
					p--
				}
			}
			return p
		}
		switch op {
		case "ins":
			p := cut("at")
			s = s[:p] + genLine(fl, 4).Draw(t, "text") + s[p:]
		case "del", "repl":
			p, q := cut("from"), cut("to")
			if p > q {
				p, q = q, p
			}
			if q-p > 12 {
				q = p + 12
				if fl.invalid == 0 {
					for q < len(s) && !utf8.RuneStart(s[q]) {
						q++
					}
				}
			}
			mid := ""
			if op == "repl" {
				mid = genLine(fl, 3).Draw(t, "text")
			}
			s = s[:p] + mid + s[q:]
		case "move", "dup", "delline":
			if len(lines) == 0 {
				continue
			}
			i := rapid.IntRange(0, len(lines)-1).Draw(t, "line")
			l := lines[i]
			if op != "dup" {
				lines = append(lines[:i:i], lines[i+1:]...)
			}
			if op != "delline" {
				j := rapid.IntRange(0, len(lines)).Draw(t, "dest")
				if !strings.HasSuffix(l, "\n") {
					l += "\n"
				}
				lines = append(lines[:j:j], append([]string{l}, lines[j:]...)...)
			}
			s = strings.Join(lines, "")
		case "insline":
			j := rapid.IntRange(0, len(lines)).Draw(t, "dest")
			l := genLine(fl, 6).Draw(t, "text") + "\n"
			if j == len(lines) && j > 0 && !strings.HasSuffix(lines[j-1], "\n") {
				lines[j-1] += "\n"
			}
			lines = append(lines[:j:j], append([]string{l}, lines[j:]...)...)
			s = strings.Join(lines, "")
		case "toggle-final-nl":
			if strings.HasSuffix(s, "\n") {
				s = s[:len(s)-1]
			} else {
				s += "\n"
			}
		}
		if len(s) > 400 {
			s = s[:400]
			if fl.invalid == 0 {
				for len(s) > 0 && !utf8.ValidString(s) {
					s = s[:len(s)-1]
				}
			}
		}
	}
	return s, ops
}

func classify(c *core.Case, fl flavour, mode string, before, after string, ctx int, f facts) {
	c.Class("flavour/" + fl.name)
	c.Class("mode/" + mode)
	c.Class(fmt.Sprintf("ctx/%d", ctx))
	switch {
	case !utf8.ValidString(before) || !utf8.ValidString(after):
		c.Class("text/invalid-utf8")
	case isASCII(before) && isASCII(after):
		c.Class("text/ascii")
	default:
		c.Class("text/multibyte")
	}
	switch {
	case before == after:
		c.Class("pair/identical")
	case before == "" || after == "":
		c.Class("pair/one-side-empty")
	default:
		c.Class("pair/differ")
	}
	if strings.Contains(before+after, "\r\n") {
		c.Class("has/crlf")
	}
	if before != "" && !strings.HasSuffix(before, "\n") || after != "" && !strings.HasSuffix(after, "\n") {
		c.Class("has/no-final-newline")
	}
	switch {
	case f.edits == 0:
		c.Class("edits/0")
	case f.edits == 1:
		c.Class("edits/1")
	case f.edits < 10:
		c.Class("edits/2-9")
	case f.edits < 50:
		c.Class("edits/10-49")
	default:
		c.Class("edits/50+")
	}
	switch {
	case f.hunks == 1:
		c.Class("hunks/1")
	case f.hunks > 1:
		c.Class("hunks/2+")
	}
	if f.noEOLMarker {
		c.Class("unified/no-newline-marker")
	}
	if f.zeroCountHdr {
		c.Class("unified/zero-count-header")
	}
	if f.multiAdj {
		c.Class("edits/multibyte-adjacent")
	}
	if len(before) >= 120 && len(after) >= 120 {
		c.Class("size/both>=120B")
	}
}

func isASCII(s string) bool {
	for i := 0; i < len(s); i++ {
		if s[i] >= utf8.RuneSelf {
			return false
		}
	}
	return true
}

// ---------------------------------------------------------------- tests

const ruleText = "rapid: (before, after) over ASCII / multi-byte UTF-8 / invalid UTF-8 alphabets, line-structured or single-line, LF/CRLF, with/without final newline, ≤ 400 bytes; after is independent, identical, empty or derived by 0..8 edits (insert/delete/replace/move line/duplicate line/…); ctx ∈ 0..4. " +
	"Oracle (independent applier/validator and unified-diff parser+applier in harness/c22/ref.go): edits of Strings and Bytes are in bounds, sorted, non-overlapping; ref-apply == diff.Apply == ApplyBytes == after; on valid UTF-8 every offset is a rune boundary and every New is valid UTF-8; ToUnified parses, header counts/positions match bodies, patch-style application gives after, every '-'/'+' line is touched by an edit and every line an edit deletes from is listed. " +
	"Non-trivial = before ≠ after, both non-empty, ≥ 2 edits and a multi-byte rune (or invalid byte) adjacent to an edit boundary"

func known(key string) bool { return core.IsKnown(prop, key) }

func runPair(c *core.Case, s *core.Stats, fl flavour, mode, before, after string, ctx int) {
	c.Set(kase{Before: q(before), After: q(after), Ctx: ctx})
	key, what, f := checkPair(before, after, ctx)
	classify(c, fl, mode, before, after, ctx, f)
	if key != "" {
		c.Fail(key, "%s", what)
	}
	if before != after && before != "" && after != "" && f.edits >= 2 && f.multiAdj {
		c.Nontrivial(before, after, ctx)
	}
}

func genCtx() *rapid.Generator[int] {
	return rapid.SampledFrom([]int{0, 1, 1, 2, 3, 3, 3, 4})
}

// Pairs where after is derived from before by a few edits.
func TestDerivedPairs(t *testing.T) {
	s := core.NewStats(prop, "DerivedPairs")
	s.Rule(ruleText)
	s.Check(t, func(t *rapid.T, c *core.Case) {
		fl := rapid.SampledFrom(flavours).Draw(t, "flavour")
		before := genText(fl).Draw(t, "before")
		after, ops := mutate(t, fl, before)
		ctx := genCtx().Draw(t, "ctx")
		for _, op := range ops {
			c.Class("mut/" + op)
		}
		runPair(c, s, fl, "derived", before, after, ctx)
	})
}

// Independent texts (large edit distance: drives the LCS past its depth limit),
// identical pairs and empty sides.
func TestIndependentPairs(t *testing.T) {
	s := core.NewStats(prop, "IndependentPairs")
	s.Rule(ruleText)
	s.Check(t, func(t *rapid.T, c *core.Case) {
		fl := rapid.SampledFrom(flavours).Draw(t, "flavour")
		before := genText(fl).Draw(t, "before")
		mode := rapid.SampledFrom([]string{"independent", "independent", "independent", "independent", "identical", "swap-flavour"}).Draw(t, "mode")
		var after string
		switch mode {
		case "identical":
			after = before
		case "swap-flavour":
			after = genText(rapid.SampledFrom(flavours).Draw(t, "flavour2")).Draw(t, "after")
		default:
			after = genText(fl).Draw(t, "after")
		}
		ctx := genCtx().Draw(t, "ctx")
		runPair(c, s, fl, mode, before, after, ctx)
	})
}

// ---------------------------------------------------------------- replay

func replay(test string, raw json.RawMessage) (string, string) {
	var k kase
	if err := json.Unmarshal(raw, &k); err != nil {
		return "harness/bad-replay", err.Error()
	}
	key, what, _ := checkPair(unq(k.Before), unq(k.After), k.Ctx)
	return key, what
}

func TestReplay(t *testing.T) { core.RunReplays(t, prop, replay) }
