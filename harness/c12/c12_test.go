package c12

import (
	"encoding/json"
	"fmt"
	"strings"
	"testing"
	"time"

	"pgregory.net/rapid"
	"wa-lang.org/wa/zverif/harness/core"
	"wa-lang.org/wa/zverif/harness/memtrace"
	"wa-lang.org/wa/zverif/harness/wagen"
	"wa-lang.org/wa/zverif/harness/wk"
)

const prop = "C12"

func TestMain(m *testing.M) { core.Main(m) }

// kase: the iteration body is the generated program's main, renamed; the
// harness appends a main that calls it N times.
type kase struct {
	Body string `json:"body"` // Wa source with `func iteration { … }` instead of main
	N1   int    `json:"n1"`
	N2   int    `json:"n2"`
}

func (k kase) source(n int) string {
	return k.Body + fmt.Sprintf("\nfunc main {\n\tfor it := 0; it < %d; it++ {\n\t\titeration()\n\t}\n}\n", n)
}

type buildResult struct {
	Main string `json:"main"`
	Wat  string `json:"wat"`
}

var worker *wk.Client

func getWorker() *wk.Client {
	if worker == nil {
		worker = wk.New(wk.Options{CPULimit: 150 * time.Second})
	}
	return worker
}

func runN(k kase, n int) (*memtrace.Report, string) {
	o := getWorker().Do("build", wk.Src{Name: "p.wa", Src: k.source(n)})
	if o.Kind != wk.OK {
		return nil, "does-not-build: " + firstLines(o.String(), 2)
	}
	var b buildResult
	o.Decode(&b)
	r, err := memtrace.Run("p.wa", []byte(b.Wat), b.Main, false)
	if err != nil {
		return nil, "instrumentation: " + err.Error()
	}
	if r.RunErr != "" {
		return nil, "program-traps (C01 domain): " + firstLines(r.RunErr, 2)
	}
	return r, ""
}

type stats struct {
	perIterBlocks float64
	live1, live2  int
}

func judge(k kase) (key, what, domain string, st stats) {
	r1, d := runN(k, k.N1)
	if d != "" {
		return "", "", d, st
	}
	r2, d := runN(k, k.N2)
	if d != "" {
		return "", "", d, st
	}
	st = stats{perIterBlocks: float64(r2.Mallocs-r1.Mallocs) / float64(k.N2-k.N1), live1: r1.LiveBlocks, live2: r2.LiveBlocks}
	if r2.LiveBlocks > r1.LiveBlocks {
		return "live-blocks-grow-with-N", fmt.Sprintf("live heap blocks after %d iterations: %d; after %d iterations: %d (%.1f blocks allocated per iteration, every one unreachable after its iteration)",
			k.N1, r1.LiveBlocks, k.N2, r2.LiveBlocks, st.perIterBlocks), "", st
	}
	if r2.LiveBytes > r1.LiveBytes {
		// Same number of live blocks, more bytes: one of the program's own live values is
		// larger. The only value a generated iteration may grow is the reassigned string
		// global, which scap() bounds at 40 bytes (48 with rounding) but which may reach
		// that bound after any number of iterations. Growth that is a leak continues: a
		// third, much longer run must exceed what saturation can explain.
		n3 := k.N2 + 4*(k.N2-k.N1)
		r3, d := runN(k, n3)
		if d != "" {
			return "", "", d, st
		}
		if r3.LiveBlocks > r2.LiveBlocks {
			return "live-blocks-grow-with-N", fmt.Sprintf("live heap blocks after %d iterations: %d; after %d iterations: %d", k.N2, r2.LiveBlocks, n3, r3.LiveBlocks), "", st
		}
		if r3.LiveBytes > r2.LiveBytes && r3.LiveBytes-r1.LiveBytes > 64 {
			return "live-bytes-grow-with-N", fmt.Sprintf("live heap bytes after %d / %d / %d iterations: %d / %d / %d (same number of live blocks; growth beyond what a string bounded at 40 bytes explains)",
				k.N1, k.N2, n3, r1.LiveBytes, r2.LiveBytes, r3.LiveBytes), "", st
		}
	}
	// heap extent: may differ by fragmentation, but not by more than what a couple of iterations allocate
	perIterBytes := (r2.MallocBytes - r1.MallocBytes) / int64(k.N2-k.N1)
	slack := 3*perIterBytes + 4096
	if int64(r2.HighWater)-int64(r1.HighWater) > slack {
		return "heap-extent-grows-with-N", fmt.Sprintf("highest heap address handed out: %d after %d iterations, %d after %d iterations (one iteration allocates %d bytes; allowed slack %d)",
			r1.HighWater, k.N1, r2.HighWater, k.N2, perIterBytes, slack), "", st
	}
	// Slow linear growth (a few bytes lost per iteration stays below any slack that
	// tolerates warm-up): if the extent grew at all between N1 and N2, run a third
	// length and demand that growth does not continue at ≥ 8 bytes per iteration.
	if r2.HighWater > r1.HighWater {
		n3 := k.N2 + (k.N2 - k.N1)
		r3, d := runN(k, n3)
		if d != "" {
			return "", "", d, st
		}
		g1, g2 := int64(r2.HighWater)-int64(r1.HighWater), int64(r3.HighWater)-int64(r2.HighWater)
		per := int64(k.N2-k.N1) * 8
		if g1 >= per && g2 >= per {
			return "heap-extent-grows-linearly", fmt.Sprintf("highest heap address handed out keeps growing although live blocks stay constant: %d → %d → %d after %d / %d / %d iterations (+%d, +%d bytes: blocks are lost inside the allocator)",
				r1.HighWater, r2.HighWater, r3.HighWater, k.N1, k.N2, n3, g1, g2), "", st
		}
	}
	return "", "", "", st
}

func firstLines(s string, n int) string {
	ls := strings.Split(strings.TrimSpace(s), "\n")
	if len(ls) > n {
		ls = ls[:n]
	}
	return strings.Join(ls, "\n")
}

func TestLoopsRunInBoundedHeap(t *testing.T) {
	s := core.NewStats(prop, "LoopsRunInBoundedHeap")
	s.Rule("rapid-drawn iteration bodies = main of a harness/wagen program without composite globals (so nothing an iteration allocates stays reachable; the generator's data graph is acyclic: no self-referential stores); the body is run N1=48 and N2=96 times (both beyond the 40-byte cap of the reassigned string globals, so the retained state is saturated) with the allocator instrumented from outside (WAT rewriting as in C11); oracle (metamorphic in N) = live blocks and live bytes after N2 iterations do not exceed those after N1, and the highest heap address handed out grows by no more than three iterations' allocation volume + 4 KiB; non-trivial = ≥ 3 blocks allocated per iteration; distinct by source hash")
	s.Assume("scalar string globals are reassigned (bounded by scap) each iteration, which keeps one block alive independent of N")
	var judged, out int64
	s.Check(t, func(t *rapid.T, c *core.Case) {
		p := wagen.Gen(t, wagen.Options{MaxStmts: 30, MaxFuncs: 4, NoCompositeGlobals: true})
		src := p.Src[wagen.Wa]
		if strings.Count(src, "\nfunc main {") != 1 {
			t.Skip("no main")
		}
		k := kase{Body: strings.Replace(src, "\nfunc main {", "\nfunc iteration {", 1), N1: 48, N2: 96}
		c.Set(k)
		key, what, domain, st := judge(k)
		if domain != "" {
			s.Counter("rejected_by_domain/"+strings.SplitN(domain, ":", 2)[0], 1)
			out++
			t.Skip(domain)
		}
		judged++
		switch {
		case st.perIterBlocks >= 20:
			c.Class("blocks-per-iteration>=20")
		case st.perIterBlocks >= 3:
			c.Class("blocks-per-iteration>=3")
		default:
			c.Class("blocks-per-iteration<3")
		}
		if key != "" {
			c.Fail(key, "%s", what)
		}
		if st.perIterBlocks >= 3 {
			c.Nontrivial(k.Body)
		}
	})
	if judged > 0 && out*3 > judged {
		t.Errorf("generator health: %d of %d programs fell outside the domain", out, judged+out)
	}
}

func replay(test string, raw json.RawMessage) (string, string) {
	var k kase
	if err := json.Unmarshal(raw, &k); err != nil {
		return "harness/bad-replay", err.Error()
	}
	key, what, _, _ := judge(k)
	return key, what
}

func TestReplay(t *testing.T) { core.RunReplays(t, prop, replay) }
