package c12

import (
	"fmt"
	"strings"
	"testing"

	"pgregory.net/rapid"
	"wa-lang.org/wa/zverif/harness/core"
)

// Iteration bodies that keep MANY objects of one size class alive at the same
// time and drop them together (the allocator's fixed-size free lists have a
// capacity; flushing a full list is a path that small bodies never reach).
// Shapes and counts are rapid draws; data stays acyclic.

func nodeType(fields int) string {
	var b strings.Builder
	b.WriteString("type Node :struct {\n\tnext: *Node\n")
	for i := 0; i < fields; i++ {
		fmt.Fprintf(&b, "\tf%d: i64\n", i)
	}
	b.WriteString("}\n\n")
	return b.String()
}

func genManyBody(t *rapid.T) (string, string) {
	k := rapid.SampledFrom([]int{1, 8, 40, 63, 64, 65, 66, 100, 130, 200}).Draw(t, "k")
	fields := rapid.IntRange(0, 8).Draw(t, "fields") // payload 4..68 bytes: every fixed size class
	shape := rapid.SampledFrom([]string{"chain", "slice-of-ptr", "map", "strings", "nested-slices", "closures"}).Draw(t, "shape")
	var b strings.Builder
	b.WriteString(nodeType(fields))
	b.WriteString("func iteration {\n")
	switch shape {
	case "chain":
		fmt.Fprintf(&b, "\tvar head: *Node\n\tfor i := 0; i < %d; i++ {\n\t\thead = &Node{next: head}\n\t}\n\tn := 0\n\tfor p := head; p != nil; p = p.next {\n\t\tn++\n\t}\n\tprintln(n)\n", k)
	case "slice-of-ptr":
		fmt.Fprintf(&b, "\tps := make([]*Node, 0)\n\tfor i := 0; i < %d; i++ {\n\t\tps = append(ps, &Node{})\n\t}\n\tprintln(len(ps))\n", k)
	case "map":
		fmt.Fprintf(&b, "\tm := make(map[i32]*Node)\n\tfor i := i32(0); i < %d; i++ {\n\t\tm[i] = &Node{}\n\t}\n\tfor i := i32(0); i < %d; i += 2 {\n\t\tdelete(m, i)\n\t}\n\tprintln(len(m))\n", k, k)
	case "strings":
		fmt.Fprintf(&b, "\tss := make([]string, 0)\n\ts := \"x\"\n\tfor i := 0; i < %d; i++ {\n\t\ts = s + \"y\"\n\t\tif len(s) > %d {\n\t\t\ts = \"x\"\n\t\t}\n\t\tss = append(ss, s)\n\t}\n\tprintln(len(ss))\n", k, 8+fields*8)
	case "nested-slices":
		fmt.Fprintf(&b, "\touter := make([][]i64, 0)\n\tfor i := 0; i < %d; i++ {\n\t\touter = append(outer, make([]i64, %d))\n\t}\n\tprintln(len(outer))\n", k, 1+fields)
	case "closures":
		fmt.Fprintf(&b, "\tfs := make([]func() => i32, 0)\n\tfor i := i32(0); i < %d; i++ {\n\t\tj := i\n\t\tfs = append(fs, func() => i32 { return j })\n\t}\n\tsum := i32(0)\n\tfor _, f := range fs {\n\t\tsum += f()\n\t}\n\tprintln(sum)\n", k)
	}
	b.WriteString("}\n")
	return b.String(), fmt.Sprintf("%s/k=%d/fields=%d", shape, k, fields)
}

func TestManyObjectsPerIteration(t *testing.T) {
	s := core.NewStats(prop, "ManyObjectsPerIteration")
	s.Rule("rapid-drawn parameters of templated iteration bodies that keep k ∈ {1 … 200} heap objects of one size class alive at once (linked chain, slice of pointers, map with deletions, slice of strings, nested slices, slice of closures; payload 4–68 bytes) and drop them together; same metamorphic oracle in N (48 / 96 / 144 iterations) as LoopsRunInBoundedHeap; non-trivial = k ≥ 64 (beyond the capacity of the allocator's fixed-size free lists); distinct by (shape, k, payload)")
	s.Check(t, func(t *rapid.T, c *core.Case) {
		body, class := genManyBody(t)
		k := kase{Body: body, N1: 48, N2: 96}
		c.Set(k)
		key, what, domain, _ := judge(k)
		if domain != "" {
			s.Counter("rejected_by_domain/"+strings.SplitN(domain, ":", 2)[0], 1)
			t.Skip(domain)
		}
		c.Class("shape/" + strings.SplitN(class, "/", 2)[0])
		if key != "" {
			c.Fail(key, "%s (%s)", what, class)
		}
		var kk int
		fmt.Sscanf(strings.SplitN(class, "/k=", 2)[1], "%d", &kk)
		if kk >= 64 {
			c.Nontrivial(class)
		}
	})
}
