package c11

import (
	"encoding/json"
	"fmt"
	"strings"
	"testing"
	"time"

	"pgregory.net/rapid"
	"wa-lang.org/wa/zverif/harness/core"
	"wa-lang.org/wa/zverif/harness/memtrace"
	"wa-lang.org/wa/zverif/harness/wagen"
	"wa-lang.org/wa/zverif/harness/wk"
)

const prop = "C11"

func TestMain(m *testing.M) { core.Main(m) }

type kase struct {
	Name string `json:"name"`
	Src  string `json:"src"`
	Want string `json:"want,omitempty"` // exact expected stdout when the generator has a model of the program
}

type buildResult struct {
	Main string `json:"main"`
	Wat  string `json:"wat"`
}

var worker *wk.Client

func getWorker() *wk.Client {
	if worker == nil {
		worker = wk.New(wk.Options{CPULimit: 150 * time.Second})
	}
	return worker
}

type stats struct{ mallocs, frees, live int }

// judge compiles the program in the worker, then runs the instrumented module
// twice in-process (plain and poisoned).
func judge(k kase) (key, what, domain string, st stats) {
	o := getWorker().Do("build", wk.Src{Name: k.Name, Src: k.Src})
	if o.Kind != wk.OK {
		return "", "", "does-not-build: " + firstLines(o.String(), 2), st
	}
	var b buildResult
	o.Decode(&b)
	plain, err := memtrace.Run(k.Name, []byte(b.Wat), b.Main, false)
	if err != nil {
		return "", "", "instrumentation: " + err.Error(), st
	}
	pois, err := memtrace.Run(k.Name, []byte(b.Wat), b.Main, true)
	if err != nil {
		return "", "", "instrumentation: " + err.Error(), st
	}
	st = stats{pois.Mallocs, pois.Frees, pois.LiveBlocks}
	for _, r := range []*memtrace.Report{plain, pois} {
		if len(r.Events) > 0 {
			return "invalid-heap-event/" + eventClass(r.Events[0]), "allocator events that the property forbids:\n" + strings.Join(r.Events, "\n"), "", st
		}
	}
	if plain.RunErr != "" && k.Want != "" {
		return "trap-in-modelled-program", "a program that only allocates, drops and re-reads slices (it cannot trap by itself) failed: " + firstLines(plain.RunErr, 4) + "\noutput so far:\n" + diffText(k.Want, plain.Stdout), "", st
	}
	if plain.RunErr != "" {
		return "", "", "program-traps-without-poison (C01 domain): " + firstLines(plain.RunErr, 2), st
	}
	if k.Want != "" && plain.Stdout != k.Want {
		return "output-differs-from-model", "live data was lost or altered: " + diffText(k.Want, plain.Stdout), "", st
	}
	if pois.RunErr != "" {
		return "trap-under-poison", "the program runs to completion normally but fails when freed memory is overwritten with garbage: " + firstLines(pois.RunErr, 4), "", st
	}
	if plain.Stdout != pois.Stdout {
		return "output-changes-under-poison", "output differs when freed memory is overwritten with 0xDB and fresh blocks are pre-filled with 0xCD: " + diffText(plain.Stdout, pois.Stdout), "", st
	}
	return "", "", "", st
}

func eventClass(e string) string {
	switch {
	case strings.HasPrefix(e, "double free"):
		return "double-free"
	case strings.HasPrefix(e, "free("):
		return "free-of-non-block"
	case strings.Contains(e, "overlaps"):
		return "overlap"
	case strings.Contains(e, "not zero"):
		return "allocation-not-zeroed"
	}
	return "other"
}

func diffText(want, got string) string {
	wl, gl := strings.Split(want, "\n"), strings.Split(got, "\n")
	for i := 0; i < len(wl) || i < len(gl); i++ {
		var a, b string
		if i < len(wl) {
			a = wl[i]
		}
		if i < len(gl) {
			b = gl[i]
		}
		if a != b {
			return fmt.Sprintf("first difference at output line %d: reference %q, observed %q", i+1, a, b)
		}
	}
	return "outputs differ"
}

func firstLines(s string, n int) string {
	ls := strings.Split(strings.TrimSpace(s), "\n")
	if len(ls) > n {
		ls = ls[:n]
	}
	return strings.Join(ls, "\n")
}

func TestPoisonedRuns(t *testing.T) {
	s := core.NewStats(prop, "PoisonedRuns")
	s.Rule("rapid-drawn programs (harness/wagen: slices, strings, maps, structs with pointers, closures capturing references, interfaces holding heap values, append reallocation with live aliases, defer) compiled by the real compiler; the WAT is rewritten so $runtime.malloc/free/HeapAlloc report to the harness (no source hook); each program runs plain and poisoned (fresh blocks pre-filled 0xCD, freed payloads overwritten 0xDB); oracle = no double free / free of a non-block / overlapping allocation / non-zero HeapAlloc result, no trap under poison, identical output; non-trivial = ≥ 20 allocations and ≥ 10 frees during the run; distinct by source hash")
	s.Assume("programs are the C01 domain; the instrumented module runs on the vendored wazero interpreter; a use-after-free that reads freed memory without changing the output or trapping is not observable")
	var judged, out int64
	s.Check(t, func(t *rapid.T, c *core.Case) {
		p := wagen.Gen(t, wagen.Options{MaxStmts: 40, MaxFuncs: 4})
		k := kase{Name: "p.wa", Src: p.Src[wagen.Wa]}
		c.Set(k)
		key, what, domain, st := judge(k)
		if domain != "" {
			s.Counter("rejected_by_domain/"+strings.SplitN(domain, ":", 2)[0], 1)
			out++
			t.Skip(domain)
		}
		judged++
		s.Counter("mallocs", int64(st.mallocs))
		s.Counter("frees", int64(st.frees))
		if key != "" {
			c.Fail(key, "%s", what)
		}
		if st.mallocs >= 20 && st.frees >= 10 {
			c.Nontrivial(k.Src)
		}
	})
	if judged > 0 && out*3 > judged {
		t.Errorf("generator health: %d of %d programs fell outside the domain", out, judged+out)
	}
}

func replay(test string, raw json.RawMessage) (string, string) {
	var k kase
	if err := json.Unmarshal(raw, &k); err != nil {
		return "harness/bad-replay", err.Error()
	}
	key, what, _, _ := judge(k)
	if key != "" && test == "HeapChurn" {
		key = "churn/" + key
	}
	return key, what
}

func TestReplay(t *testing.T) { core.RunReplays(t, prop, replay) }
