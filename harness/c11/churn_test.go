package c11

// TestHeapChurn: allocation/release histories. A drawn sequence of operations
// over a handful of slots (allocate a block of a drawn size and fill it with a
// recognisable pattern, drop a reference, alias, sub-slice, call a function
// that allocates and drops garbage) is rendered as ONE Wa program; releases are
// ordinary assignments, so the order in which blocks become unreachable - and
// thereby the order in which the runtime frees and coalesces them - is the
// drawn one. The program checks every live slot against its pattern; the harness
// knows the exact expected output (a reference model of the slots), so "live
// data is never freed or reused" is decided by output == model, by the
// host-side live map (overlap / double free / non-zero allocation) and by
// poison equivalence.

import (
	"fmt"
	"strings"
	"testing"

	"pgregory.net/rapid"
	"wa-lang.org/wa/zverif/harness/core"
)

const nSlots = 8

type slotModel struct {
	live bool
	tag  int32 // element i holds tag + off + i
	off  int
	n    int
}

type churnGen struct {
	t     *rapid.T
	body  []string
	want  []string
	slots [nSlots]slotModel
	u8    bool
	// inline: operations are statements of main (the temporaries of main then keep every
	// block alive until main returns); otherwise each operation is a call of a small helper,
	// so a block is released at the drawn point of the history
	inline bool
	nextT int32
	// statistics
	makes, releases, bigAfterRelease, aliases int
	released                                 bool
}

// sizes (elements) around the allocator's class boundaries: blocks up to 80 bytes
// (payload + 16 bytes of block header) live on fixed-size lists, larger ones on the
// variable-size list where neighbours are coalesced.
var churnSizesI32 = []int{1, 2, 4, 6, 8, 12, 15, 16, 17, 24, 40, 40, 40, 64, 100, 132, 132, 300, 1000}
var churnSizesU8 = []int{1, 7, 8, 16, 31, 32, 48, 63, 64, 65, 100, 160, 160, 160, 256, 528, 528, 1200, 4000}

func (g *churnGen) size(label string) int {
	if g.u8 {
		return rapid.SampledFrom(churnSizesU8).Draw(g.t, label)
	}
	return rapid.SampledFrom(churnSizesI32).Draw(g.t, label)
}

func (g *churnGen) elem() string {
	if g.u8 {
		return "u8"
	}
	return "i32"
}

func (g *churnGen) emit(format string, a ...interface{}) {
	g.body = append(g.body, "\t"+fmt.Sprintf(format, a...))
}

func (g *churnGen) opMake(k, n int) {
	g.nextT += 1000
	tag := g.nextT
	if g.u8 {
		tag = g.nextT / 1000 * 7 % 200
	}
	if g.inline {
		g.emit("slots[%d] = make([]%s, %d)", k, g.elem(), n)
		g.emit("fill(slots[%d], %d)", k, tag)
	} else {
		g.emit("mk(%d, %d, %d)", k, n, tag)
	}
	g.slots[k] = slotModel{live: true, tag: tag, n: n}
	g.makes++
	if g.released && ((g.u8 && n >= 65) || (!g.u8 && n >= 17)) {
		g.bigAfterRelease++
	}
}

func (g *churnGen) opRelease(k int) {
	if g.inline {
		g.emit("slots[%d] = nil", k)
	} else {
		g.emit("rel(%d)", k)
	}
	if g.slots[k].live {
		g.releases++
		g.released = true
	}
	g.slots[k] = slotModel{}
}

func (g *churnGen) opAlias(dst, src int) {
	if g.inline {
		g.emit("slots[%d] = slots[%d]", dst, src)
	} else {
		g.emit("alias(%d, %d)", dst, src)
	}
	g.slots[dst] = g.slots[src]
	g.aliases++
}

func (g *churnGen) opSub(dst, src, lo, hi int) {
	if g.inline {
		g.emit("slots[%d] = slots[%d][%d:%d]", dst, src, lo, hi)
	} else {
		g.emit("sub(%d, %d, %d, %d)", dst, src, lo, hi)
	}
	s := g.slots[src]
	g.slots[dst] = slotModel{live: true, tag: s.tag, off: s.off + lo, n: hi - lo}
	g.aliases++
}

func (g *churnGen) opCheck(k int) {
	s := g.slots[k]
	if !s.live {
		g.emit("check(%d, 0)", k)
		g.want = append(g.want, fmt.Sprintf("slot %d 0 0", k))
		return
	}
	g.emit("check(%d, %d)", k, int(s.tag)+s.off)
	g.want = append(g.want, fmt.Sprintf("slot %d %d 0", k, s.n))
}

func (g *churnGen) opChurn(n int) {
	g.emit("churn(%d)", n)
	g.want = append(g.want, fmt.Sprintf("churn %d", n))
}

func (g *churnGen) liveSlots() []int {
	var r []int
	for i, s := range g.slots {
		if s.live {
			r = append(r, i)
		}
	}
	return r
}

func genChurn(t *rapid.T) (kase, *churnGen) {
	g := &churnGen{t: t, u8: rapid.IntRange(0, 3).Draw(t, "u8") == 0, inline: rapid.IntRange(0, 5).Draw(t, "inline") == 0}
	rounds := rapid.IntRange(1, 4).Draw(t, "rounds")
	for r := 0; r < rounds; r++ {
		// phase A: a burst of allocations (address-adjacent when served by bumping the heap)
		perm := rapid.Permutation([]int{0, 1, 2, 3, 4, 5, 6, 7}).Draw(t, "slotorder")
		na := rapid.IntRange(2, 6).Draw(t, "burst")
		same := rapid.Bool().Draw(t, "samesize")
		sz := g.size("burstsize")
		for i := 0; i < na; i++ {
			if !same {
				sz = g.size("size")
			}
			g.opMake(perm[i], sz)
		}
		// optional aliases / sub-slices keep some blocks alive through another slot
		for i, na2 := 0, rapid.IntRange(0, 2).Draw(t, "naliases"); i < na2; i++ {
			ls := g.liveSlots()
			src := ls[rapid.IntRange(0, len(ls)-1).Draw(t, "aliassrc")]
			dst := rapid.IntRange(0, nSlots-1).Draw(t, "aliasdst")
			if dst == src {
				continue
			}
			if rapid.Bool().Draw(t, "sub") && g.slots[src].n >= 2 {
				lo := rapid.IntRange(0, g.slots[src].n-1).Draw(t, "lo")
				hi := rapid.IntRange(lo, g.slots[src].n).Draw(t, "hi")
				g.opSub(dst, src, lo, hi)
			} else {
				g.opAlias(dst, src)
			}
		}
		// phase B: releases in a drawn order (a subset of the live slots)
		ls := g.liveSlots()
		order := rapid.Permutation(ls).Draw(t, "releaseorder")
		nrel := rapid.IntRange(1, len(order)).Draw(t, "nrelease")
		for i := 0; i < nrel; i++ {
			g.opRelease(order[i])
			if rapid.IntRange(0, 5).Draw(t, "churnBetween") == 0 {
				g.opChurn(g.size("churnsize"))
			}
		}
		// phase C: new allocations that may be served from the released blocks
		nc := rapid.IntRange(1, 4).Draw(t, "refill")
		for i := 0; i < nc; i++ {
			k := rapid.IntRange(0, nSlots-1).Draw(t, "refillslot")
			if g.slots[k].live && rapid.Bool().Draw(t, "keep") {
				continue
			}
			g.opMake(k, g.size("refillsize"))
		}
		for k := 0; k < nSlots; k++ {
			g.opCheck(k)
		}
	}
	el := g.elem()
	src := fmt.Sprintf(`global slots: [%d][]%s

func fill(s: []%s, tag: int) {
	for i := range s {
		s[i] = %s(tag + i)
	}
}

func check(k: int, tag: int) {
	s := slots[k]
	bad := 0
	for i := range s {
		if s[i] != %s(tag+i) {
			bad++
		}
	}
	println("slot", k, len(s), bad)
}

func churn(n: int) {
	t := make([]%s, n)
	fill(t, 1)
	u := make([]i64, 3)
	u[0] = i64(len(t))
	println("churn", u[0])
}

func mk(k: int, n: int, tag: int) {
	slots[k] = make([]%s, n)
	fill(slots[k], tag)
}

func rel(k: int) {
	slots[k] = nil
}

func alias(dst: int, src: int) {
	slots[dst] = slots[src]
}

func sub(dst: int, src: int, lo: int, hi: int) {
	slots[dst] = slots[src][lo:hi]
}

func main {
%s
}
`, nSlots, el, el, el, el, el, el, strings.Join(g.body, "\n"))
	return kase{Name: "churn.wa", Src: src, Want: strings.Join(g.want, "\n") + "\n"}, g
}

func TestHeapChurn(t *testing.T) {
	s := core.NewStats(prop, "HeapChurn")
	s.Rule("rapid: allocation/release histories rendered as one Wa program: 1..4 rounds of (burst of 2..6 make([]i32|[]u8, n) into drawn slots of a global array, n from a list around the allocator's size-class boundaries, equal or mixed sizes; 0..2 aliases or sub-slices; release of a drawn subset of the live slots in a drawn order, optionally interleaved with a function that allocates and drops garbage; 1..4 new allocations; check of every slot against its fill pattern); oracle: stdout equals the harness's slot model exactly (every live slot intact, right length), the host-side live map sees no overlap / double free / free of a non-block / non-zero fresh block, and output is unchanged under poisoning; operations are calls of small helper functions so that a block is released exactly at the drawn point (1 in 6 programs: statements of main, whose temporaries delay releases); non-trivial = helper form, at least 3 releases and a later allocation of a block too large for the fixed-size lists")
	s.Assume("slices of i32/u8 only; blocks become unreachable exactly at the drawn assignment (the reference model of reachability is the slot table)")
	var judged, out int64
	s.Check(t, func(t *rapid.T, c *core.Case) {
		k, g := genChurn(t)
		c.Set(k)
		key, what, domain, st := judge(k)
		if domain != "" {
			s.Counter("rejected_by_domain/"+strings.SplitN(domain, ":", 2)[0], 1)
			out++
			fmt.Println("REJECTED:", domain)
			t.Skip(domain)
		}
		judged++
		s.Counter("mallocs", int64(st.mallocs))
		s.Counter("frees", int64(st.frees))
		if g.u8 {
			c.Class("elem/u8")
		} else {
			c.Class("elem/i32")
		}
		if g.aliases > 0 {
			c.Class("with-alias")
		}
		if g.inline {
			c.Class("ops-inline")
		} else {
			c.Class("ops-in-helpers")
		}
		if key != "" {
			c.Fail("churn/"+key, "%s", what)
		}
		if !g.inline && g.releases >= 3 && g.bigAfterRelease > 0 {
			c.Nontrivial(k.Src)
		}
	})
	if out > 0 {
		t.Errorf("generator health: %d of %d churn programs fell outside the domain (they must all build and run)", out, judged+out)
	}
}
