// Package textmut produces hostile source text for the front ends of the Wa
// tool chain: Wa (.wa) and Wz (.wz) source, WebAssembly text (.wat) and native
// assembly (.wa.s/.wz.s/.s).  It is shared by the checks that fuzz scanners,
// parsers, the type checker or the formatter.
//
// The package has three layers of mutators
//
//	byte level     flip/insert/delete/duplicate/truncate bytes, inject hostile byte sequences
//	token level    a lossless, forgiving tokenizer per language plus delete /
//	               duplicate / swap / replace / insert tokens (replacements come
//	               from the vocabularies of the repository's three scanners and
//	               from the corpus itself), unbalance brackets, deep nesting,
//	               huge literals, truncation at a token boundary ("half-typed code")
//	grammar level  splice balanced bracket groups and top-level declarations of
//	               other corpus files (same or different language) into a file
//
// a seed corpus (every .wa/.wz file under waroot, the testdata .wat files, the
// native assembly files of the repository, caller-supplied additions such as
// compiler-emitted WAT) and a list of hostile constants (NUL, BOM, lone
// surrogates, "\r", 64 KiB of "(", "0x" with 5000 digits, …).
//
// All randomness comes from the caller through the one-method Rand interface;
// FromRapid adapts a *rapid.T (every decision is a rapid draw, so cases shrink
// and replay), NewSplitMix is a cheap deterministic stream for bulk loops and
// native fuzz targets.  Draw value 0 always selects the simplest alternative
// (smallest seed, fewest mutations), which is what rapid shrinks towards.
//
// Typical use:
//
//	corp, _ := textmut.Load(core.RepoDir())
//	g := corp.Generate(textmut.FromRapid(t), textmut.Wa, textmut.Options{})
//	// g.Text is the input, g.Kinds names the mutators applied, g.Seed the base file
package textmut

import (
	"bytes"
	"hash/fnv"
	"os"
	"path/filepath"
	"sort"
	"strings"
	"unicode"
	"unicode/utf8"

	"pgregory.net/rapid"
)

// MaxLen is the largest text Generate returns (the C08 time bound is stated for
// inputs of at most 64 KiB).
const MaxLen = 64 << 10

// Lang selects tokenizer, vocabulary and seed corpus.
type Lang string

const (
	Wa  Lang = "wa"  // English syntax
	Wz  Lang = "wz"  // Chinese syntax
	Wat Lang = "wat" // WebAssembly text
	Asm Lang = "asm" // native assembly (gas-like and Chinese dialect)
)

// Langs lists all languages.
var Langs = []Lang{Wa, Wz, Wat, Asm}

// Seed is one corpus text.
type Seed struct {
	Path string // repository-relative path, or "hostile/<name>", or caller-chosen
	Lang Lang   // "" for hostile constants
	Text string
}

// Rand is the only source of randomness the mutators use.
type Rand interface {
	// Intn returns a value in [0,n); n ≥ 1.
	Intn(n int) int
}

type rapidRand struct{ t *rapid.T }

func (r rapidRand) Intn(n int) int {
	if n <= 1 {
		return 0
	}
	return rapid.IntRange(0, n-1).Draw(r.t, "r")
}

// FromRapid makes every decision a rapid draw.
func FromRapid(t *rapid.T) Rand { return rapidRand{t} }

// SplitMix is a deterministic stream (not for use inside rapid properties
// unless its seed is itself a rapid draw).
type SplitMix struct{ x uint64 }

// NewSplitMix returns a stream determined by seed.
func NewSplitMix(seed uint64) *SplitMix { return &SplitMix{seed} }

func (s *SplitMix) Intn(n int) int {
	if n <= 1 {
		return 0
	}
	s.x += 0x9e3779b97f4a7c15
	z := s.x
	z = (z ^ (z >> 30)) * 0xbf58476d1ce4e5b9
	z = (z ^ (z >> 27)) * 0x94d049bb133111eb
	z ^= z >> 31
	return int(z % uint64(n))
}

// ---------------------------------------------------------------- corpus

// Corpus is the seed corpus plus the vocabularies derived from it.
type Corpus struct {
	seeds  map[Lang][]Seed
	hashes map[uint64]struct{}
	vocab  map[Lang][]string
}

func hashText(s string) uint64 {
	h := fnv.New64a()
	h.Write([]byte(s))
	return h.Sum64()
}

// Load reads the seed corpus from a checkout of the repository:
// waroot/**/*.wa|*.wz, internal/wat/watutil/testdata/*.wat and the other .wat
// files, and every *.s file.  Seeds of each language are sorted by size.
func Load(repoDir string) (*Corpus, error) {
	c := &Corpus{seeds: map[Lang][]Seed{}, hashes: map[uint64]struct{}{}, vocab: map[Lang][]string{}}
	add := func(root string, pick func(name string) Lang) error {
		return filepath.Walk(filepath.Join(repoDir, root), func(path string, info os.FileInfo, err error) error {
			if err != nil {
				return nil // dangling links in examples
			}
			if info.IsDir() {
				if info.Name() == ".git" || info.Name() == "node_modules" {
					return filepath.SkipDir
				}
				return nil
			}
			l := pick(info.Name())
			if l == "" || info.Size() > 4<<20 {
				return nil
			}
			data, err := os.ReadFile(path)
			if err != nil {
				return nil
			}
			rel, _ := filepath.Rel(repoDir, path)
			c.Add(Seed{Path: filepath.ToSlash(rel), Lang: l, Text: string(data)})
			return nil
		})
	}
	if err := add("waroot", func(n string) Lang {
		switch {
		case strings.HasSuffix(n, ".wa"):
			return Wa
		case strings.HasSuffix(n, ".wz"):
			return Wz
		}
		return ""
	}); err != nil {
		return nil, err
	}
	for _, root := range []string{"waroot", "internal"} {
		add(root, func(n string) Lang {
			switch {
			case strings.HasSuffix(n, ".wat"):
				return Wat
			case strings.HasSuffix(n, ".s"):
				return Asm
			}
			return ""
		})
	}
	c.buildVocab()
	return c, nil
}

// Add appends a seed (for example compiler-emitted WAT) and registers its hash
// for Contains.  Call before Generate; vocabularies are not recomputed.
func (c *Corpus) Add(s Seed) {
	h := hashText(s.Text)
	if _, dup := c.hashes[h]; dup {
		return
	}
	c.hashes[h] = struct{}{}
	l := c.seeds[s.Lang]
	i := sort.Search(len(l), func(i int) bool {
		if len(l[i].Text) != len(s.Text) {
			return len(l[i].Text) > len(s.Text)
		}
		return l[i].Path > s.Path
	})
	l = append(l, Seed{})
	copy(l[i+1:], l[i:])
	l[i] = s
	c.seeds[s.Lang] = l
}

// Seeds returns the seeds of one language, smallest first.
func (c *Corpus) Seeds(l Lang) []Seed { return c.seeds[l] }

// All returns every seed, language by language.
func (c *Corpus) All() []Seed {
	var out []Seed
	for _, l := range Langs {
		out = append(out, c.seeds[l]...)
	}
	return out
}

// Contains reports whether text is byte-identical to a corpus file (a file of
// the repository or a seed registered with Add).
func (c *Corpus) Contains(text string) bool {
	_, ok := c.hashes[hashText(text)]
	return ok
}

// IsHostile reports whether text is byte-identical to a hostile constant.
func IsHostile(text string) bool {
	_, ok := hostileHashes()[hashText(text)]
	return ok
}

// Vocab returns replacement tokens for a language: keywords, operators and
// instruction names of the repository's scanner for it, plus the most frequent
// identifiers and literals of the corpus.
func (c *Corpus) Vocab(l Lang) []string { return c.vocab[l] }

func (c *Corpus) buildVocab() {
	for _, l := range Langs {
		seen := map[string]bool{}
		var v []string
		for _, w := range scannerVocab(l) {
			if !seen[w] {
				seen[w] = true
				v = append(v, w)
			}
		}
		freq := map[string]int{}
		for _, s := range c.seeds[l] {
			for _, t := range Tokenize(l, s.Text) {
				if t.Kind == Ident || t.Kind == Number || (t.Kind == String && len(t.Text) <= 24) {
					freq[t.Text]++
				}
			}
		}
		type kv struct {
			k string
			n int
		}
		var fs []kv
		for k, n := range freq {
			fs = append(fs, kv{k, n})
		}
		sort.Slice(fs, func(i, j int) bool {
			if fs[i].n != fs[j].n {
				return fs[i].n > fs[j].n
			}
			return fs[i].k < fs[j].k
		})
		for i := 0; i < len(fs) && i < 400; i++ {
			if !seen[fs[i].k] {
				seen[fs[i].k] = true
				v = append(v, fs[i].k)
			}
		}
		c.vocab[l] = v
	}
}

// ---------------------------------------------------------------- tokenizer

// Kind classifies a token of the forgiving tokenizer.
type Kind uint8

const (
	Space Kind = iota
	Comment
	Ident
	Number
	String // string, raw string or character literal, terminated or not
	Open   // ( [ {
	Close  // ) ] }
	Punct
)

// Token is a piece of the input; concatenating all tokens gives the input back.
type Token struct {
	Kind Kind
	Text string
}

// Join concatenates tokens.
func Join(toks []Token) string {
	var b strings.Builder
	for _, t := range toks {
		b.WriteString(t.Text)
	}
	return b.String()
}

func isIdentStart(l Lang, r rune) bool {
	if r == '_' || unicode.IsLetter(r) {
		return true
	}
	switch l {
	case Wat:
		return r == '$'
	case Asm:
		return r == '.' || r == '$' || r == '%' || r == '@'
	}
	return false
}

func isIdentPart(l Lang, r rune) bool {
	if r == '_' || unicode.IsLetter(r) || unicode.IsDigit(r) {
		return true
	}
	switch l {
	case Wat:
		return r > ' ' && r != '(' && r != ')' && r != '"' && r != ';' && r < utf8.RuneSelf
	case Asm:
		return r == '.' || r == '$'
	}
	return false
}

// Tokenize splits text losslessly.  It never fails: malformed or unterminated
// constructs become tokens that extend to the end of the line or of the text.
func Tokenize(l Lang, text string) []Token {
	var out []Token
	emit := func(k Kind, s string) {
		if s != "" {
			out = append(out, Token{k, s})
		}
	}
	i, n := 0, len(text)
	lineEnd := func(from int) int {
		if j := strings.IndexByte(text[from:], '\n'); j >= 0 {
			return from + j
		}
		return n
	}
	for i < n {
		c := text[i]
		r, w := rune(c), 1
		if c >= utf8.RuneSelf {
			r, w = utf8.DecodeRuneInString(text[i:])
		}
		switch {
		case c == ' ' || c == '\t' || c == '\n' || c == '\r':
			j := i + 1
			for j < n && (text[j] == ' ' || text[j] == '\t' || text[j] == '\n' || text[j] == '\r') {
				j++
			}
			emit(Space, text[i:j])
			i = j
		case l != Wat && c == '/' && i+1 < n && text[i+1] == '/',
			l != Wat && c == '#',
			l == Wat && c == ';' && i+1 < n && text[i+1] == ';':
			j := lineEnd(i)
			emit(Comment, text[i:j])
			i = j
		case l != Wat && c == '/' && i+1 < n && text[i+1] == '*':
			j := strings.Index(text[i+2:], "*/")
			if j < 0 {
				j = n
			} else {
				j += i + 4
			}
			emit(Comment, text[i:j])
			i = j
		case l == Wat && c == '(' && i+1 < n && text[i+1] == ';':
			j := strings.Index(text[i+2:], ";)")
			if j < 0 {
				j = n
			} else {
				j += i + 4
			}
			emit(Comment, text[i:j])
			i = j
		case c == '"' || (c == '\'' && l != Wat):
			j := i + 1
			for j < n && text[j] != c && text[j] != '\n' {
				if text[j] == '\\' && j+1 < n {
					j++
				}
				j++
			}
			if j < n && text[j] == c {
				j++
			}
			emit(String, text[i:j])
			i = j
		case c == '`' && (l == Wa || l == Wz):
			j := strings.IndexByte(text[i+1:], '`')
			if j < 0 {
				j = n
			} else {
				j += i + 2
			}
			emit(String, text[i:j])
			i = j
		case c >= '0' && c <= '9', (c == '-' || c == '+') && l == Wat && i+1 < n && text[i+1] >= '0' && text[i+1] <= '9':
			j := i + 1
			for j < n {
				d := text[j]
				if d >= '0' && d <= '9' || d >= 'a' && d <= 'z' || d >= 'A' && d <= 'Z' || d == '_' || d == '.' {
					j++
				} else if (d == '+' || d == '-') && (text[j-1] == 'e' || text[j-1] == 'E' || text[j-1] == 'p' || text[j-1] == 'P') {
					j++
				} else {
					break
				}
			}
			emit(Number, text[i:j])
			i = j
		case isIdentStart(l, r):
			j := i + w
			for j < n {
				r2, w2 := utf8.DecodeRuneInString(text[j:])
				if !isIdentPart(l, r2) {
					break
				}
				j += w2
			}
			emit(Ident, text[i:j])
			i = j
		case c == '(' || c == '[' || c == '{':
			emit(Open, text[i:i+1])
			i++
		case c == ')' || c == ']' || c == '}':
			emit(Close, text[i:i+1])
			i++
		default:
			// operators: greedy over a small set of multi-byte operators
			j := i + w
			if l == Wa || l == Wz {
				for _, op := range multiOps {
					if strings.HasPrefix(text[i:], op) {
						j = i + len(op)
						break
					}
				}
			}
			emit(Punct, text[i:j])
			i = j
		}
	}
	return out
}

var multiOps = []string{"<<=", ">>=", "&^=", "<=>", "...", "&&", "||", "++", "--", "==", "!=", "<=", ">=", ":=", "=>", "+=", "-=", "*=", "/=", "%=", "&=", "|=", "^=", "<<", ">>", "&^"}

// significant returns the indexes of tokens that are not space or comment.
func significant(toks []Token) []int {
	var idx []int
	for i, t := range toks {
		if t.Kind != Space && t.Kind != Comment {
			idx = append(idx, i)
		}
	}
	return idx
}

var closerOf = map[string]string{"(": ")", "[": "]", "{": "}"}

// groups returns [open,close] token index pairs of balanced bracket groups.
func groups(toks []Token) [][2]int {
	var out [][2]int
	var stack []int
	for i, t := range toks {
		switch t.Kind {
		case Open:
			stack = append(stack, i)
		case Close:
			for len(stack) > 0 {
				o := stack[len(stack)-1]
				stack = stack[:len(stack)-1]
				if closerOf[toks[o].Text] == t.Text {
					out = append(out, [2]int{o, i})
					break
				}
			}
		}
	}
	return out
}

// NestDepth returns the deepest bracket/block nesting of text as the forgiving
// tokenizer sees it: ( [ { open a level, ) ] } close one; in Wz also 区块 and a
// colon at the end of a line open a block and 完毕 closes it.  Checks use it to
// bound inputs for consumers whose output legitimately grows with depth × lines
// (pretty printers).
func NestDepth(l Lang, text string) int {
	toks := Tokenize(l, text)
	depth, max := 0, 0
	for i, t := range toks {
		switch {
		case t.Kind == Open,
			l == Wz && t.Kind == Ident && t.Text == "区块",
			l == Wz && t.Kind == Punct && (t.Text == ":" || t.Text == "：") && (i+1 == len(toks) || toks[i+1].Kind == Space && strings.Contains(toks[i+1].Text, "\n")):
			depth++
			if depth > max {
				max = depth
			}
		case t.Kind == Close, l == Wz && t.Kind == Ident && t.Text == "完毕":
			if depth > 0 {
				depth--
			}
		}
	}
	return max
}

// chunks splits text into top-level pieces: a piece starts at a line that
// begins in column 0 with a non-space character while no bracket is open.
func chunks(l Lang, text string) []string {
	toks := Tokenize(l, text)
	var out []string
	var cur strings.Builder
	depth := 0
	atLineStart := true
	for _, t := range toks {
		if atLineStart && depth == 0 && t.Kind != Space && cur.Len() > 0 && t.Kind != Close {
			out = append(out, cur.String())
			cur.Reset()
		}
		cur.WriteString(t.Text)
		switch t.Kind {
		case Open:
			depth++
		case Close:
			if depth > 0 {
				depth--
			}
		}
		atLineStart = t.Kind == Space && strings.HasSuffix(t.Text, "\n")
	}
	if cur.Len() > 0 {
		out = append(out, cur.String())
	}
	return out
}

// ---------------------------------------------------------------- mutators

// Mut names a mutator; the prefix is its level ("byte", "tok", "gram", "hostile").
type Mut string

const (
	ByteFlip     Mut = "byte:flip"
	ByteInsert   Mut = "byte:insert"
	ByteDelete   Mut = "byte:delete"
	ByteDup      Mut = "byte:dup-chunk"
	ByteTruncate Mut = "byte:truncate"
	ByteHostile  Mut = "byte:hostile-insert"

	TokDelete    Mut = "tok:delete"
	TokDup       Mut = "tok:dup"
	TokSwap      Mut = "tok:swap"
	TokReplace   Mut = "tok:replace"
	TokInsert    Mut = "tok:insert"
	TokUnbalance Mut = "tok:unbalance"
	TokNest      Mut = "tok:nest"
	TokHugeLit   Mut = "tok:hugelit"
	TokTruncate  Mut = "tok:truncate"
	TokUnclose   Mut = "tok:unterminate"

	GramGroup Mut = "gram:splice-group"
	GramDecl  Mut = "gram:splice-decl"
	GramCross Mut = "gram:splice-cross-lang"

	HostileConst Mut = "hostile:const"
	HostileWrap  Mut = "hostile:in-context"
)

// ByteMuts, TokMuts and GramMuts list the mutators of each level.
var (
	ByteMuts = []Mut{ByteFlip, ByteInsert, ByteDelete, ByteDup, ByteTruncate, ByteHostile}
	TokMuts  = []Mut{TokDelete, TokDup, TokSwap, TokReplace, TokInsert, TokUnbalance, TokNest, TokHugeLit, TokTruncate, TokUnclose}
	GramMuts = []Mut{GramGroup, GramDecl, GramCross}
)

var hostileBytes = []string{"\x00", "\xef\xbb\xbf", "\xed\xa0\x80", "\xed\xbf\xbf", "\xff", "\xfe\xff", "\xc0\x80", "\xf4\x90\x80\x80", "\r", "\r\n", "\u2028", "\u00a0", "\x1a", "\x7f", "\\", "\"", "'", "`", "/*", "(;", "\\u{110000}", "\\x", "\\777", "·", "：", "，", "\t\t\t\t", "\n\n\n"}

func clamp(s string) string {
	if len(s) > MaxLen {
		return s[:MaxLen]
	}
	return s
}

func pow(r Rand, sizes []int) int { return sizes[r.Intn(len(sizes))] }

// Mutate applies one mutator to text.  The result is at most MaxLen bytes.
// A mutator that cannot apply (for example no bracket to unbalance) returns
// the text unchanged.
func (c *Corpus) Mutate(r Rand, l Lang, text string, m Mut) string {
	return c.MutateOpt(r, l, text, m, Options{})
}

// MutateOpt is Mutate with options (only MaxNest matters for a single step).
func (c *Corpus) MutateOpt(r Rand, l Lang, text string, m Mut, o Options) string {
	switch m {
	case ByteFlip, ByteInsert, ByteDelete, ByteDup, ByteTruncate, ByteHostile:
		return clamp(mutateBytes(r, text, m))
	case GramGroup, GramDecl, GramCross:
		return clamp(c.splice(r, l, text, m))
	case HostileConst:
		h := Hostile()
		return clamp(h[r.Intn(len(h))].Text)
	case HostileWrap:
		return clamp(hostileInContext(r, l, o.MaxNest))
	}
	toks := Tokenize(l, text)
	sig := significant(toks)
	if len(sig) == 0 {
		return text
	}
	pick := func() int { return sig[r.Intn(len(sig))] }
	switch m {
	case TokDelete:
		i := pick()
		n := 1 + r.Intn(3)
		j := i + n
		if j > len(toks) {
			j = len(toks)
		}
		toks = append(toks[:i:i], toks[j:]...)
	case TokDup:
		i := pick()
		n := pow(r, []int{1, 2, 3, 50, 2000})
		rep := make([]Token, 0, n)
		for k := 0; k < n && len(rep)*len(toks[i].Text) < MaxLen; k++ {
			rep = append(rep, toks[i])
			if toks[i].Kind == Ident || toks[i].Kind == Number {
				rep = append(rep, Token{Space, " "})
			}
		}
		toks = append(toks[:i:i], append(rep, toks[i:]...)...)
	case TokSwap:
		i, j := pick(), pick()
		toks[i], toks[j] = toks[j], toks[i]
	case TokReplace:
		i := pick()
		toks[i] = Token{Ident, c.word(r, l)}
	case TokInsert:
		i := pick()
		ins := []Token{{Ident, c.word(r, l)}, {Space, " "}}
		toks = append(toks[:i:i], append(ins, toks[i:]...)...)
	case TokUnbalance:
		var br []int
		for _, i := range sig {
			if toks[i].Kind == Open || toks[i].Kind == Close {
				br = append(br, i)
			}
		}
		switch {
		case len(br) > 0 && r.Intn(2) == 0:
			i := br[r.Intn(len(br))]
			toks = append(toks[:i:i], toks[i+1:]...)
		default:
			i := pick()
			b := []string{"(", ")", "{", "}", "[", "]"}[r.Intn(6)]
			if l == Wz && r.Intn(2) == 0 {
				b = []string{"区块", "完毕", ":", "："}[r.Intn(4)] + " "
			}
			toks = append(toks[:i:i], append([]Token{{Punct, b}}, toks[i:]...)...)
		}
	case TokNest:
		i := pick()
		depth := pow(r, []int{4, 32, 300, 3000, 8000})
		open, close := nestPair(r, l)
		if o.MaxNest > 0 && depth > o.MaxNest {
			depth = o.MaxNest
		}
		if len(open)*depth > MaxLen {
			depth = MaxLen / len(open)
		}
		closeIt := r.Intn(4) != 0
		var b strings.Builder
		b.WriteString(strings.Repeat(open, depth))
		b.WriteString(toks[i].Text)
		if closeIt {
			b.WriteString(strings.Repeat(close, depth))
		}
		toks[i] = Token{Punct, b.String()}
	case TokHugeLit:
		var lits []int
		for _, i := range sig {
			if toks[i].Kind == Number || toks[i].Kind == String {
				lits = append(lits, i)
			}
		}
		i := pick()
		if len(lits) > 0 {
			i = lits[r.Intn(len(lits))]
		}
		toks[i] = Token{Number, hugeLiteral(r)}
	case TokTruncate:
		i := pick()
		toks = toks[:i]
	case TokUnclose:
		// cut the terminator of a string/comment, or open a new one
		var lits []int
		for i, t := range toks {
			if (t.Kind == String || t.Kind == Comment) && len(t.Text) >= 2 {
				lits = append(lits, i)
			}
		}
		if len(lits) > 0 && r.Intn(3) != 0 {
			i := lits[r.Intn(len(lits))]
			t := toks[i].Text
			toks[i].Text = t[:len(t)-1]
			if strings.HasSuffix(t, "*/") || strings.HasSuffix(t, ";)") {
				toks[i].Text = t[:len(t)-2]
			}
		} else {
			i := pick()
			o := []string{"\"", "'", "`", "/*", "(;", "\"\\", "'\\", "'\\u", "\"\\x"}[r.Intn(9)]
			toks = append(toks[:i:i], append([]Token{{Punct, o}}, toks[i:]...)...)
		}
	}
	return clamp(Join(toks))
}

func (c *Corpus) word(r Rand, l Lang) string {
	// mostly the language's own vocabulary, sometimes another language's
	if r.Intn(8) == 0 {
		l = Langs[r.Intn(len(Langs))]
	}
	v := c.vocab[l]
	if len(v) == 0 {
		return "x"
	}
	return v[r.Intn(len(v))]
}

func nestPair(r Rand, l Lang) (open, close string) {
	type p struct{ o, c string }
	var ps []p
	switch l {
	case Wa:
		ps = []p{{"(", ")"}, {"{", "}"}, {"[", "]"}, {"-", ""}, {"!", ""}, {"*", ""}, {"&", ""}, {"[]", ""}, {"func(){", "}"},
			{"if x {", "}"}, {"for {", "}"}, {"x(", ")"}, {"x[", "]"}, {"struct{x ", "}"}, {"map[int]", ""}, {"x.", ""}, {"switch {case x:", "}"},
			{"T{", "}"}, {"else if x {} ", ""}, {"1+", ""}, {"interface{f()", "}"}, {"func(x ", ")"}}
	case Wz:
		ps = []p{{"(", ")"}, {"{", "}"}, {"[", "]"}, {"-", ""}, {"!", ""}, {"*", ""}, {"&", ""}, {"[]", ""}, {"区块\n", "完毕\n"},
			{"如果 x:\n", "完毕\n"}, {"循环:\n", "完毕\n"}, {"x(", ")"}, {"函数(){", "}"}, {"函数():\n", "完毕\n"}, {"找辙:\n有辙 x:\n", "完毕\n"},
			{"结构:\nx: ", "\n完毕"}, {"字典[整型]", ""}, {"x·", ""}, {"1+", ""}, {"或者 x:\n", ""}}
	case Wat:
		ps = []p{{"(", ")"}, {"(block ", ")"}, {"(loop ", ")"}, {"(if (then ", "))"}, {"(i32.add (i32.const 1) ", ")"}, {"(module ", ")"},
			{"(func ", ")"}, {"block ", " end"}, {"(result ", ")"}, {"(param ", ")"}, {"(;", ";)"}, {"(drop ", ")"}, {"(call $f ", ")"}, {"if ", " end"}}
	default:
		ps = []p{{"(", ")"}, {"[", "]"}, {"{", "}"}, {"-", ""}, {"+", ""}, {"%", ""}, {"1+", ""}, {"x:\n", ""}, {".section .text\n", ""}, {"%hi(", ")"}, {"%pcrel_lo(", ")"}}
	}
	q := ps[r.Intn(len(ps))]
	return q.o, q.c
}

func hugeLiteral(r Rand) string {
	n := pow(r, []int{40, 400, 5000, 40000})
	switch r.Intn(14) {
	case 0:
		return "0x" + strings.Repeat("f", n)
	case 1:
		return strings.Repeat("9", n)
	case 2:
		return "1e" + strings.Repeat("9", 1+n%12)
	case 3:
		return "1e-" + strings.Repeat("9", 1+n%12)
	case 4:
		return "0." + strings.Repeat("0", n) + "1"
	case 5:
		return "0x1p" + strings.Repeat("9", 1+n%12)
	case 6:
		return "\"" + strings.Repeat("a", n) + "\""
	case 7:
		return "\"" + strings.Repeat("\\u00e9", n/6+1) + "\""
	case 8:
		return "'" + strings.Repeat("a", n%64) + "'"
	case 9:
		return "0b" + strings.Repeat("1", n)
	case 10:
		return "1" + strings.Repeat("_0", n/2)
	case 11:
		return "`" + strings.Repeat("\n", n) + "`"
	case 12:
		return "0x" + strings.Repeat("f", 15+n%4) + "." + strings.Repeat("f", n%40) + "p-" + strings.Repeat("9", 1+n%6)
	default:
		return strings.Repeat("9", n%400+1) + "." + strings.Repeat("9", n) + "i"
	}
}

func mutateBytes(r Rand, text string, m Mut) string {
	b := []byte(text)
	if len(b) == 0 {
		return hostileBytes[r.Intn(len(hostileBytes))]
	}
	pos := r.Intn(len(b))
	switch m {
	case ByteFlip:
		b[pos] ^= 1 << uint(r.Intn(8))
	case ByteInsert:
		v := byte(r.Intn(256))
		b = append(b[:pos:pos], append([]byte{v}, b[pos:]...)...)
	case ByteDelete:
		n := 1 + r.Intn(8)
		if pos+n > len(b) {
			n = len(b) - pos
		}
		b = append(b[:pos:pos], b[pos+n:]...)
	case ByteDup:
		n := pow(r, []int{1, 4, 32, 256})
		if pos+n > len(b) {
			n = len(b) - pos
		}
		times := pow(r, []int{1, 2, 16, 200})
		chunk := bytes.Repeat(b[pos:pos+n], times)
		if len(chunk) > MaxLen {
			chunk = chunk[:MaxLen]
		}
		b = append(b[:pos:pos], append(chunk, b[pos:]...)...)
	case ByteTruncate:
		b = b[:pos]
	case ByteHostile:
		h := hostileBytes[r.Intn(len(hostileBytes))]
		b = append(b[:pos:pos], append([]byte(h), b[pos:]...)...)
	}
	return string(b)
}

func (c *Corpus) splice(r Rand, l Lang, text string, m Mut) string {
	dl := l
	if m == GramCross {
		dl = Langs[r.Intn(len(Langs))]
	}
	ds := c.seeds[dl]
	if len(ds) == 0 {
		return text
	}
	donor := ds[r.Intn(len(ds))].Text
	if len(donor) > 2*MaxLen {
		donor = donor[:2*MaxLen]
	}
	switch m {
	case GramGroup, GramCross:
		tt, dt := Tokenize(l, text), Tokenize(dl, donor)
		tg, dg := groups(tt), groups(dt)
		if len(dg) == 0 {
			return text
		}
		d := dg[r.Intn(len(dg))]
		frag := dt[d[0] : d[1]+1]
		if len(tg) == 0 {
			i := r.Intn(len(tt) + 1)
			return Join(tt[:i]) + Join(frag) + Join(tt[i:])
		}
		g := tg[r.Intn(len(tg))]
		return Join(tt[:g[0]]) + Join(frag) + Join(tt[g[1]+1:])
	default:
		tc, dc := chunks(l, text), chunks(dl, donor)
		if len(dc) == 0 {
			return text
		}
		frag := dc[r.Intn(len(dc))]
		i := r.Intn(len(tc) + 1)
		replace := r.Intn(2) == 0 && i < len(tc)
		var b strings.Builder
		for k, ch := range tc {
			if k == i {
				b.WriteString(frag)
				if replace {
					continue
				}
			}
			b.WriteString(ch)
		}
		if i == len(tc) {
			b.WriteString(frag)
		}
		return b.String()
	}
}

// Options tune Generate.
type Options struct {
	// BytePercent is the probability (in %) that a mutation step is
	// byte-level instead of token/grammar-level.  0 means 10.
	BytePercent int
	// MaxSteps is the largest number of stacked mutations (0 means 3).
	MaxSteps int
	// MaxSeed bounds the size of the seeds that are picked (0 means MaxLen).
	MaxSeed int
	// MaxNest bounds the depth the nesting mutator adds in one step (0 means 8000).
	MaxNest int
}

// Generated is one input produced by Generate.
type Generated struct {
	Text  string
	Seed  string // Path of the base seed ("hostile/…" for hostile constants)
	Kinds []Mut  // mutators applied, in order
}

// Generate draws a seed of language l (occasionally a hostile constant or a
// seed of another language) and stacks 1..MaxSteps mutations on it.
func (c *Corpus) Generate(r Rand, l Lang, o Options) Generated {
	if o.BytePercent == 0 {
		o.BytePercent = 10
	}
	if o.MaxSteps == 0 {
		o.MaxSteps = 3
	}
	if o.MaxSeed == 0 {
		o.MaxSeed = MaxLen
	}
	var g Generated
	switch base := r.Intn(16); {
	case base == 15:
		h := Hostile()
		s := h[r.Intn(len(h))]
		g.Text, g.Seed = s.Text, s.Path
		g.Kinds = append(g.Kinds, HostileConst)
		if r.Intn(2) == 0 {
			return g
		}
	case base == 14:
		g.Text, g.Seed = hostileInContext(r, l, o.MaxNest), "hostile/in-context"
		g.Kinds = append(g.Kinds, HostileWrap)
		if r.Intn(2) == 0 {
			g.Text = clamp(g.Text)
			return g
		}
	default:
		sl := l
		if base == 13 {
			sl = Langs[r.Intn(len(Langs))]
		}
		seeds := c.seeds[sl]
		n := sort.Search(len(seeds), func(i int) bool { return len(seeds[i].Text) > o.MaxSeed })
		if n == 0 {
			g.Text, g.Seed = "", "empty"
		} else {
			s := seeds[r.Intn(n)]
			g.Text, g.Seed = s.Text, s.Path
		}
	}
	steps := 1 + r.Intn(o.MaxSteps)
	for k := 0; k < steps; k++ {
		var m Mut
		if r.Intn(100) < o.BytePercent {
			m = ByteMuts[r.Intn(len(ByteMuts))]
		} else if n := r.Intn(len(TokMuts) + len(GramMuts)); n < len(TokMuts) {
			m = TokMuts[n]
		} else {
			m = GramMuts[n-len(TokMuts)]
		}
		g.Text = c.MutateOpt(r, l, g.Text, m, o)
		g.Kinds = append(g.Kinds, m)
	}
	g.Text = clamp(g.Text)
	return g
}
