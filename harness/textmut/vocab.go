package textmut

import (
	"strings"

	"wa-lang.org/wa/internal/native/abi"
	"wa-lang.org/wa/internal/native/arm64"
	"wa-lang.org/wa/internal/native/loong64"
	"wa-lang.org/wa/internal/native/riscv"
	navtoken "wa-lang.org/wa/internal/native/token"
	"wa-lang.org/wa/internal/native/x64"
	"wa-lang.org/wa/internal/token"
	wattoken "wa-lang.org/wa/internal/wat/token"
)

// scannerVocab enumerates the spellings the repository's scanner for l knows:
// every keyword, operator and delimiter of the token table (for WAT also all
// instruction mnemonics, for assembly the directives of both dialects and the
// instruction and register names of all four CPUs), read from the token
// packages of the tree under test so that the vocabulary follows the code.
func scannerVocab(l Lang) []string {
	var out []string
	// the repository's name tables are not all range-checked
	safe := func(f func() string) (s string) {
		defer func() { recover() }()
		return f()
	}
	keep := func(s string) {
		if s == "" || strings.Contains(s, "oken(") || strings.Contains(s, "bad") {
			return
		}
		out = append(out, s)
	}
	switch l {
	case Wa, Wz:
		for i := 0; i < 400; i++ {
			t := token.Token(i)
			if t.IsOperator() || (l == Wa && t.IsKeyword()) || (l == Wz && t.IsWzKeyword()) {
				keep(t.String())
			}
		}
		if l == Wa {
			out = append(out, "int", "i32", "u8", "f64", "string", "bool", "nil", "true", "false", "iota", "len", "append", "make", "new",
				"println", "panic", "this", "_", "main", "error", "byte", "rune", "unsafe", "#wa:build", "#wa:linkname", "#wa:generic", "#wa:operator", "#wa:embed", "\"\"", "0", "1", "'a'", "1.5", "0x10", "1i")
		} else {
			out = append(out, token.K_点, token.K_空, token.K_真, token.K_假, token.K_嘀嗒, token.K_字节, token.K_符文, token.K_字串, token.K_皮囊,
				token.K_布尔, token.K_整型, token.K_正整, token.K_单精, "主控", "输出", "注:", token.K_X_wz_build, token.K_X_wz_generic, token.K_X_wz_operator, "：", "（", "）", "\"\"", "0", "1")
		}
	case Wat:
		for i := 0; i < 1000; i++ {
			t := wattoken.Token(i)
			if t.IsKeyword() || t.IsOperator() || t.IsIsntruction() {
				keep(t.String())
			}
		}
		out = append(out, "$f", "$0", "0", "1", "-1", "0x10", "1.5", "nan", "inf", "-inf", "nan:0x1", "offset=0", "align=4", "\"\"", "\"env\"", "funcref", "externref", "anyfunc", "$")
	case Asm:
		for i := 0; i < 1000; i++ {
			t := navtoken.Token(i)
			if t.IsKeyword() || t.IsOperator() {
				keep(t.String())
			}
		}
		out = append(out, ".global", "noprefix", "ptr", "qword", "dword", "byte", "rip", "0", "1", "-1", "0x10", "'a'", "\"\"", "main", "_start", ".text", ".data", ".rodata", ".bss", "%hi", "%lo", "%pcrel_hi", "%pcrel_lo", "@function", "@object")
		for i := 0; i < 2000; i++ {
			keep(safe(func() string { return loong64.AsString(abi.As(i), "") }))
			keep(safe(func() string { return riscv.AsString(abi.As(i), "") }))
			keep(safe(func() string { return x64.AsString(abi.As(i), "") }))
			keep(safe(func() string { return arm64.AsString(abi.As(i), "") }))
		}
		for i := 0; i < 100; i++ {
			keep(safe(func() string { return loong64.RegString(abi.RegType(i)) }))
			keep(safe(func() string { return loong64.RegAliasString(abi.RegType(i)) }))
			keep(safe(func() string { return riscv.RegString(abi.RegType(i)) }))
			keep(safe(func() string { return riscv.RegAliasString(abi.RegType(i)) }))
			keep(safe(func() string { return x64.RegString(abi.RegType(i)) }))
			keep(safe(func() string { return x64.Reg32String(abi.RegType(i)) }))
			keep(safe(func() string { return arm64.RegString(abi.RegType(i)) }))
			keep(safe(func() string { return arm64.RegAliasString(abi.RegType(i)) }))
		}
	}
	return out
}
