package textmut

import (
	"strings"
	"sync"
)

var (
	hostileOnce sync.Once
	hostileList []Seed
	hostileSet  map[uint64]struct{}
)

func hostileHashes() map[uint64]struct{} { Hostile(); return hostileSet }

// Hostile returns the fixed list of hostile constants (Path "hostile/<name>").
// They are language-agnostic: every entry point must survive every one of them.
func Hostile() []Seed {
	hostileOnce.Do(func() {
		add := func(name, text string) {
			if len(text) > MaxLen {
				text = text[:MaxLen]
			}
			hostileList = append(hostileList, Seed{Path: "hostile/" + name, Text: text})
		}
		rep := strings.Repeat
		// --- bytes and encodings
		add("empty", "")
		add("nul", "\x00")
		add("nul-in-code", "func main() {\x00}\n")
		add("bom", "\xef\xbb\xbf")
		add("bom-then-code", "\xef\xbb\xbffunc main() {}\n")
		add("bom-in-middle", "func main() {\xef\xbb\xbf}\n")
		add("utf16le-bom", "\xff\xfef\x00u\x00n\x00c\x00")
		add("lone-high-surrogate", "\xed\xa0\x80")
		add("lone-low-surrogate", "x := \"\xed\xbf\xbf\"\n")
		add("invalid-utf8", "\xff\xfe\xfd")
		add("overlong-nul", "\xc0\x80")
		add("beyond-unicode", "\xf4\x90\x80\x80")
		add("truncated-rune", "func \xe4\xb8")
		add("cr-only", "func main() {\r\tprintln(1)\r}\r")
		add("crlf", "func main() {\r\n\tprintln(1)\r\n}\r\n")
		add("cr-in-raw-string", "const s = `a\rb\r\n`\r\n")
		add("line-separators", "func main() {\u2028\u2029\u0085}")
		add("only-newlines", rep("\n", MaxLen))
		add("only-spaces", rep(" ", MaxLen))
		add("only-semicolons", rep(";", MaxLen))
		add("only-commas", rep(",", MaxLen))
		add("only-dots", rep(".", MaxLen))
		add("only-colons", rep(":", 4000))
		add("only-backslashes", rep("\\", 4000))
		add("all-ascii", func() string {
			var b strings.Builder
			for i := 0; i < 128; i++ {
				b.WriteByte(byte(i))
			}
			return b.String()
		}())
		add("all-bytes", func() string {
			var b strings.Builder
			for i := 255; i >= 0; i-- {
				b.WriteByte(byte(i))
			}
			return b.String()
		}())
		for _, p := range []string{"(", ")", "[", "]", "{", "}", "\"", "'", "`", "#", "$", "%", "@", "\\", "/", "*", "-", "!", "&", "<", "=", ">", ".", ":", "·", "：", "=>", ":=", "<=>"} {
			add("single-"+p, p)
		}
		// --- brackets and nesting
		add("64k-lparen", rep("(", MaxLen))
		add("64k-lbrace", rep("{", MaxLen))
		add("64k-lbrack", rep("[", MaxLen))
		add("64k-rparen", rep(")", MaxLen))
		add("64k-rbrace", rep("}", MaxLen))
		add("balanced-parens-10k", rep("(", 10000)+rep(")", 10000))
		add("func-body-parens-8k", "func main() { x := "+rep("(", 8000)+"1"+rep(")", 8000)+" }\n")
		add("func-body-braces-8k", "func main() "+rep("{", 8000)+rep("}", 8000)+"\n")
		add("func-body-index-5k", "func main() { x := a"+rep("[a", 5000)+rep("]", 5000)+" }\n")
		add("unary-minus-20k", "const x = "+rep("-", 20000)+"1\n")
		add("unary-not-20k", "const x = "+rep("!", 20000)+"true\n")
		add("deref-20k", "func main() { "+rep("*", 20000)+"p = 1 }\n")
		add("slice-type-15k", "global x: "+rep("[]", 15000)+"int\n")
		add("ptr-type-20k", "global x: "+rep("*", 20000)+"int\n")
		add("map-type-5k", "global x: "+rep("map[int]", 5000)+"int\n")
		add("struct-type-3k", "type T "+rep("struct{x ", 3000)+"int"+rep("}", 3000)+"\n")
		add("func-type-5k", "type T "+rep("func(x ", 5000)+"int"+rep(")", 5000)+"\n")
		add("func-lit-5k", "func main() { "+rep("func(){", 5000)+rep("}", 5000)+" }\n")
		add("if-nest-5k", "func main() { "+rep("if x {", 5000)+rep("}", 5000)+" }\n")
		add("else-if-chain-5k", "func main() { if x {} "+rep("else if x {} ", 5000)+"}\n")
		add("binary-chain-8k", "const x = 1"+rep("+1", 8000)+"\n")
		add("selector-chain-8k", "func main() { x"+rep(".x", 8000)+" }\n")
		add("call-chain-8k", "func main() { f"+rep("()", 8000)+" }\n")
		add("composite-nest-5k", "global x = "+rep("T{", 5000)+rep("}", 5000)+"\n")
		add("wz-block-nest-5k", "函数 主控:\n"+rep("区块\n", 5000)+rep("完毕\n", 5000)+"完毕\n")
		add("wz-if-nest-3k", "函数 主控:\n"+rep("如果 真:\n", 3000)+rep("完毕\n", 3000)+"完毕\n")
		add("wz-unclosed-blocks", "函数 主控:\n"+rep("循环:\n", 3000))
		add("wz-only-wanbi", rep("完毕\n", 5000))
		add("wat-block-nest-10k", "(module (func "+rep("(block ", 10000)+rep(")", 10000)+"))")
		add("wat-folded-nest-5k", "(module (func (drop "+rep("(i32.add (i32.const 1) ", 5000)+"(i32.const 0)"+rep(")", 5000)+")))")
		add("wat-module-nest", rep("(module ", 8000))
		add("wat-flat-blocks-5k", "(module (func "+rep("block ", 5000)+rep("end ", 5000)+"))")
		add("wat-if-nest", "(module (func "+rep("(if (i32.const 1) (then ", 3000)+rep("))", 3000)+"))")
		add("wat-block-comment-nest", rep("(;", 20000)+rep(";)", 20000))
		// --- literals
		add("hex-5000", "0x"+rep("f", 5000))
		add("hex-5000-in-const", "const x = 0x"+rep("A", 5000)+"\n")
		add("dec-60000", "const x = "+rep("9", 60000)+"\n")
		add("huge-exponent", "const x = 1e999999999\n")
		add("huge-neg-exponent", "const x = 1e-999999999\n")
		add("huge-exponent-arith", "const x = 1e999999 * 1e999999 / 1e-999999\n")
		add("huge-shift", "const x = 1 << 9999999999\nconst y = 1 << 100000000\n")
		add("huge-hex-float", "const x = 0x1p99999999999\n")
		add("huge-array", "global x: [9999999999999999999999]int\nglobal y: [1<<62]byte\n")
		add("huge-imag", "const x = 9999999999999999999999999999999999i\n")
		add("float-many-zeros", "const x = 0."+rep("0", 60000)+"1\n")
		add("underscores", "const x = 1"+rep("_", 5000)+"0\n")
		add("bad-radix", "const a, b, c, d = 0b102, 0o8, 0x, 0xg\nconst e = 08.\nconst f = 1e\nconst g = 0x1p\n")
		add("string-60k", "const s = \""+rep("a", 60000)+"\"\n")
		add("string-escapes", "const s = \""+rep("\\u00e9\\x00\\377\\n", 3000)+"\"\n")
		add("bad-escapes", "const s = \"\\q\\u12\\U0011ffff\\ud800\\x\\8\\\"\nconst c = '\\'\nconst d = ''\nconst e = 'ab'\n")
		add("long-ident-64k", rep("a", MaxLen))
		add("long-cjk-ident", rep("凹", 20000))
		add("func-repeated", rep("func ", 12000))
		add("import-repeated", rep("import \"a\"\n", 5000))
		add("many-errors", rep("func f( {\n", 6000))
		// --- unterminated things
		add("unterminated-string", "const s = \"abc")
		add("unterminated-string-escape", "const s = \"abc\\")
		add("unterminated-raw-string", "const s = `abc\n\n")
		add("unterminated-char", "const c = '")
		add("unterminated-char-escape", "const c = '\\")
		add("unterminated-char-u", "const c = '\\u00")
		add("unterminated-block-comment", "/* abc\nfunc main() {}\n")
		add("unterminated-wat-comment", "(module (; abc")
		add("unterminated-line-comment", "// abc")
		add("unterminated-hash-comment", "#wa:build ")
		add("slash-at-eof", "func main() {} /")
		add("dot-at-eof", "func main() { x.")
		add("quote-only-lines", rep("\"\n", 5000))
		add("half-typed-func", "import \"fmt\"\n\nfunc main() {\n\tfmt.Println(\"a\", \n")
		add("half-typed-struct", "type T struct {\n\tx: int\n\ty: ")
		add("half-typed-wz", "引入 \"书\"\n\n函数 主控:\n\t书·说(\"你好\"")
		// --- directives and comments the loader interprets
		add("build-tag-junk", "#wa:build (((!a && || b\n\nfunc main() {}\n")
		add("build-tag-deep", "#wa:build "+rep("!(", 5000)+"a"+rep(")", 5000)+"\n\nfunc main() {}\n")
		add("wz-build-tag-junk", "#凹:构建 (((!a && || b\n\n函数 主控:\n完毕\n")
		add("directives", "#wa:linkname\n#wa:export\n#wa:import a\n#wa:generic\n#wa:operator + \n#wa:embed\n#wa:align x\nfunc f()\n")
		add("line-directive", "//line :0\n//line x.wa:99999999999999999999\n/*line a:1:-1*/ func main() {}\n")
		add("package-only", "package")
		add("package-main-only", "package main")
		add("import-only", "import")
		add("import-unterminated", "import \"")
		add("import-cycle-self", "import \"main\"\nimport \"\"\nimport \".\"\nimport \"../..\"\nfunc main() {}\n")
		add("import-unknown", "import \"no/such/pkg\"\nimport \"\\x00\"\nfunc main() {}\n")
		// --- type-checker stress (parses, then must not crash)
		add("typecheck-cycles", "type T T\ntype A struct{ a: A }\ntype B [len(b)]int\nglobal b: B\nconst c = c\nfunc f() => f\nfunc main() { f()()() }\n")
		add("typecheck-bad-asts", "func main() {\n\tx := \n\ty := [...]int{1:}\n\tz := map[]int{}\n\tfor range {\n\t}\n\tswitch x := .(type) {}\n\tdefer\n\treturn ,\n}\n")
		add("typecheck-methods", "type T struct{}\nfunc T.m() {}\nfunc T.m() {}\nfunc (t: T) n()\nfunc U.m() {}\nfunc main() { T{}.m(); T.m(nil); this.x }\n")
		add("typecheck-generic", "#wa:generic add_f64\nfunc add(a, b: int) => int { return a+b }\nfunc add_f64(a, b: f64) => f64\n#wa:operator + add\ntype V struct{}\nfunc main() { println(add(1.0, 2)) }\n")
		add("typecheck-consts", "const (\n\ta = iota / 0\n\tb = 1 % 0\n\tc = \"a\"[5]\n\td = -\"s\"\n\te = ^1.5\n\tf = 1 << -1\n\tg = 1.0 << 1e10\n)\nfunc main() {}\n")
		add("typecheck-labels", "func main() {\nL: L: goto L; break M; continue L\nfor { break L }\n}\n")
		// one construct per program: the loader stops at the first type error
		for i, prog := range []string{
			"type T struct { *T; x: int }\nfunc main() { t: T; t.foo() }\n",
			"type A struct { *B }\ntype B struct { *A }\nfunc main() { a: A; println(a.zz) }\n",
			"type T struct { *T; x: int }\nfunc main() { t: T; println(t.x, t.T.T.T.x) }\n",
			"type C struct { C }\nfunc main() { c: C; c.C.C.m() }\n",
			"type F func(F) => F\nfunc main() { f: F; f(f)(f) }\n",
			"type L []L\nfunc main() { l: L; _ = l[0][0][0]; println(len(l)) }\n",
			"type M map[string]M\nfunc main() { m: M; _ = m[\"a\"][\"b\"] }\n",
			"type P *P\nfunc main() { p: P; _ = ***p }\n",
			"type Q [2]Q\nfunc main() { println(len(Q{})) }\n",
			"type R struct { r: [len(R{}.r)]int }\nfunc main() { println(R{}) }\n",
			"type K map[K]int\nfunc main() { println(K{}) }\n",
			"type I interface { I }\nfunc main() { i: I; i.f() }\n",
			"type J interface { K }\ntype K interface { J }\nfunc main() { j: J; j.f() }\n",
			"type T interface { m() => interface{ T } }\ntype U interface { m() => interface{ U } }\nfunc main() { t: T; u: U; t = u; u = t; _ = t.(U) }\n",
			"global a = b\nglobal b = c + f()\nglobal c = a\nfunc f() => int { return a }\nfunc main() { println(a, b, c) }\n",
			"const x = y\nconst y = len([x]int{})\nfunc main() { println(x, y) }\n",
			"func f() => int { return g() }\nfunc g() => int { return f() }\nglobal v = f()\nfunc main() { println(v) }\n",
			"type T struct { f: func(T) }\nfunc T.m(t: T) => T { return t.m(t).m(*this) }\nfunc main() { t: T; t.m(t) }\n",
			"type T struct {}\nfunc T.n() => (r: T) { return this.n }\nfunc main() {}\n",
			"type T struct {}\nfunc T.m() {}\ntype E struct { T; *E }\nfunc main() { e: E; e.m(); e.E.E.m(); _ = E.m; _ = (*E).m }\n",
			"type T struct { a: int }\nfunc main() { x := []T{{1}, {a: 2}, 3: {}}; for i, v := range x { println(i, v.a, v.b) } }\n",
			"func main() { x := nil; y := x; println(y) }\n",
			"func main() { a, b := 1; c, d := f(); println(a, b, c, d) }\nfunc f() {}\n",
			"func main() { switch x := any(1).(type) { case int, string: println(x); case nil: println(x); case int: } }\n",
			"func main() { L: for { for { break L; continue L; goto M } }; M: }\n",
			"func main() { defer recover(); defer panic(1); defer func() {}; x := [...]int{9: 1, 1e3: 2}; println(len(x)) }\n",
			"func f(a: ...int, b: int) {}\nfunc g(a: ...int) {}\nfunc main() { g([]int{}...); g(1, []int{}...); f() }\n",
			"func main() { println(1 << 64 >> 64, 1.0 << 3, \"a\"[1:2:3], []int{}[1:2:3:4], -1 >> -1, 5 / 0.0) }\n",
			"import \"strconv\"\nimport s \"strconv\"\nimport . \"strconv\"\nfunc main() { println(strconv.Itoa(1), s.Itoa, Itoa) }\n",
			"type T struct { a, a: int; T: int }\nfunc T.a() {}\nfunc T.T() {}\nfunc main() { println(T{}.a) }\n",
			"func main() { var ( a: int = \"s\"; b = a + nil ); a.b.c = 1; a++ ; a += \"x\"; println(a, b) }\n",
			"func main() { x := func() => (a, b: int) { return }; a, b, c := x(); println(a, b, c, x()) }\n",
			"func main() { m := map[[]int]func(){}; m[nil](); ch := make(chan int); println(m, ch) }\n",
			"func main() { for i := range 10 { println(i) }; for i, j, k := range []int{} {}; for range nil {} }\n",
			"func main() { x := struct{ a: int }{1}; y := struct{ a: int; b: string }{1}; println(x == y, x.a, y) }\n",
			"func main() { p := &[]int{1}[0]; q := &main; r := &1; println(*p, q, r, *nil) }\n",
			"#wa:generic F2\nfunc F(a: int) {}\nfunc F2(a: f64) {}\nfunc main() { F(1); F(1.5); F(\"s\") }\n",
			"#wa:operator + Add\ntype V struct { x: int }\nfunc Add(a, b: V) => V { return V{a.x + b.x} }\nfunc main() { println((V{1} + V{2}).x, V{1} - V{2}, V{1} + 1) }\n",
			"#wa:linkname\nfunc f()\n#wa:linkname f\nfunc g()\n#wa:linkname $a.b \"x\"\nfunc h() => int\nfunc main() { f(); g(); println(h()) }\n",
			"#wa:import a b c\nfunc f(x: string) => string\n#wa:export main\nfunc g() {}\n#wa:export\nfunc main() { println(f(\"\")) }\n",
		} {
			add("typecheck-"+string(rune('a'+i/26))+string(rune('a'+i%26)), prog)
		}
		add("wz-typecheck", "类型 甲 甲\n全局 乙: [长(乙)]整型\n函数 主控:\n\t设定 x = 空\n\tx()\n\t返回 1, 2\n完毕\n")
		// --- wat
		add("wat-empty-module", "(module)")
		add("wat-module-junk", "(module $m $n (func $f (param) (result) (local)) (memory) (table) (global) (export) (import) (data) (elem) (start) (type))")
		add("wat-huge-numbers", "(module (memory 99999999999999999999) (func (i32.const 0x"+rep("f", 5000)+") (f64.const 1e999999999) (i64.const -99999999999999999999)))")
		add("wat-bad-strings", "(module (data (i32.const 0) \"\\\") (data (i32.const 0) \"\\zz\\u{110000}\\u{\") (export \"\\00\" (func 0)))")
		add("wat-unterminated-string", "(module (data (i32.const 0) \"abc")
		add("wat-instr-no-operands", "(module (func i32.const) (func local.get) (func br) (func call) (func br_table) (func i32.load offset=) (func i32.store align=x) (func block $) (func call_indirect (type)))")
		add("wat-immediates", "(module (func (i32.load offset=99999999999999999999 align=0) (i32.load offset=-1 align=3) (br 4294967296) (local.get -1)))")
		add("wat-keywords-only", "module func param result local memory table global export import data elem start type mut block loop if then else end")
		add("wat-ids", "(module (func $ ) (func $$ ) (func $"+rep("a", 50000)+"))")
		add("wat-many-funcs", "(module "+rep("(func)", 10000)+")")
		add("wat-close-only", "(module))))))")
		// --- native assembly
		add("asm-char-unterminated", ".section .data\nx: .byte '\n")
		add("asm-char-empty", ".section .data\nx: .byte ''\n.align '\n")
		add("asm-string-unterminated", ".section .data\nx: .ascii \"abc\n")
		add("asm-huge-imm", ".section .text\n.globl main\nmain:\n\taddi a0, a0, 99999999999999999999\n\tli a0, 0x"+rep("f", 5000)+"\n")
		add("asm-no-operands", ".section .text\nmain:\n\taddi\n\tadd a0,\n\tmov\n\tld.d $a0,\n\tret ret ret\n")
		add("asm-directives-only", ".section\n.globl\n.align\n.byte\n.quad\n.ascii\n.asciz\n.extern\n.type\n.size\n.file\n.intel_syntax\n")
		add("asm-intel-syntax-junk", ".intel_syntax noprefix\n.section .text\n.globl _start\n_start:\n\tmov eax, [rip + + ]\n\tmov [rax*9+rbx*3-], 1\n\tlea rax, qword ptr [\n")
		add("asm-labels-only", rep("a:\n", 10000))
		add("asm-zh", "段 .text\n全局 主控\n主控:\n\t加 a0, a0,\n\t返回\n完毕\n函数 f(\n")
		add("asm-section-text-eof", ".section .text")
		add("asm-align-huge", ".section .data\n.align 99999999999\nx: .skip 99999999999\n.zero -1\n")
		add("asm-operand-parens", ".section .text\nmain:\n\tld a0, "+rep("(", 20000)+"sp"+rep(")", 20000)+"\n\tlw a0, %lo(x"+rep("+x", 10000)+")(a0)\n")
		hostileSet = map[uint64]struct{}{}
		for _, s := range hostileList {
			hostileSet[hashText(s.Text)] = struct{}{}
		}
	})
	return hostileList
}

// hostileInContext embeds a hostile element in otherwise well-formed text of
// language l, so that it reaches the parser (and, for Wa/Wz, the type checker)
// at an interesting position.
func hostileInContext(r Rand, l Lang, maxNest int) string {
	lit := hugeLiteral(r)
	depth := pow(r, []int{8, 100, 1000, 8000})
	if maxNest > 0 && depth > maxNest {
		depth = maxNest
	}
	o, c := nestPair(r, l)
	nest := strings.Repeat(o, depth) + "1" + strings.Repeat(c, depth)
	hb := hostileBytes[r.Intn(len(hostileBytes))]
	x := []string{lit, nest, hb}[r.Intn(3)]
	switch l {
	case Wa:
		ctx := []string{
			"func main() {\n\tx := %s\n\tprintln(x)\n}\n",
			"const x = %s\n\nfunc main() { println(x) }\n",
			"global x: [%s]int\n\nfunc main() {}\n",
			"type T struct {\n\ta: %s\n}\n\nfunc main() {}\n",
			"func f(a: %s) => int { return a }\n\nfunc main() { f(1) }\n",
			"func main() {\n\tswitch x := %s; x {\n\tcase %s:\n\t}\n}\n",
			"import \"%s\"\n\nfunc main() {}\n",
			"// %s\nfunc main() { println(`%s`) }\n",
			"func main() {\n\tfor i := range %s {\n\t\tprintln(i)\n\t}\n}\n",
			"func main() {\n\ta := []int{%s: 1}\n\tprintln(a[%s])\n}\n",
		}
		return strings.ReplaceAll(ctx[r.Intn(len(ctx))], "%s", x)
	case Wz:
		ctx := []string{
			"函数 主控:\n\t设定 x = %s\n\t输出(x)\n完毕\n",
			"常量 x = %s\n\n函数 主控:\n完毕\n",
			"全局 x: [%s]整型\n\n函数 主控:\n完毕\n",
			"类型 T 结构:\n\ta: %s\n完毕\n\n函数 主控:\n完毕\n",
			"引入 \"%s\"\n\n函数 主控:\n完毕\n",
			"函数 主控:\n\t如果 %s:\n\t\t输出(1)\n\t完毕\n完毕\n",
			"注: %s\n函数 主控:\n\t循环 i := 迭代 %s:\n\t完毕\n完毕\n",
		}
		return strings.ReplaceAll(ctx[r.Intn(len(ctx))], "%s", x)
	case Wat:
		ctx := []string{
			"(module (func $f (result i32) (i32.const %s)))",
			"(module (memory %s) (data (i32.const %s) \"x\"))",
			"(module (func $f %s))",
			"(module (global $g (mut i32) (i32.const %s)) (export \"%s\" (global $g)))",
			"(module (func $f (param $p i32) (local.get %s) (br %s) (i32.load offset=%s)))",
			"(module (import \"%s\" \"%s\" (func $f (param i32))) (start %s))",
			"(module (table %s funcref) (elem (i32.const 0) %s))",
		}
		return strings.ReplaceAll(ctx[r.Intn(len(ctx))], "%s", x)
	default:
		ctx := []string{
			".section .text\n.globl main\nmain:\n\taddi a0, a0, %s\n\tret\n",
			".intel_syntax noprefix\n.section .text\n.globl _start\n_start:\n\tmov rax, %s\n\tmov [rax+%s], rbx\n\tsyscall\n",
			".section .data\n.align %s\nx: .quad %s\ny: .ascii \"%s\"\n",
			".section .text\nmain:\n\tld.d $a0, $sp, %s\n\tjirl $zero, $ra, %s\n",
			".section .text\nmain:\n\tlw a0, %s(sp)\n\tbeq a0, a1, %s\n",
		}
		return strings.ReplaceAll(ctx[r.Intn(len(ctx))], "%s", x)
	}
}
