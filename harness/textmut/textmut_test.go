package textmut

import (
	"testing"

	"wa-lang.org/wa/zverif/harness/core"
)

func corpus(t *testing.T) *Corpus {
	c, err := Load(core.RepoDir())
	if err != nil {
		t.Fatal(err)
	}
	return c
}

// The tokenizer is lossless on every seed and every hostile constant.
func TestTokenizeLossless(t *testing.T) {
	c := corpus(t)
	for _, l := range Langs {
		if len(c.Seeds(l)) == 0 {
			t.Errorf("no seeds for %s", l)
		}
		if len(c.Vocab(l)) < 30 {
			t.Errorf("vocabulary of %s too small: %d", l, len(c.Vocab(l)))
		}
		for _, s := range c.Seeds(l) {
			if got := Join(Tokenize(l, s.Text)); got != s.Text {
				t.Fatalf("%s: tokenizer not lossless", s.Path)
			}
		}
		for _, s := range Hostile() {
			if got := Join(Tokenize(l, s.Text)); got != s.Text {
				t.Fatalf("%s/%s: tokenizer not lossless", l, s.Path)
			}
		}
		t.Logf("%s: %d seeds, %d vocabulary entries", l, len(c.Seeds(l)), len(c.Vocab(l)))
	}
}

// Every mutator terminates on every kind of text, respects MaxLen and is a
// pure function of the random stream.
func TestMutatorsDeterministic(t *testing.T) {
	c := corpus(t)
	all := append(append(append([]Mut{}, ByteMuts...), TokMuts...), GramMuts...)
	all = append(all, HostileConst, HostileWrap)
	changed := map[Mut]int{}
	for _, l := range Langs {
		for i := 0; i < 60; i++ {
			for _, m := range all {
				seeds := c.Seeds(l)
				base := seeds[(i*37)%len(seeds)].Text
				if len(base) > MaxLen {
					base = base[:MaxLen]
				}
				a := c.Mutate(NewSplitMix(uint64(i)), l, base, m)
				b := c.Mutate(NewSplitMix(uint64(i)), l, base, m)
				if a != b {
					t.Fatalf("%s %s: not deterministic", l, m)
				}
				if len(a) > MaxLen {
					t.Fatalf("%s %s: result has %d bytes", l, m, len(a))
				}
				if a != base {
					changed[m]++
				}
			}
		}
	}
	for _, m := range all {
		if changed[m] < 120 {
			t.Errorf("mutator %s changed the text in only %d of 240 trials", m, changed[m])
		}
	}
	for i := 0; i < 300; i++ {
		g := c.Generate(NewSplitMix(uint64(i)), Langs[i%4], Options{})
		if len(g.Text) > MaxLen || len(g.Kinds) == 0 && g.Seed == "" {
			t.Fatalf("bad Generate result %+v", g.Kinds)
		}
	}
}
