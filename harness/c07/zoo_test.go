package c07

import (
	"fmt"
	"os"
	"path/filepath"
	"strings"
	"testing"

	"pgregory.net/rapid"
	"wa-lang.org/wa/zverif/harness/core"
)

// The syntax zoo covers surface syntax that harness/wagen never emits
// (package-qualified names, import and declaration groups, parenthesised
// control-clause headers around composite literals, labels, raw strings,
// anonymous struct / interface / func types, multi-line calls …). Files are
// only parsed and formatted (no type check), so they may name packages and
// identifiers that do not exist.

var zooImports = []string{`import "image"`, `import "strings"`, "import (\n\t\"os\"\n\t\"fmt\"\n\t\"math/bits\"\n)", "import (\n\t\"bytes\" => b\n\n\t\"a/z\"\n\t\"a/b\"\n)", "import \"math/bits\" => _\nimport \"strings\" => stringspkg", ""}

var zooDecls = []string{
	"const K = 10",
	"const (\n\tA = iota\n\tB\n\tC = 1 << iota\n)",
	"const Typed: i64 = 1 << 40",
	"global g1: i32 = 7",
	"global (\n\tga: []string\n\tgb, gc: f64 = 1.5, 2\n)",
	"global gm: map[string][]image.Point",
	"type Point :struct {\n\tX, Y: i32\n}",
	"type Deep :struct {\n\tPoint\n\tname: string\n\tnext: *Deep\n\tf: func(a: i32, b: ...string) => (i32, error)\n\tm: map[image.Point][2]bool\n}",
	"type Shape :interface {\n\tArea() => f64\n\tScale(k: f64)\n}",
	"type Both :interface {\n\tShape\n\tString() => string\n}",
	"type Fn :func(x: i32) => i32",
	"type Pair :struct {\n\ta: struct {\n\t\tx: i32\n\t}\n\tb: interface {\n\t\tM()\n\t}\n}",
	"type Celsius :f64",
	"func Point.Norm() => i32 {\n\treturn this.X*this.X + this.Y*this.Y\n}",
	"func variadic(prefix: string, xs: ...i32) => (n: i32, err: error) {\n\tfor _, x := range xs {\n\t\tn += x\n\t}\n\treturn\n}",
}

var zooStmts = []string{
	"if (pt == image.Point{X: 1, Y: 2}) {\n\tprintln(1)\n}",
	"if (pt == Point{X: 1, Y: 2}) {\n\tprintln(1)\n} else if (pt == (image.Point{})) {\n\tprintln(2)\n}",
	"for (pt != image.Point{}) {\n\tpt = image.Point{}\n}",
	"switch (image.Point{1, 2}) {\ncase pt:\n\tprintln(1)\n}",
	"for i, v := range ([]image.Point{{1, 2}, {3, 4}}) {\n\tprintln(i, v.X)\n}",
	"if v, ok := m[image.Point{1, 2}]; ok && (v == strings.Repeat(\"a\", 2)) {\n\tprintln(v)\n}",
	"x := (a + b) * (c - d) / (e % (f | 1))",
	"y := a + b*c - d<<2&mask | e&^f",
	"z := -(-a) + +b - ^c",
	"p := &Deep{Point: Point{1, 2}, name: \"n\", m: map[image.Point][2]bool{{1, 2}: {true, false}}}",
	"q := []struct {\n\ta: i32\n\tb: string\n}{{1, \"x\"}, {2, \"y\"}}",
	"r := [...]string{2: \"b\", 0: \"a\"}",
	"s := a[1:2:3]\nt := a[:len(a)-1]\nu := a[1:]",
	"f := func(a, b: i32) => i32 {\n\treturn a + b\n}(1, 2)",
	"defer func() {\n\tprintln(\"done\")\n}()",
	"v, ok := iface.(*Deep)\n_ = v.(Shape).Area()",
	"switch t := iface.(type) {\ncase nil:\n\tprintln(0)\ncase *Deep, Point:\n\tprintln(1)\ncase interface{ M() }:\n\tt.M()\ndefault:\n\tprintln(t)\n}",
	"outer:\n\tfor i := 0; i < 3; i++ {\n\t\tfor {\n\t\t\tif i == 1 {\n\t\t\t\tcontinue outer\n\t\t\t}\n\t\t\tbreak outer\n\t\t}\n\t}",
	"switch {\ncase a < b:\n\tfallthrough\ncase a == b, a > b+1:\n\tprintln(1)\n}",
	"raw := `line1\n\tline2 \"quoted\" \\n`\nch := 'x'\nesc := '\\''\nuni := \"\\u4e16\\x41\\t\"",
	"total := variadic(\n\t\"p\",\n\t1,\n\t2,\n)",
	"total2 := variadic(\"p\", xs...)",
	"c := 1 + 2i\nh := 0x1p-2\no := 0o17 + 0b101 + 1_000",
	"var (\n\tlv1: i32\n\tlv2 = \"s\"\n)",
	"var single = 3\nvar typed: u8 = 4",
	"const local = K * 2",
	"m[key]++\nm[key] += 2\n*ptr = 3\nptr.next.name = \"n\"",
	"a, b = b, a\ni, j := 0, len(xs)-1",
	"go_ := func() {}\ngo_()",
	"if x := f(); x > 0 {\n\tprintln(x)\n} else {\n\tprintln(-x)\n}",
	"for ; i < 10; i++ {\n}\nfor i < 10 {\n\ti++\n}\nfor {\n\tbreak\n}",
	"for range xs {\n}\nfor i := range 10 {\n\t_ = i\n}\nfor k := range m {\n\tdelete(m, k)\n}",
	"{\n\tshadow := 1\n\t_ = shadow\n}",
	"return",
}

var zooLitPieces = []string{"a", "\t", "\t\t", " ", "   ", "世", "\\t", "\\n", "\\\"", "\\x41", "\\u4e16", "%d", "//", "/*", "*/", "`", "'", "{", ";"}
var zooRuneLits = []string{"'\t'", "' '", "'a'", "'\\t'", "'世'", "'\\''", "'\"'", "'`'", "'\\x00'"}

func genZoo(t *rapid.T) string {
	var b strings.Builder
	b.WriteString(zooImports[rapid.IntRange(0, len(zooImports)-1).Draw(t, "imp")])
	b.WriteString("\n\n")
	nd := rapid.IntRange(0, 5).Draw(t, "ndecl")
	usedD := map[int]bool{}
	for i := 0; i < nd; i++ {
		di := rapid.IntRange(0, len(zooDecls)-1).Draw(t, "decl")
		if usedD[di] {
			continue
		}
		usedD[di] = true
		b.WriteString(zooDecls[di])
		b.WriteString("\n\n")
	}
	nf := rapid.IntRange(1, 3).Draw(t, "nfunc")
	for f := 0; f < nf; f++ {
		fmt.Fprintf(&b, "func zoo%d(a, b: i32, pt: image.Point) {\n", f)
		// literals with drawn content: bytes that mean something to the layout engine (TAB,
		// runs of blanks, comment openers, back quotes) are ordinary content inside them
		for i, nl := 0, rapid.IntRange(0, 2).Draw(t, "nlit"); i < nl; i++ {
			pieces := rapid.SliceOfN(rapid.SampledFrom(zooLitPieces), 0, 7).Draw(t, "litpieces")
			fmt.Fprintf(&b, "\tlit%d_%d := \"%s\" // c\n", f, i, strings.Join(pieces, ""))
			fmt.Fprintf(&b, "\tch%d_%d := %s\n", f, i, rapid.SampledFrom(zooRuneLits).Draw(t, "runelit"))
		}
		ns := rapid.IntRange(1, 6).Draw(t, "nstmt")
		used := map[int]bool{}
		for i := 0; i < ns; i++ {
			si := rapid.IntRange(0, len(zooStmts)-1).Draw(t, "stmt")
			if used[si] {
				continue // the parser reports redeclarations: each template at most once per function
			}
			used[si] = true
			st := zooStmts[si]
			for _, l := range strings.Split(st, "\n") {
				if strings.HasPrefix(st, "raw := `") && !strings.HasPrefix(l, "raw") && !strings.HasPrefix(l, "ch") && !strings.HasPrefix(l, "esc") && !strings.HasPrefix(l, "uni :=") {
					b.WriteString(l + "\n") // inside a raw string: keep the line verbatim
					continue
				}
				b.WriteString("\t" + l + "\n")
			}
		}
		b.WriteString("}\n\n")
	}
	return b.String()
}

// TestZooTemplates: every template must parse on its own (generator health, first shard only).
func TestZooTemplates(t *testing.T) {
	if !core.FirstShard() {
		return
	}
	check := func(kind string, i int, src string) {
		k := kase{Name: "zoo.wa", Src: src}
		if _, _, _, domain := judge(k); domain == "does-not-parse" {
			t.Errorf("zoo %s template %d does not parse:\n%s", kind, i, src)
		}
	}
	for i, d := range zooDecls {
		check("decl", i, "import \"image\"\n\n"+d+"\n")
	}
	for i, st := range zooStmts {
		body := "\t" + strings.ReplaceAll(st, "\n", "\n\t")
		if strings.HasPrefix(st, "raw := `") {
			body = "\t" + st
		}
		check("stmt", i, "import \"image\"\n\nfunc zoo(a, b: i32, pt: image.Point) {\n"+body+"\n}\n")
	}
}

func TestSyntaxZoo(t *testing.T) {
	s := core.NewStats(prop, "SyntaxZoo")
	s.Rule("rapid-assembled .wa files from a zoo of declaration and statement templates that cover surface syntax the program generator never emits (package-qualified composite literals inside parenthesised if/for/switch/range headers, import / const / global / var groups, iota, labels, fallthrough, type switches, raw strings, anonymous struct/interface/func types, variadics, 3-index slices, multi-line calls, number literal spellings); files are parsed and formatted only (no type check); plus string and rune literals with drawn content (literal TAB bytes, runs of blanks, comment openers, back quotes, escapes) followed by a trailing comment; oracle as in Generated without the compile step; non-trivial = the formatter changed the text or the file has ≥ 4 statements; distinct by input hash")
	var judged, out int64
	s.Check(t, func(t *rapid.T, c *core.Case) {
		src := genZoo(t)
		if rapid.Bool().Draw(t, "scramble") && !strings.Contains(src, "raw := `") && !strings.Contains(src, "\tlit") {
			src, _ = scramble(t, src, false)
		}
		k := kase{Name: "zoo.wa", Src: src}
		c.Set(k)
		r, key, what, domain := judge(k)
		if domain != "" {
			s.Counter("rejected_by_domain/"+strings.SplitN(domain, ":", 2)[0], 1)
			if dir := os.Getenv("VERIF_DEBUG_DIR"); dir != "" {
				os.MkdirAll(dir, 0o755)
				os.WriteFile(filepath.Join(dir, fmt.Sprintf("zoo-%x.wa", core.Hash64(src))), []byte(src), 0o644)
			}
			out++
			t.Skip(domain)
		}
		judged++
		if key != "" {
			c.Fail(key, "%s", what)
		}
		if r.Changed || strings.Count(src, "\n") > 20 {
			c.Nontrivial(k.Src)
		}
	})
	if judged > 0 && out*5 > judged {
		t.Errorf("zoo health: %d of %d assembled files do not parse (fix the templates)", out, judged+out)
	}
}
