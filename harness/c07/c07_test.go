package c07

import (
	"time"
	"encoding/json"
	"fmt"
	"io/fs"
	"os"
	"path/filepath"
	"regexp"
	"sort"
	"strconv"
	"strings"
	"testing"

	"pgregory.net/rapid"
	"wa-lang.org/wa/zverif/harness/core"
	"wa-lang.org/wa/zverif/harness/wagen"
	"wa-lang.org/wa/zverif/harness/wk"
)

const prop = "C07"

func TestMain(m *testing.M) { core.Main(m) }

type kase struct {
	Name    string `json:"name"`
	Src     string `json:"src"`
	Compile bool   `json:"compile"`
}

type fcResult struct {
	Parsed   bool   `json:"parsed"`
	Key      string `json:"key"`
	Detail   string `json:"detail"`
	Changed  bool   `json:"changed"`
	Comments int    `json:"comments"`
	Out      string `json:"out"`
}

var worker *wk.Client

func getWorker() *wk.Client {
	if worker == nil {
		worker = wk.New(wk.Options{CPULimit: 150 * time.Second, RecycleEvery: 12}) // generous: the budget only separates "slow on a loaded machine" from "does not terminate"
	}
	return worker
}

// judge: key "" = holds; domain != "" = outside the domain / inconclusive.
func judge(k kase) (r fcResult, key, what, domain string) {
	o := getWorker().Do("format_check", k)
	if o.Kind == wk.Exited {
		// a long-lived worker can die of address-space exhaustion (every wazero run maps
		// memory): only a death that repeats in a fresh process is attributed to the input
		o = getWorker().Do("format_check", k)
	}
	switch o.Kind {
	case wk.OK:
		o.Decode(&r)
		if !r.Parsed {
			return r, "", "", "does-not-parse"
		}
		return r, refineKey(r), r.Detail, ""
	case wk.Panic:
		return r, "panic:" + core.PanicFrame(o.Stack), "formatter/parser panicked on syntactically valid input: " + o.Panic + "\n" + firstLines(o.Stack, 14), ""
	case wk.Exited:
		return r, "exited", "process terminated while formatting: " + firstLines(o.String(), 6), ""
	case wk.Killed:
		return r, "nontermination", o.String(), ""
	}
	return r, "", "", "inconclusive: " + o.String()
}

// Known findings of the .wz printer (see known_findings.jsonl): a trailing
// comment on a `结构·T:` / `接口·T:` header line is printed between the keyword
// and the name, and a trailing comment on the last statement before `否则:` /
// `或者 c:` (or on that line) ends up inside the clause header; both make the
// formatted text unparsable.
const (
	keyWzTypeHeader = "wz-printer/trailing-comment-on-type-header"
	keyWzElse       = "wz-printer/trailing-comment-at-else-clause"
)

var shortDeclRe = regexp.MustCompile(`^([A-Za-z_\x{80}-\x{10FFFF}][0-9A-Za-z_\x{80}-\x{10FFFF}]*) := (.*)$`)

var rejectPosRe =regexp.MustCompile(`:(\d+):\d+: `)

// refineKey gives "formatted text rejected" failures a structural identity by
// looking at the printed line the parser stumbled over.
func refineKey(r fcResult) string {
	if r.Key == "not-idempotent" {
		switch {
		case strings.Contains(r.Detail, `vs "结构"`) || strings.Contains(r.Detail, `vs "接口"`):
			return keyWzTypeHeader
		case strings.Contains(r.Detail, `否则 //`) || strings.Contains(r.Detail, `或者 //`) || strings.Contains(r.Detail, `否则 /*`):
			return keyWzElse
		}
	}
	if r.Key != "formatted-text-rejected" && r.Key != "formatted-text-does-not-parse" {
		return r.Key
	}
	m := rejectPosRe.FindStringSubmatch(r.Detail)
	if m == nil {
		return r.Key
	}
	n, _ := strconv.Atoi(m[1])
	ls := strings.Split(r.Out, "\n")
	for k := n - 1; k >= 0 && k >= n-3; k-- {
		if k >= len(ls) {
			continue
		}
		t := strings.TrimSpace(ls[k])
		switch {
		case strings.HasPrefix(t, "结构 //") || strings.HasPrefix(t, "接口 //") || strings.HasPrefix(t, "结构 /*") || strings.HasPrefix(t, "接口 /*") || t == "结构" || t == "接口":
			return keyWzTypeHeader
		case strings.HasPrefix(t, "否则 //") || strings.HasPrefix(t, "否则 /*") || strings.HasPrefix(t, "或者 //") || strings.HasPrefix(t, "或者 /*"):
			return keyWzElse
		}
	}
	return r.Key
}

// afterTypeHeader: lines[i] is the first line of a 结构 / 接口 body (a comment
// inserted before it is the same known printer defect as a trailing comment on the header).
func afterTypeHeader(lines []string, i int) bool {
	if !core.IsKnown(prop, keyWzTypeHeader) {
		return false
	}
	for j := i - 1; j >= 0; j-- {
		p := strings.TrimSpace(lines[j])
		if p == "" {
			continue
		}
		return strings.HasPrefix(p, "结构·") || strings.HasPrefix(p, "接口·")
	}
	return false
}

// knownTrailingCommentSpot: would a trailing comment on lines[i] hit one of the two known printer defects?
func knownTrailingCommentSpot(lines []string, i int) bool {
	t := strings.TrimSpace(lines[i])
	if core.IsKnown(prop, keyWzTypeHeader) && (strings.HasPrefix(t, "结构·") || strings.HasPrefix(t, "接口·")) {
		return true
	}
	if core.IsKnown(prop, keyWzElse) {
		if strings.HasPrefix(t, "否则") || strings.HasPrefix(t, "或者") {
			return true
		}
		for j := i + 1; j < len(lines); j++ {
			n := strings.TrimSpace(lines[j])
			if n == "" {
				continue
			}
			return strings.HasPrefix(n, "否则") || strings.HasPrefix(n, "或者")
		}
	}
	return false
}

func firstLines(s string, n int) string {
	ls := strings.Split(strings.TrimSpace(s), "\n")
	if len(ls) > n {
		ls = ls[:n]
	}
	return strings.Join(ls, "\n")
}

// ---------------------------------------------------------------- layout scrambler

// scramble changes only trivia: indentation, trailing blanks, blank-line runs,
// spacing around operators and commas (outside string literals), and inserts
// line comments, trailing comments and block comments between statements.
func scramble(t *rapid.T, src string, wz bool) (string, int) {
	lines := strings.Split(src, "\n")
	var out []string
	comments := 0
	mode := rapid.IntRange(0, 3).Draw(t, "scrambleMode")
	for i, l := range lines {
		trim := strings.TrimLeft(l, "\t ")
		if trim == "" {
			out = append(out, l)
			continue
		}
		indent := l[:len(l)-len(trim)]
		// re-indent
		switch rapid.IntRange(0, 5).Draw(t, "indent") {
		case 0:
			indent = strings.Repeat(" ", rapid.IntRange(0, 9).Draw(t, "spaces"))
		case 1:
			indent = indent + "\t"
		case 2:
			indent = ""
		}
		body := trim
		// same declaration, other spelling: `x := e` → `var x = e` (.wa only)
		if !wz {
			if m := shortDeclRe.FindStringSubmatch(body); m != nil && rapid.IntRange(0, 3).Draw(t, "varForm") == 0 {
				body = "var " + m[1] + " = " + m[2]
			}
		}
		if mode >= 1 && rapid.IntRange(0, 2).Draw(t, "respace") == 0 {
			body = respace(t, body)
		}
		// comment line before
		if rapid.IntRange(0, 7).Draw(t, "cbefore") == 0 && !continuesPrev(trim) && !(wz && afterTypeHeader(lines, i)) {
			comments++
			switch rapid.IntRange(0, 2).Draw(t, "ckind") {
			case 0:
				out = append(out, fmt.Sprintf("%s// c%d before", indent, i))
			case 1:
				if wz {
					out = append(out, fmt.Sprintf("%s注: c%d 注释", indent, i))
				} else {
					out = append(out, fmt.Sprintf("%s/* c%d block */", indent, i))
				}
			case 2:
				out = append(out, fmt.Sprintf("%s// c%d a", indent, i), fmt.Sprintf("%s// c%d b", indent, i))
				comments++
			}
		}
		if rapid.IntRange(0, 9).Draw(t, "blank") == 0 && !continuesPrev(trim) {
			for j, n := 0, rapid.IntRange(1, 3).Draw(t, "nblank"); j < n; j++ {
				out = append(out, "")
			}
		}
		line := indent + body
		if rapid.IntRange(0, 7).Draw(t, "ctrail") == 0 && !(wz && knownTrailingCommentSpot(lines, i)) {
			comments++
			line += fmt.Sprintf("  // t%d", i)
		} else if rapid.IntRange(0, 5).Draw(t, "wtrail") == 0 {
			line += strings.Repeat(" ", rapid.IntRange(1, 3).Draw(t, "ntrail"))
		}
		out = append(out, line)
	}
	return strings.Join(out, "\n"), comments
}

// continuesPrev: the line continues a construct started on the previous line
// (else / else-if chains), where an interposed comment or blank line would
// change how the languages attach the clause.
func continuesPrev(trim string) bool {
	for _, p := range []string{"}", "否则", "或者", "有辙", "没辙", "case ", "default", "完毕"} {
		if strings.HasPrefix(trim, p) {
			return true
		}
	}
	return false
}

var ops = []string{" + ", " - ", " * ", " / ", " % ", " == ", " != ", " <= ", " >= ", " < ", " > ", " && ", " || ", " := ", " = ", " += ", " | ", " ^ ", " << ", " >> ", ", "}

// respace changes blanks around binary operators / commas outside string literals.
func respace(t *rapid.T, s string) string {
	if strings.Contains(s, "//") || strings.Contains(s, "注:") {
		return s
	}
	segs := strings.Split(s, `"`)
	for i := 0; i < len(segs); i += 2 {
		for _, op := range ops {
			if !strings.Contains(segs[i], op) {
				continue
			}
			switch rapid.IntRange(0, 3).Draw(t, "opspace") {
			case 0:
				core := strings.TrimSpace(op)
				if core == "," {
					segs[i] = strings.ReplaceAll(segs[i], op, ",")
				} else if core != "-" && core != "&" && core != "+" && core != "*" && core != "<" && core != ">" && core != "=" && core != "/" {
					// removing blanks is only safe where no new token can form (a - -b, a & ^b, x =- …)
					segs[i] = strings.ReplaceAll(segs[i], op, core)
				}
			case 1:
				segs[i] = strings.ReplaceAll(segs[i], op, " "+op+" ")
			}
		}
	}
	return strings.Join(segs, `"`)
}

// ---------------------------------------------------------------- tests

func TestGenerated(t *testing.T) {
	s := core.NewStats(prop, "Generated")
	s.Rule("rapid-drawn programs (harness/wagen, .wa and .wz) passed through a trivia-only layout scrambler (indentation, blank-line runs, trailing blanks, operator spacing, // /* */ 注: comments before statements and at line ends); oracle = FormatCode succeeds, FormatCode(out) == out, position-free AST dumps of parse(src) and parse(out) are equal (imports as multisets), the multiset of comment texts is equal, and BuildFile of both texts assembles to byte-identical WebAssembly; non-trivial = the formatter changed the text and the input carried ≥ 1 comment; distinct by input hash")
	var judged, out int64
	s.Check(t, func(t *rapid.T, c *core.Case) {
		wz := rapid.IntRange(0, 2).Draw(t, "wz") == 0
		p := wagen.Gen(t, wagen.Options{MaxStmts: 24, MaxFuncs: 3, NoLabels: wz})
		k := kase{Name: "p.wa", Src: p.Src[wagen.Wa], Compile: true}
		if wz {
			k = kase{Name: "p.wz", Src: p.Src[wagen.Wz], Compile: true}
		}
		var nc int
		k.Src, nc = scramble(t, k.Src, wz)
		c.Set(k)
		r, key, what, domain := judge(k)
		if domain != "" {
			s.Counter("rejected_by_domain/"+strings.SplitN(domain, ":", 2)[0], 1)
			if dir := os.Getenv("VERIF_DEBUG_DIR"); dir != "" {
				os.MkdirAll(dir, 0o755)
				os.WriteFile(filepath.Join(dir, fmt.Sprintf("domain-%x%s", core.Hash64(k.Src), filepath.Ext(k.Name))), []byte(k.Src), 0o644)
			}
			out++
			t.Skip(domain)
		}
		judged++
		c.Class("syntax/" + filepath.Ext(k.Name))
		if key != "" {
			c.Fail(key, "%s", what)
		}
		if r.Changed {
			c.Class("formatter-changed-text")
		}
		if r.Changed && nc > 0 && r.Comments > 0 {
			c.Nontrivial(k.Src)
		}
	})
	if judged > 0 && out*3 > judged {
		t.Errorf("generator health: %d of %d scrambled programs no longer parse (scrambler bug)", out, judged+out)
	}
}

// TestRepositoryCorpus: every .wa/.wz file of the repository that parses (exhaustive corpus tier, sharded).
func TestRepositoryCorpus(t *testing.T) {
	s := core.NewStats(prop, "RepositoryCorpus")
	defer s.Flush()
	s.Rule("enumeration of every .wa/.wz file under the repository that parses (exhaustive over the in-repo corpus); same oracle without the compile step; non-trivial = file has ≥ 1 comment")
	s.Exhaustive(true)
	var files []string
	filepath.WalkDir(core.RepoDir(), func(p string, d fs.DirEntry, err error) error {
		if err != nil {
			return nil
		}
		if d.IsDir() && (d.Name() == ".git" || d.Name() == "node_modules") {
			return filepath.SkipDir
		}
		if ext := filepath.Ext(p); !d.IsDir() && (ext == ".wa" || ext == ".wz") {
			files = append(files, p)
		}
		return nil
	})
	sort.Strings(files)
	sh, n := core.Shard()
	for i, f := range files {
		if i%n != sh {
			continue
		}
		data, err := os.ReadFile(f)
		if err != nil {
			continue
		}
		k := kase{Name: filepath.Base(f), Src: string(data)}
		r, key, what, domain := judge(k)
		if domain != "" {
			s.Counter("rejected_by_domain/"+strings.SplitN(domain, ":", 2)[0], 1)
			continue
		}
		s.Eval(1)
		if r.Comments > 0 {
			s.Nontrivial(core.Hash64(k.Src))
			s.Sample(map[string]interface{}{"file": strings.TrimPrefix(f, core.RepoDir()), "comments": r.Comments, "changed": r.Changed})
		}
		if key != "" {
			c := s.NewCase(t)
			c.Set(k)
			c.Fail(key, "%s: %s", strings.TrimPrefix(f, core.RepoDir()), what)
		}
	}
}

func replay(test string, raw json.RawMessage) (string, string) {
	var k kase
	if err := json.Unmarshal(raw, &k); err != nil {
		return "harness/bad-replay", err.Error()
	}
	_, key, what, _ := judge(k)
	return key, what
}

func TestReplay(t *testing.T) { core.RunReplays(t, prop, replay) }
