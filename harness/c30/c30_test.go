package c30

import (
	"bytes"
	"context"
	"encoding/json"
	"fmt"
	"os"
	"os/exec"
	"path/filepath"
	"regexp"
	"sort"
	"strings"
	"testing"
	"time"

	"pgregory.net/rapid"
	"wa-lang.org/wa/zverif/harness/c23/mini"
	"wa-lang.org/wa/zverif/harness/core"
	"wa-lang.org/wa/zverif/harness/wk"
)

const prop = "C30"

func TestMain(m *testing.M) { core.Main(m) }

// ---------------------------------------------------------------- model

// fnModel is what the model knows about one generated test / example function.
type fnModel struct {
	Name     string `json:"name"`
	Example  bool   `json:"example,omitempty"`
	Kind     string `json:"kind"`
	Pass     bool   `json:"pass"`     // the function honours its contract
	Selected bool   `json:"selected"` // matched by the -run pattern (or no pattern)
}

type kase struct {
	Pkg      string            `json:"pkgpath"`
	Files    map[string]string `json:"files"` // path relative to the module root → content
	Run      string            `json:"run,omitempty"`
	Funcs    []fnModel         `json:"funcs"`
	WantPass bool              `json:"want_pass"`
}

// kinds: name → whether a function of that kind honours its contract.
var kindPass = map[string]bool{
	"silent-pass":                      true,
	"assert-pass":                      true,
	"output-match":                     true,
	"output-wrong-line":                false,
	"output-extra-line":                false,
	"output-missing-line":              false,
	"assert-fail":                      false,
	"assert-fail-msg":                  false,
	"panic-unexpected":                 false,
	"trap-unexpected":                  false,
	"panic-expected-match":             true,
	"panic-expected-match-after-print": true,
	"panic-expected-longer-message":    false, // panics with "boomerang" where "boom" is declared
	"panic-expected-wrong":             false,
	"panic-expected-absent":            false,
	"trap-expected-panic":              false,
	// the declared output is produced, but the function then does not return normally
	"trap-after-matching-output":        false,
	"panic-after-matching-output":       false,
	"assert-fail-after-matching-output": false,
}

// two-stage draw (rapid favours small indices): a group, then a kind inside it
var kindGroups = [][]string{
	{"panic-expected-match", "panic-expected-match-after-print", "panic-expected-longer-message", "panic-expected-wrong", "panic-expected-absent", "trap-expected-panic", "panic-expected-match"},
	{"output-match", "output-wrong-line", "output-extra-line", "output-missing-line", "output-match"},
	{"silent-pass", "assert-pass"},
	{"silent-pass", "output-match"},
	{"panic-unexpected", "trap-unexpected", "assert-fail", "assert-fail-msg"},
	{"trap-after-matching-output", "panic-after-matching-output", "assert-fail-after-matching-output"},
}

var passKinds = []string{"panic-expected-match", "panic-expected-match-after-print", "output-match", "silent-pass", "assert-pass"}
var failKinds = []string{"panic-expected-longer-message", "panic-expected-wrong", "panic-expected-absent", "trap-expected-panic",
	"output-wrong-line", "output-extra-line", "output-missing-line", "panic-unexpected", "trap-unexpected", "assert-fail", "assert-fail-msg",
	"trap-after-matching-output", "panic-after-matching-output", "assert-fail-after-matching-output"}

// excluded lists kinds switched off because they hit a listed known finding.
func excluded(kind string) (string, bool) {
	for key, kinds := range map[string][]string{
		"verdict/all-pass/reported-failing/expected-panic-after-output": {"panic-expected-match-after-print"},
		"verdict/failing/reported-ok/expected-panic-prefix":             {"panic-expected-longer-message"},
		"verdict/failing/no-FAIL/unexpected-abort":                      {"panic-unexpected", "trap-unexpected", "assert-fail", "assert-fail-msg"},
	} {
		for _, k := range kinds {
			if k == kind && core.IsKnown(prop, key) {
				return key, true
			}
		}
	}
	return "", false
}

type syn struct{ wz bool }

func (s syn) kw(wa, wz string) string {
	if s.wz {
		return wz
	}
	return wa
}

func outputComment(s syn, native bool, header string, lines []string) []string {
	// header: "Output:" or "Output(panic):"
	out := []string{""}
	if s.wz && native && header == "Output:" {
		out = append(out, "注: 输出:")
		for _, l := range lines {
			out = append(out, "注: "+l)
		}
		return out
	}
	out = append(out, "// "+header)
	for _, l := range lines {
		out = append(out, "// "+l)
	}
	return out
}

// genFunc draws one test / example function of the given kind.
func genFunc(t *rapid.T, s syn, kind, name, id string) *mini.Unit {
	o := mini.Opts{Wz: s.wz, ID: id, Entry: name, MaxDepth: 3}
	println_ := s.kw("println", "输出")
	panic_ := s.kw("panic", "崩溃")
	assert_ := s.kw("assert", "断言")
	siteWa := func(stmt string) mini.Site { return mini.Site{Wa: stmt, Wz: stmt} }
	normal := mini.Site{Wa: `println("site")`, Wz: `输出("site")`, Prints: []string{"site"}}
	native := rapid.Bool().Draw(t, "nativeOutputComment")
	msg := rapid.SampledFrom([]string{"boom", "bad state", "出错了"}).Draw(t, "msg")
	switch kind {
	case "silent-pass":
		o.Site = normal
	case "assert-pass":
		st := fmt.Sprintf("%s(yes%s)", assert_, id)
		if rapid.Bool().Draw(t, "withmsg") {
			st = fmt.Sprintf("%s(yes%s, %q)", assert_, id, msg)
		}
		o.Site = siteWa(st)
	case "output-match", "output-wrong-line", "output-extra-line", "output-missing-line":
		o.Site = normal
		variant := rapid.IntRange(0, 1000).Draw(t, "variant")
		o.TailFn = func(u *mini.Unit) []string {
			exp := append([]string{}, u.Out...)
			switch kind {
			case "output-wrong-line":
				i := variant % len(exp)
				exp[i] = exp[i] + "!"
			case "output-extra-line":
				exp = append(exp, "extra")
			case "output-missing-line":
				if len(exp) >= 2 {
					exp = exp[:len(exp)-1]
				} else {
					exp[0] = "other"
				}
			}
			return outputComment(s, native, "Output:", exp)
		}
	case "assert-fail":
		o.Site = siteWa(fmt.Sprintf("%s(no%s)", assert_, id))
		o.Site.Terminal = true
	case "assert-fail-msg":
		o.Site = siteWa(fmt.Sprintf("%s(no%s, %q)", assert_, id, msg))
		o.Site.Terminal = true
	case "panic-unexpected":
		o.Site = siteWa(fmt.Sprintf("%s(%q)", panic_, msg))
		o.Site.Terminal = true
	case "trap-unexpected":
		o.Site = siteWa(fmt.Sprintf("%s(100 / (sel%s - 2))", println_, id))
		o.Site.Terminal = true
	case "panic-expected-match", "panic-expected-match-after-print", "panic-expected-wrong", "panic-expected-longer-message":
		actual, declared := msg, msg
		switch kind {
		case "panic-expected-wrong":
			declared = "something else"
		case "panic-expected-longer-message":
			actual = msg + "erang"
		}
		o.Site = siteWa(fmt.Sprintf("%s(%q)", panic_, actual))
		o.Site.Terminal = true
		o.Quiet = kind != "panic-expected-match-after-print"
		if !o.Quiet {
			// make sure something is printed before the panic
			o.Site = siteWa(fmt.Sprintf("%s(%q); %s(%q)", println_, "before", panic_, actual))
			o.Site.Terminal = true
			o.Site.Prints = []string{"before"}
		}
		o.TailFn = func(u *mini.Unit) []string { return outputComment(s, native, "Output(panic):", []string{declared}) }
	case "panic-expected-absent":
		o.Site = normal
		o.TailFn = func(u *mini.Unit) []string { return outputComment(s, native, "Output(panic):", []string{msg}) }
	case "trap-after-matching-output", "panic-after-matching-output", "assert-fail-after-matching-output":
		var abort string
		switch kind {
		case "trap-after-matching-output":
			abort = fmt.Sprintf("%s(100 / (sel%s - 2))", println_, id)
		case "panic-after-matching-output":
			abort = fmt.Sprintf("%s(%q)", panic_, msg)
		default:
			abort = fmt.Sprintf("%s(no%s, %q)", assert_, id, msg)
		}
		o.Site = siteWa(fmt.Sprintf("%s(%q); %s", println_, "before", abort))
		o.Site.Terminal = true
		o.Site.Prints = []string{"before"}
		// the declared output is exactly what the function prints before it aborts
		o.TailFn = func(u *mini.Unit) []string { return outputComment(s, native, "Output:", u.Out) }
	case "trap-expected-panic":
		o.Site = siteWa(fmt.Sprintf("%s(100 / (sel%s - 2))", println_, id))
		o.Site.Terminal = true
		o.Quiet = true
		o.TailFn = func(u *mini.Unit) []string { return outputComment(s, native, "Output(panic):", []string{msg}) }
	default:
		panic("unknown kind " + kind)
	}
	return mini.Gen(t, o)
}

var nameParts = []string{"Add", "Sub", "Parse", "Run", "Abc", "Xyz", "IO", "Edge", "Zero", "Loop"}

func genPackage(t *rapid.T, s *core.Stats) kase {
	sy := syn{wz: rapid.Bool().Draw(t, "wz")}
	pkg := rapid.SampledFrom([]string{"m1", "myapp", "demo/calc"}).Draw(t, "pkgpath")
	nf := rapid.IntRange(1, 5).Draw(t, "nfuncs")
	var funcs []fnModel
	var chunks []string
	seen := map[string]bool{}
	shape := rapid.SampledFrom([]string{"one-failing", "all-pass", "mix", "one-failing"}).Draw(t, "shape")
	failIdx := rapid.IntRange(0, nf-1).Draw(t, "failIdx")
	for i := 0; i < nf; i++ {
		// Package shape: a package-level verdict hides all but one failing function,
		// so most packages have no or exactly one function that breaks its contract.
		var kind string
		switch {
		case shape == "mix":
			kind = rapid.SampledFrom(rapid.SampledFrom(kindGroups).Draw(t, "group")).Draw(t, "kind")
		case shape == "one-failing" && i == failIdx:
			kind = rapid.SampledFrom(failKinds).Draw(t, "failkind")
		default:
			kind = rapid.SampledFrom(passKinds).Draw(t, "passkind")
		}
		if key, ex := excluded(kind); ex {
			s.Counter("excluded_by_known/"+key, 1)
			kind = "silent-pass"
		}
		example := rapid.Bool().Draw(t, "example")
		base := rapid.SampledFrom(nameParts).Draw(t, "name")
		for seen[base] {
			base += "x"
		}
		seen[base] = true
		var name string
		switch {
		case sy.wz && example:
			name = base + "示例"
		case sy.wz:
			name = "测" + base + "功能"
		case example:
			name = "Example" + base
		default:
			name = "Test" + base
		}
		u := genFunc(t, sy, kind, name, fmt.Sprintf("_%d", i))
		text, _ := u.Text(0)
		chunks = append(chunks, text)
		funcs = append(funcs, fnModel{Name: name, Example: example, Kind: kind, Pass: kindPass[kind]})
	}
	// -run pattern (filepath.Match glob over function names)
	run := ""
	switch rapid.IntRange(0, 8).Draw(t, "runsel") {
	case 0:
		run = funcs[rapid.IntRange(0, len(funcs)-1).Draw(t, "runidx")].Name
	case 1:
		run = sy.kw("Test*", "测*")
	case 2:
		run = sy.kw("Example*", "*示例")
	case 3:
		n := funcs[rapid.IntRange(0, len(funcs)-1).Draw(t, "runidx")].Name
		r := []rune(n)
		run = string(r[:len(r)/2]) + "*"
	}
	want := true
	for i := range funcs {
		funcs[i].Selected = true
		if run != "" {
			ok, err := filepath.Match(run, funcs[i].Name)
			if err != nil {
				panic(err)
			}
			funcs[i].Selected = ok
		}
		if funcs[i].Selected && !funcs[i].Pass {
			want = false
		}
	}
	ext := sy.kw(".wa", ".wz")
	mainSrc := "// main package\n\nfunc main {\n\tprintln(\"main\")\n}\n"
	if sy.wz {
		mainSrc = "注: 主包\n\n函数·主控:\n\t输出(\"main\")\n完毕\n"
	}
	testFile := rapid.SampledFrom([]string{"main_test", "lib_test", "test_all"}).Draw(t, "testfile") + ext
	files := map[string]string{
		"wa.mod":          fmt.Sprintf("name = %q\npkgpath = %q\nversion = \"0.0.1\"\n", "gen", pkg),
		"src/main" + ext:  mainSrc,
		"src/" + testFile: sy.kw("// generated tests\n\n", "注: 生成的测试\n\n") + strings.Join(chunks, ""),
	}
	return kase{Pkg: pkg, Files: files, Run: run, Funcs: funcs, WantPass: want}
}

// ---------------------------------------------------------------- running `wa test`

type runResult struct {
	Status   int
	Stdout   string
	Stderr   string
	Unusable string
}

func runWaTest(k kase) runResult {
	dir, err := os.MkdirTemp("", "c30-")
	if err != nil {
		return runResult{Unusable: "mkdtemp: " + err.Error()}
	}
	defer os.RemoveAll(dir)
	for rel, content := range k.Files {
		p := filepath.Join(dir, filepath.FromSlash(rel))
		os.MkdirAll(filepath.Dir(p), 0o755)
		if err := os.WriteFile(p, []byte(content), 0o644); err != nil {
			return runResult{Unusable: "write: " + err.Error()}
		}
	}
	args := []string{"test"}
	if k.Run != "" {
		args = append(args, "-run="+k.Run)
	}
	ctx, cancel := context.WithTimeout(context.Background(), 10*time.Minute) // backstop only; hitting it is inconclusive
	defer cancel()
	cmd := exec.CommandContext(ctx, wk.BinPath("wa"), args...)
	cmd.Dir = dir
	var so, se bytes.Buffer
	cmd.Stdout, cmd.Stderr = &so, &se
	err = cmd.Run()
	r := runResult{Stdout: so.String(), Stderr: se.String()}
	if ctx.Err() != nil {
		r.Unusable = "time limit"
		return r
	}
	if err != nil {
		ee, ok := err.(*exec.ExitError)
		if !ok {
			r.Unusable = "exec: " + err.Error()
			return r
		}
		r.Status = ee.ExitCode()
		if r.Status < 0 {
			r.Unusable = "killed by signal"
		}
	}
	return r
}

var (
	diagRe = regexp.MustCompile(`(?m)^\S*\.(wa|wz):\d+:\d+: `)
	failRe = regexp.MustCompile(`(?m)^FAIL\b`)
)

func okLine(pkg string) *regexp.Regexp {
	return regexp.MustCompile(`(?m)^ok\s+` + regexp.QuoteMeta(pkg) + `\b`)
}

// rootClass maps a function kind to the class of behaviour it exercises in the
// runner (several kinds share one code path).
func rootClass(kind string) string {
	switch kind {
	case "panic-unexpected", "trap-unexpected", "assert-fail", "assert-fail-msg":
		return "unexpected-abort"
	case "trap-after-matching-output", "panic-after-matching-output", "assert-fail-after-matching-output":
		return "abort-after-matching-output"
	case "output-wrong-line", "output-extra-line", "output-missing-line":
		return "output-mismatch"
	case "panic-expected-longer-message":
		return "expected-panic-prefix"
	case "panic-expected-match-after-print":
		return "expected-panic-after-output"
	}
	return kind
}

// blame is the structural part of a violation key: the behaviour classes of the
// selected functions that can explain a wrong verdict.  failing=true looks at
// the selected functions that break their contract (prefer says which class
// is the usual culprit for this symptom), failing=false at the passing ones.
func blame(k kase, failing bool, prefer string) string {
	set := map[string]bool{}
	for _, f := range k.Funcs {
		if f.Selected && (f.Pass != failing) {
			set[rootClass(f.Kind)] = true
		}
	}
	if set[prefer] {
		return prefer
	}
	var ks []string
	for x := range set {
		ks = append(ks, x)
	}
	sort.Strings(ks)
	if len(ks) > 2 {
		ks = append(ks[:2], "etc")
	}
	return strings.Join(ks, "+")
}

func verdict(k kase, r runResult) (key, what, skip string) {
	if r.Unusable != "" {
		return "", "", "unusable: " + r.Unusable
	}
	if diagRe.MatchString(r.Stdout) || strings.Contains(r.Stdout, "compile_func.go") {
		return "", "", "generator: package does not compile: " + clip(r.Stdout, 500)
	}
	hasOK := okLine(k.Pkg).MatchString(r.Stdout)
	hasFAIL := failRe.MatchString(r.Stdout)
	desc := func() string {
		var b strings.Builder
		for _, f := range k.Funcs {
			if f.Selected {
				fmt.Fprintf(&b, " %s[%s]", f.Name, f.Kind)
			}
		}
		return fmt.Sprintf("`wa test%s` on selected functions%s: exit status %d, stdout:\n%s", map[bool]string{true: " -run=" + k.Run, false: ""}[k.Run != ""], b.String(), r.Status, clip(r.Stdout, 900))
	}
	if k.WantPass {
		switch {
		case r.Status != 0 || hasFAIL:
			return "verdict/all-pass/reported-failing/" + blame(k, false, "expected-panic-after-output"), "every selected function honours its contract, but the package is not reported as passing: " + desc(), ""
		case !hasOK:
			return "verdict/all-pass/no-ok-line", "every selected function honours its contract and the exit status is 0, but no `ok <pkg>` line is printed: " + desc(), ""
		}
		return "", "", ""
	}
	switch {
	case r.Status == 0 || hasOK:
		return "verdict/failing/reported-ok/" + blame(k, true, "expected-panic-prefix"), "a selected function breaks its contract, but the package is reported as passing: " + desc(), ""
	case !hasFAIL:
		return "verdict/failing/no-FAIL/" + blame(k, true, "unexpected-abort"), "a selected function breaks its contract and the exit status is non-zero, but FAIL is not printed: " + desc(), ""
	}
	return "", "", ""
}

func clip(s string, n int) string {
	if len(s) > n {
		return s[:n] + "…"
	}
	return s
}

// ---------------------------------------------------------------- test

func TestVerdicts(t *testing.T) {
	s := core.NewStats(prop, "Verdicts")
	s.Rule("rapid: module directory (wa.mod with a drawn pkgpath, src/main.{wa,wz}, one test file named *_test or test_*) in the English or the Chinese syntax with 1..5 test/example functions (TestX / ExampleX / 测X功能 / X示例); every function body is a drawn nest of blocks/ifs/loops/switches/closures/helper calls/methods/defers with printing statements and one site that fixes its kind: silent pass, passing assert, `// Output:` (or 注: 输出:) matching the modelled output, wrong / extra / missing expected line, failing assert (with or without message), panic or trap without expectation, `// Output(panic):` with the same / a longer / another message, no panic at all, a trap instead, a panic after some output, or an `// Output:` that matches what is printed before the function traps / panics / fails an assert; an optional -run glob selects a subset; oracle: the model computes from the kinds of the SELECTED functions whether all honour their contract: then `wa test` must print `ok <pkgpath>` and exit 0, otherwise it must print FAIL and exit non-zero; non-trivial = the selected functions mix passing and failing ones, or one of them declares an expected panic")
	s.Assume("a generated package that fails to compile is counted as rejected (generator defect), never as a violation; expected output is non-empty and has no leading/trailing blanks, so the runner's whitespace trimming is not exercised")
	var rejected, unusable int64
	s.Check(t, func(t *rapid.T, c *core.Case) {
		k := genPackage(t, s)
		c.Set(k)
		r := runWaTest(k)
		key, what, skip := verdict(k, r)
		if skip != "" {
			if strings.HasPrefix(skip, "unusable") {
				unusable++
				s.Counter("inconclusive_run", 1)
			} else {
				rejected++
				s.Counter("rejected_generator", 1)
				fmt.Fprintf(os.Stderr, "REJECTED: %s\n--- files\n%v\n---\n", skip, k.Files)
				s.Note("rejected case: " + clip(skip, 300))
			}
			c.Class("skipped")
			return
		}
		nsel, npass, nfail, panicExp := 0, 0, 0, false
		for _, f := range k.Funcs {
			if !f.Selected {
				c.Class("unselected")
				continue
			}
			nsel++
			c.Class("kind/" + f.Kind)
			if f.Example {
				c.Class("func/example")
			} else {
				c.Class("func/test")
			}
			if f.Pass {
				npass++
			} else {
				nfail++
			}
			panicExp = panicExp || strings.Contains(f.Kind, "expected")
		}
		if _, wz := k.Files["src/main.wz"]; wz {
			c.Class("syntax/wz")
		} else {
			c.Class("syntax/wa")
		}
		c.Class(fmt.Sprintf("want-pass=%v", k.WantPass))
		c.Class("pkgpath/" + k.Pkg)
		c.Class(fmt.Sprintf("selected-failing=%d", min(nfail, 2)))
		switch {
		case k.Run == "":
			c.Class("run/none")
		case nsel == 0:
			c.Class("run/selects-nothing")
		case nsel < len(k.Funcs):
			c.Class("run/subset")
		default:
			c.Class("run/all")
		}
		if key != "" {
			c.Fail(key, "%s", what)
		}
		if (npass > 0 && nfail > 0) || panicExp {
			c.Nontrivial()
		}
	})
	if rejected > 0 {
		t.Errorf("HARNESS: %d generated packages were rejected (generator defect) - inconclusive", rejected)
	}
	if unusable > 2 {
		t.Errorf("HARNESS: %d runs were unusable - inconclusive", unusable)
	}
}

// ---------------------------------------------------------------- replay

func replay(test string, raw json.RawMessage) (string, string) {
	var k kase
	if err := json.Unmarshal(raw, &k); err != nil {
		return "harness/bad-replay", err.Error()
	}
	key, what, skip := verdict(k, runWaTest(k))
	if skip != "" {
		return "", ""
	}
	return key, what
}

func TestReplay(t *testing.T) { core.RunReplays(t, prop, replay) }
