package main

import (
	"crypto/sha256"
	"encoding/hex"
	"encoding/json"
	"fmt"

	"wa-lang.org/wa/api"
	"wa-lang.org/wa/internal/wat/watutil"
	"wa-lang.org/wa/internal/wat/watutil/wat2c"
	"wa-lang.org/wa/internal/wat/watutil/watstrip"
)

// BuildHashes are the digests of every artefact of one build.
type BuildHashes struct {
	Wat   string `json:"wat"`
	Wasm  string `json:"wasm"`
	Strip string `json:"strip"`
	C     string `json:"c"`
	WatText string `json:"wat_text,omitempty"` // only when requested (to show a diff)
}

type bhArgs struct {
	Name   string `json:"name"`
	Src    string `json:"src"`
	Cfg    Cfg    `json:"cfg"`
	Times  int    `json:"times"`
	Text   bool   `json:"text"`
	Native bool   `json:"native"` // also strip / wat2c
}

func h(b []byte) string { s := sha256.Sum256(b); return hex.EncodeToString(s[:12]) }

func init() {
	// build_hashes: compile the same source `times` times in this process.
	register("build_hashes", func(raw json.RawMessage) (interface{}, error) {
		var a bhArgs
		if err := json.Unmarshal(raw, &a); err != nil {
			return nil, err
		}
		var out []BuildHashes
		for i := 0; i < a.Times; i++ {
			_, wat, _, err := api.BuildFile(a.Cfg.config(), a.Name, a.Src)
			if err != nil {
				return out, err
			}
			bh := BuildHashes{Wat: h(wat)}
			if a.Text {
				bh.WatText = string(wat)
			}
			wasm, err := watutil.Wat2Wasm(a.Name, wat)
			if err != nil {
				return out, err
			}
			bh.Wasm = h(wasm)
			if a.Native {
				if s, err := watstrip.WatStrip(a.Name, wat); err == nil {
					bh.Strip = h(s)
				} else {
					bh.Strip = "error:" + err.Error()
				}
				func() {
					// a wat2c panic on compiler output is property C03's business; here only
					// determinism is judged, and the panic text is deterministic too
					defer func() {
						if r := recover(); r != nil {
							bh.C = "panic:" + fmt.Sprint(r)
						}
					}()
					if _, code, header, err := watutil.Wat2C(a.Name, wat, wat2c.Options{Prefix: "app"}); err == nil {
						bh.C = h(append(code, header...))
					} else {
						bh.C = "error:" + err.Error()
					}
				}()
			}
			out = append(out, bh)
		}
		return out, nil
	})
}
