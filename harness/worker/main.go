// Command worker links the repository's compiler / front-end code and serves
// requests from a property check over a pipe pair (fd 3 = requests, fd 4 =
// replies, one JSON document per line).  It exists because compiler code may
// call logger.Fatal (os.Exit), die with unrecoverable runtime errors or hang:
// the parent turns any of those into data for its oracle.
//
// New operations are added by dropping a file into this directory that calls
// register("name", func(raw json.RawMessage) (interface{}, error)).
package main

import (
	"bufio"
	"encoding/json"
	"fmt"
	"os"
	"runtime/debug"
	"strconv"
	"syscall"
)

type request struct {
	ID   int64           `json:"id"`
	Op   string          `json:"op"`
	Args json.RawMessage `json:"args"`
}

type reply struct {
	ID      int64       `json:"id"`
	Outcome string      `json:"outcome"` // ok | error | panic
	Result  interface{} `json:"result,omitempty"`
	Err     string      `json:"err,omitempty"`
	Panic   string      `json:"panic,omitempty"`
	Stack   string      `json:"stack,omitempty"`
}

type opFunc func(raw json.RawMessage) (interface{}, error)

var ops = map[string]opFunc{}

func register(name string, f opFunc) { ops[name] = f }

func main() {
	if mb, _ := strconv.Atoi(os.Getenv("VERIF_WORKER_AS_MB")); mb > 0 {
		lim := syscall.Rlimit{Cur: uint64(mb) << 20, Max: uint64(mb) << 20}
		syscall.Setrlimit(syscall.RLIMIT_AS, &lim)
	}
	debug.SetMaxStack(256 << 20) // stack overflow in a recursive-descent parser must be a clean crash, not 1 GiB of swap
	in := os.NewFile(3, "req")
	out := os.NewFile(4, "rep")
	if in == nil || out == nil {
		fmt.Fprintln(os.Stderr, "worker: fds 3/4 missing")
		os.Exit(97)
	}
	rd := bufio.NewReaderSize(in, 1<<20)
	wr := bufio.NewWriter(out)
	for {
		line, err := rd.ReadBytes('\n')
		if len(line) == 0 && err != nil {
			return
		}
		var rq request
		if e := json.Unmarshal(line, &rq); e != nil {
			fmt.Fprintln(os.Stderr, "worker: bad request:", e)
			os.Exit(98)
		}
		rp := serve(rq)
		data, e := json.Marshal(rp)
		if e != nil {
			data, _ = json.Marshal(reply{ID: rq.ID, Outcome: "error", Err: "worker: cannot marshal result: " + e.Error()})
		}
		wr.Write(data)
		wr.WriteByte('\n')
		wr.Flush()
		if err != nil {
			return
		}
	}
}

func serve(rq request) (rp reply) {
	rp.ID = rq.ID
	f := ops[rq.Op]
	if f == nil {
		rp.Outcome, rp.Err = "error", "worker: unknown op "+rq.Op
		return
	}
	defer func() {
		if r := recover(); r != nil {
			rp.Outcome = "panic"
			rp.Panic = fmt.Sprint(r)
			rp.Stack = string(debug.Stack())
			rp.Result = nil
		}
	}()
	res, err := f(rq.Args)
	if err != nil {
		rp.Outcome, rp.Err, rp.Result = "error", err.Error(), res
		return
	}
	rp.Outcome, rp.Result = "ok", res
	return
}
