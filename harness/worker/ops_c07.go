package main

import (
	"bytes"
	"encoding/json"
	"fmt"
	"reflect"
	"sort"
	"strings"

	"wa-lang.org/wa/api"
	"wa-lang.org/wa/internal/ast"
	"wa-lang.org/wa/internal/parser"
	"wa-lang.org/wa/internal/parser/w2parser"
	"wa-lang.org/wa/internal/token"
	"wa-lang.org/wa/internal/wat/watutil"
	"wa-lang.org/wa/internal/wazero"
)

// FormatCheckResult is the reply of op "format_check".
type FormatCheckResult struct {
	Parsed   bool   `json:"parsed"`   // the input is syntactically valid (inside the property's domain)
	Key      string `json:"key"`      // "" = property holds
	Detail   string `json:"detail"`
	Changed  bool   `json:"changed"`  // formatter changed the text
	Comments int    `json:"comments"` // number of comments in the input
	Out      string `json:"out,omitempty"`
}

type fcArgs struct {
	Name    string `json:"name"`
	Src     string `json:"src"`
	Compile bool   `json:"compile"` // also compare the WebAssembly of src and of the formatted text
}

func parseAny(name, src string) (*ast.File, *token.FileSet, error) {
	fset := token.NewFileSet()
	if strings.HasSuffix(strings.ToLower(name), ".wz") {
		f, err := w2parser.ParseFile(nil, fset, name, src, w2parser.ParseComments|w2parser.AllErrors)
		return f, fset, err
	}
	f, err := parser.ParseFile(nil, fset, name, src, parser.ParseComments|parser.AllErrors)
	return f, fset, err
}

var posType = reflect.TypeOf(token.Pos(0))

// stripParens removes ParenExpr nodes: the formatter drops redundant
// parentheses (gofmt behaviour for if/for/switch headers); grouping is already
// encoded by the tree shape, so "(x)" and "x" are the same syntax tree here.
func stripParens(v reflect.Value) {
	switch v.Kind() {
	case reflect.Ptr:
		if !v.IsNil() {
			stripParens(v.Elem())
		}
	case reflect.Interface:
		if v.IsNil() {
			return
		}
		for v.CanSet() {
			p, ok := v.Interface().(*ast.ParenExpr)
			if !ok {
				break
			}
			v.Set(reflect.ValueOf(p.X))
		}
		stripParens(v.Elem())
	case reflect.Struct:
		t := v.Type()
		for i := 0; i < v.NumField(); i++ {
			switch t.Field(i).Name {
			case "Obj", "Scope", "Unresolved", "Imports", "Doc", "Comment", "Comments":
				continue
			}
			stripParens(v.Field(i))
		}
	case reflect.Slice:
		for i := 0; i < v.Len(); i++ {
			stripParens(v.Index(i))
		}
	}
}

// dumpDecls renders the declarations without positions, comments and resolution data;
// import blocks are rendered as sorted multisets (the formatter sorts imports).
func dumpDecls(fset *token.FileSet, f *ast.File) string {
	filter := func(name string, v reflect.Value) bool {
		if v.Type() == posType {
			return false
		}
		switch name {
		case "Doc", "Comment", "Comments", "Obj", "Scope", "Unresolved", "Imports":
			return false
		}
		return ast.NotNilFilter(name, v)
	}
	stripParens(reflect.ValueOf(f))
	var sb strings.Builder
	fmt.Fprintf(&sb, "package %v\n", f.Name)
	for _, d := range f.Decls {
		if gd, ok := d.(*ast.GenDecl); ok && gd.Tok == token.IMPORT {
			var specs []string
			for _, s := range gd.Specs {
				var b bytes.Buffer
				ast.Fprint(&b, nil, s, filter)
				specs = append(specs, b.String())
			}
			sort.Strings(specs)
			sb.WriteString("import{\n" + strings.Join(specs, "") + "}\n")
			continue
		}
		var b bytes.Buffer
		ast.Fprint(&b, nil, d, filter)
		sb.WriteString(b.String())
	}
	return sb.String()
}

func commentTexts(f *ast.File) []string {
	var out []string
	for _, cg := range f.Comments {
		for _, c := range cg.List {
			out = append(out, strings.TrimRight(c.Text, " \t\r\n"))
		}
	}
	sort.Strings(out)
	return out
}

func firstDiff(a, b string) string {
	al, bl := strings.Split(a, "\n"), strings.Split(b, "\n")
	for i := 0; i < len(al) || i < len(bl); i++ {
		var x, y string
		if i < len(al) {
			x = al[i]
		}
		if i < len(bl) {
			y = bl[i]
		}
		if x != y {
			return fmt.Sprintf("line %d: %q vs %q", i+1, x, y)
		}
	}
	return "equal"
}

func init() {
	register("format_check", func(raw json.RawMessage) (interface{}, error) {
		var a fcArgs
		if err := json.Unmarshal(raw, &a); err != nil {
			return nil, err
		}
		res := &FormatCheckResult{}
		f1, fset1, err := parseAny(a.Name, a.Src)
		if err != nil {
			return res, nil // not syntactically valid: outside the domain
		}
		res.Parsed = true
		res.Comments = len(commentTexts(f1))
		out, err := api.FormatCode(a.Name, a.Src)
		if err != nil {
			res.Key, res.Detail = "format-error", err.Error()
			return res, nil
		}
		res.Out = out
		res.Changed = out != a.Src
		out2, err := api.FormatCode(a.Name, out)
		if err != nil {
			res.Key, res.Detail = "formatted-text-rejected", err.Error()
			return res, nil
		}
		if out2 != out {
			res.Key, res.Detail = "not-idempotent", firstDiff(out, out2)
			return res, nil
		}
		f2, fset2, err := parseAny(a.Name, out)
		if err != nil {
			res.Key, res.Detail = "formatted-text-does-not-parse", err.Error()
			return res, nil
		}
		if d1, d2 := dumpDecls(fset1, f1), dumpDecls(fset2, f2); d1 != d2 {
			res.Key, res.Detail = "ast-changed", firstDiff(d1, d2)
			return res, nil
		}
		c1, c2 := commentTexts(f1), commentTexts(f2)
		if strings.Join(c1, "\x00") != strings.Join(c2, "\x00") {
			res.Key, res.Detail = "comment-changed", fmt.Sprintf("%d comments before, %d after; first difference: %s", len(c1), len(c2), firstDiff(strings.Join(c1, "\n"), strings.Join(c2, "\n")))
			return res, nil
		}
		if a.Compile {
			cfg := api.DefaultConfig()
			main1, wat1, fset1b, err1 := api.BuildFile(cfg, a.Name, a.Src)
			main2, wat2, fset2b, err2 := api.BuildFile(api.DefaultConfig(), a.Name, out)
			if (err1 == nil) != (err2 == nil) {
				res.Key, res.Detail = "compile-outcome-changed", fmt.Sprintf("original: %v; formatted: %v", err1, err2)
				return res, nil
			}
			if err1 == nil {
				w1, e1 := watutil.Wat2Wasm(a.Name, wat1)
				w2, e2 := watutil.Wat2Wasm(a.Name, wat2)
				if e1 != nil || e2 != nil {
					return res, nil // assembler problems are C04/C16 territory
				}
				// Source positions are embedded in the data segment (nil-dereference and
				// panic messages), so the binaries legitimately differ after re-layout.
				// Compare everything but the data: same code size, and same behaviour.
				o1, e1s, r1 := wazero.RunWasm(a.Name, w1, fset1b, main1)
				o2, e2s, r2 := wazero.RunWasm(a.Name, w2, fset2b, main2)
				if (r1 == nil) != (r2 == nil) || !bytes.Equal(append(o1, e1s...), append(o2, e2s...)) {
					res.Key, res.Detail = "behaviour-changed", fmt.Sprintf("run of original: err=%v, %d output bytes; run of formatted: err=%v, %d output bytes; %s",
						r1, len(o1)+len(e1s), r2, len(o2)+len(e2s), firstDiff(string(append(o1, e1s...)), string(append(o2, e2s...))))
					return res, nil
				}
			}
		}
		return res, nil
	})
}
