package main

// Ops for property C08 (front ends never crash or hang).
//
//	c08       run one front-end entry point on raw bytes (base64 in JSON, so
//	          invalid UTF-8 survives the pipe) and, afterwards, count the tokens
//	          the matching scanner produces (the non-trivial rule of C08).
//	c08_scan  only the token count (used when the count itself crashed).

import (
	"encoding/json"
	"fmt"
	"strings"

	"wa-lang.org/wa/api"
	"wa-lang.org/wa/internal/loader"
	navparser "wa-lang.org/wa/internal/native/parser"
	navscanner "wa-lang.org/wa/internal/native/scanner"
	navtoken "wa-lang.org/wa/internal/native/token"
	"wa-lang.org/wa/internal/parser"
	"wa-lang.org/wa/internal/parser/w2parser"
	"wa-lang.org/wa/internal/scanner"
	"wa-lang.org/wa/internal/token"
	watparser "wa-lang.org/wa/internal/wat/parser"
	watscanner "wa-lang.org/wa/internal/wat/scanner"
	wattoken "wa-lang.org/wa/internal/wat/token"
)

type c08Args struct {
	Entry string `json:"entry"`
	Name  string `json:"name"`
	CPU   string `json:"cpu,omitempty"`
	Src   []byte `json:"src"`
	// NoCount skips the token count, so that a confirmed hang or crash can
	// only come from the entry point itself.
	NoCount bool `json:"no_count,omitempty"`
}

type c08Result struct {
	Tokens    int    `json:"tokens"`               // tokens of the scanner that feeds this entry point (-1: the count panicked)
	Lang      string `json:"lang,omitempty"`       // GetCodeSyntax(name, src): the entry's own result for "syntax", computed afterwards for "format"
	ScanPanic string `json:"scan_panic,omitempty"` // panic value of the token count
}

// c08Run calls exactly one public entry point.
func c08Run(a c08Args) (lang string, err error) {
	switch a.Entry {
	case "format":
		_, err = api.FormatCode(a.Name, string(a.Src))
	case "syntax":
		lang = api.GetCodeSyntax(a.Name, a.Src)
	case "parse_wa":
		_, err = parser.ParseFile(nil, token.NewFileSet(), a.Name, a.Src, parser.AllErrors|parser.ParseComments)
	case "parse_wz":
		_, err = w2parser.ParseFile(nil, token.NewFileSet(), a.Name, a.Src, w2parser.AllErrors|w2parser.ParseComments)
	case "load":
		_, err = loader.LoadProgramFile(api.DefaultConfig(), a.Name, a.Src)
	case "wat_parse":
		_, err = watparser.ParseModule(a.Name, a.Src)
	case "native_parse":
		cpu, ok := cpuTypes[a.CPU]
		if !ok {
			return "", fmt.Errorf("worker: unknown cpu %q", a.CPU)
		}
		_, err = navparser.ParseFile(cpu, navtoken.NewFileSet(), a.Name, a.Src)
	default:
		return "", fmt.Errorf("worker: unknown c08 entry %q", a.Entry)
	}
	return
}

const c08MaxTokens = 1 << 20

// c08Count counts the non-comment tokens of the scanner that feeds the entry point.
func c08Count(a c08Args) int {
	n := 0
	switch a.Entry {
	case "wat_parse":
		var s watscanner.Scanner
		s.Init(wattoken.NewFile(a.Name, len(a.Src)), a.Src, nil, watscanner.ScanComments)
		for n < c08MaxTokens {
			_, tok, _ := s.Scan()
			if tok == wattoken.EOF {
				break
			}
			if tok != wattoken.COMMENT {
				n++
			}
		}
	case "native_parse":
		s := navscanner.NewScanner(nil, a.CPU == "arm64")
		fset := navtoken.NewFileSet()
		s.Init(fset.AddFile(a.Name, -1, len(a.Src)), a.Src, nil, navscanner.ScanComments)
		for n < c08MaxTokens {
			_, tok, _ := s.Scan()
			if tok == navtoken.EOF {
				break
			}
			if tok != navtoken.COMMENT && tok != navtoken.SEMICOLON {
				n++
			}
		}
	default:
		var s scanner.Scanner
		fset := token.NewFileSet()
		s.W2Mode = a.Entry == "parse_wz" || (a.Entry != "parse_wa" && strings.HasSuffix(a.Name, ".wz"))
		s.Init(fset.AddFile(a.Name, fset.Base(), len(a.Src)), a.Src, nil, scanner.ScanComments)
		for n < c08MaxTokens {
			_, tok, lit := s.Scan()
			if tok == token.EOF {
				break
			}
			if tok == token.COMMENT || (tok == token.SEMICOLON && lit == "\n") {
				continue
			}
			n++
		}
	}
	return n
}

func c08SafeCount(a c08Args) (n int, lang string, panicked string) {
	defer func() {
		if r := recover(); r != nil {
			n, panicked = -1, fmt.Sprint(r)
		}
	}()
	if a.Entry == "format" {
		// which branch of format.File was taken (decides whether the parser was reached)
		lang = api.GetCodeSyntax(a.Name, a.Src)
	}
	return c08Count(a), lang, ""
}

func init() {
	register("c08", func(raw json.RawMessage) (interface{}, error) {
		var a c08Args
		if err := json.Unmarshal(raw, &a); err != nil {
			return nil, err
		}
		if a.Src == nil {
			a.Src = []byte{}
		}
		lang, err := c08Run(a)
		res := &c08Result{Lang: lang}
		if !a.NoCount {
			var l string
			res.Tokens, l, res.ScanPanic = c08SafeCount(a)
			if res.Lang == "" {
				res.Lang = l
			}
		}
		return res, err
	})
	register("c08_scan", func(raw json.RawMessage) (interface{}, error) {
		var a c08Args
		if err := json.Unmarshal(raw, &a); err != nil {
			return nil, err
		}
		if a.Src == nil {
			a.Src = []byte{}
		}
		return &c08Result{Tokens: c08Count(a)}, nil
	})
}
