package main

import (
	"encoding/json"
	"fmt"
	"os"
	"path/filepath"
	"sort"
	"testing/fstest"

	"wa-lang.org/wa/internal/ast"
	"wa-lang.org/wa/internal/config"
	"wa-lang.org/wa/internal/loader"
	wasrc "wa-lang.org/wa/waroot/src"
)

// c24LoadArgs describes a generated multi-package module.
//
// Files are keyed by their path below the module's source root (the directory
// holding the main package): "main.wa", "sub/a.wa", ...  In mode "vfs" the
// module is handed to loader.LoadProgramVFS as an in-memory file system (wa.mod
// next to the main package, as the playground does); in mode "dir" it is
// written to a scratch directory in the standard layout (wa.mod, src/...) and
// loaded with loader.LoadProgram like `wa build <dir>`.
type c24LoadArgs struct {
	Pkgpath string            `json:"pkgpath"`
	Files   map[string]string `json:"files"`
	Cfg     Cfg               `json:"cfg"`
	Mode    string            `json:"mode"`
}

// c24LoadResult lists, per loaded non-std package, the top-level functions of
// the files that survived build-tag filtering (sorted). Every generated file
// declares one function named after the file, so this is the set of included
// files.
type c24LoadResult struct {
	Pkgs map[string][]string `json:"pkgs"`
}

func init() {
	register("c24_load", func(raw json.RawMessage) (interface{}, error) {
		var a c24LoadArgs
		if err := json.Unmarshal(raw, &a); err != nil {
			return nil, err
		}
		manifest := fmt.Sprintf("name = %q\npkgpath = %q\nversion = \"0.0.1\"\n", a.Pkgpath, a.Pkgpath)
		cfg := a.Cfg.config()

		var prog *loader.Program
		var err error
		switch a.Mode {
		case "dir":
			root, e := os.MkdirTemp("", "c24-")
			if e != nil {
				return nil, fmt.Errorf("worker: %v", e)
			}
			defer os.RemoveAll(root)
			if e := os.WriteFile(filepath.Join(root, "wa.mod"), []byte(manifest), 0o644); e != nil {
				return nil, fmt.Errorf("worker: %v", e)
			}
			for name, src := range a.Files {
				p := filepath.Join(root, "src", filepath.FromSlash(name))
				os.MkdirAll(filepath.Dir(p), 0o755)
				if e := os.WriteFile(p, []byte(src), 0o644); e != nil {
					return nil, fmt.Errorf("worker: %v", e)
				}
			}
			prog, err = loader.LoadProgram(cfg, root)
		default:
			app := fstest.MapFS{"wa.mod": &fstest.MapFile{Data: []byte(manifest)}}
			for name, src := range a.Files {
				app[name] = &fstest.MapFile{Data: []byte(src)}
			}
			vfs := &config.PkgVFS{App: app, Std: wasrc.GetStdFS(), Vendor: fstest.MapFS{}}
			prog, err = loader.LoadProgramVFS(vfs, cfg, ".")
		}
		if err != nil {
			return nil, err
		}
		res := &c24LoadResult{Pkgs: map[string][]string{}}
		for pkgpath, pkg := range prog.Pkgs {
			if wasrc.IsStdPkg(pkgpath) {
				continue
			}
			names := []string{}
			for _, f := range pkg.Files {
				for _, d := range f.Decls {
					if fd, ok := d.(*ast.FuncDecl); ok && fd.Recv == nil {
						names = append(names, fd.Name.Name)
					}
				}
			}
			sort.Strings(names)
			res.Pkgs[pkgpath] = names
		}
		return res, nil
	})
}
