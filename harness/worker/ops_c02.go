package main

import (
	"encoding/json"

	"wa-lang.org/wa/api"
	"wa-lang.org/wa/internal/backends/compiler_wat"
	"wa-lang.org/wa/internal/config"
	"wa-lang.org/wa/internal/token"
)

// native_build = what `wa native build --target linux --arch x64 <file.wa>`
// does up to (not including) wat2x64 and gcc (internal/app/appnative/build.go
// buildWat): load with TargetOS=linux / TargetArch=x64, compile to WAT, and
// hand back the extra assembly / gcc arguments / C code the program carries.
func init() {
	register("native_build", func(raw json.RawMessage) (interface{}, error) {
		a, err := decode(raw)
		if err != nil {
			return nil, err
		}
		cfg := a.Cfg.config()
		cfg.TargetOS = config.WaOS_linux
		cfg.TargetArch = config.WaArch_x64
		cfg.WaSizes.MaxAlign = 8
		cfg.WaSizes.WordSize = 4
		prog, err := api.LoadProgramFile(cfg, a.Name, a.Src)
		if err != nil || prog == nil {
			return nil, err
		}
		mainFunc := prog.Manifest.MainPkg + "." + token.K_main
		if prog.Manifest.W2Mode {
			mainFunc = prog.Manifest.MainPkg + "." + token.K_主控
		}
		wat, err := compiler_wat.New().Compile(prog)
		return map[string]interface{}{
			"main": mainFunc, "wat": wat,
			"nasm": string(prog.NasmCode()), "gccargs": string(prog.GccArgsCode()), "clang": string(prog.ClangCode()),
		}, err
	})
}
