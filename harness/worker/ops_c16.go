package main

import (
	"context"
	"encoding/json"

	"wa-lang.org/wa/api"
	"wa-lang.org/wa/internal/3rdparty/wazero"
	"wa-lang.org/wa/internal/loader"
	"wa-lang.org/wa/internal/wat/watutil"
)

// BuildValidateResult is the reply of op "build_validate".
type BuildValidateResult struct {
	Stage string `json:"stage"` // load | build | assemble | validate | done
	Wat   string `json:"wat,omitempty"`
	Wasm  []byte `json:"wasm,omitempty"`
}

func init() {
	// build_validate: type-check, compile to WAT, assemble, validate with the vendored wazero.
	register("build_validate", func(raw json.RawMessage) (interface{}, error) {
		a, err := decode(raw)
		if err != nil {
			return nil, err
		}
		res := &BuildValidateResult{Stage: "load"}
		if _, err := loader.LoadProgramFile(a.Cfg.config(), a.Name, a.Src); err != nil {
			return res, err
		}
		res.Stage = "build"
		_, watBytes, _, err := api.BuildFile(a.Cfg.config(), a.Name, a.Src)
		if err != nil {
			return res, err
		}
		res.Wat = string(watBytes)
		res.Stage = "assemble"
		wasmBytes, err := watutil.Wat2Wasm(a.Name, watBytes)
		if err != nil {
			return res, err
		}
		res.Wasm = wasmBytes
		res.Wat = "" // keep the reply small once the text assembled
		res.Stage = "validate"
		ctx := context.Background()
		rt := wazero.NewRuntime(ctx)
		defer rt.Close(ctx)
		if _, err := rt.CompileModule(ctx, wasmBytes); err != nil {
			return res, err
		}
		res.Stage = "done"
		return res, nil
	})
}
