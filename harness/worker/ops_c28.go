package main

import (
	"encoding/json"
	"fmt"
	"runtime/debug"
	"strings"
	"sync"
	"sync/atomic"
	"testing/fstest"
	"time"

	"wa-lang.org/wa/api"
	"wa-lang.org/wa/internal/config"
	wasrc "wa-lang.org/wa/waroot/src"
)

// Call is one public-API call.
type Call struct {
	Op   string `json:"op"` // run | build | format | syntax
	Name string `json:"name"`
	Src  string `json:"src"`
}

// CallResult is what a caller of the public API observes.
type CallResult struct {
	Out   string `json:"out"`
	Err   string `json:"err"`
	Panic string `json:"panic,omitempty"`
	Start int64  `json:"start"` // ns since the round started (overlap measurement only)
	End   int64  `json:"end"`
}

func doCall(c Call) (r CallResult) {
	defer func() {
		if p := recover(); p != nil {
			r.Panic = fmt.Sprintf("%v\n%s", p, debug.Stack())
		}
	}()
	var err error
	switch c.Op {
	case "run":
		var out []byte
		out, err = api.RunCode(api.DefaultConfig(), c.Name, c.Src)
		r.Out = string(out)
	case "build":
		var wat []byte
		var main string
		main, wat, _, err = api.BuildFile(api.DefaultConfig(), c.Name, c.Src)
		r.Out = main + "\n" + h(wat)
	case "buildvfs":
		// the module form of the build API: an in-memory module (wa.mod + src/main.wa)
		ext := ".wa"
		if strings.HasSuffix(c.Name, ".wz") {
			ext = ".wz"
		}
		app := fstest.MapFS{
			"wa.mod":         &fstest.MapFile{Data: []byte("name = \"vfsapp\"\npkgpath = \"vfsapp\"\nversion = \"0.0.1\"\n")},
			"main" + ext:     &fstest.MapFile{Data: []byte(c.Src)},
		}
		vfs := &config.PkgVFS{App: app, Std: wasrc.GetStdFS(), Vendor: fstest.MapFS{}}
		var wat []byte
		wat, err = api.BuildVFS(api.DefaultConfig(), vfs, ".")
		r.Out = h(wat)
	case "format":
		r.Out, err = api.FormatCode(c.Name, c.Src)
	case "syntax":
		r.Out = api.GetCodeSyntax(c.Name, []byte(c.Src))
	default:
		err = fmt.Errorf("unknown op %q", c.Op)
	}
	if err != nil {
		r.Err = err.Error()
	}
	return
}

type concArgs struct {
	Calls      []Call `json:"calls"`
	Goroutines int    `json:"goroutines"`
	Offsets    []int  `json:"offsets"` // per call: spin iterations before starting (drawn by the generator)
	Sequential bool   `json:"sequential"`
}

func init() {
	// concurrent: run the calls one by one (Sequential) or from Goroutines goroutines released by a barrier.
	register("concurrent", func(raw json.RawMessage) (interface{}, error) {
		var a concArgs
		if err := json.Unmarshal(raw, &a); err != nil {
			return nil, err
		}
		res := make([]CallResult, len(a.Calls))
		t0 := time.Now()
		if a.Sequential {
			for i, c := range a.Calls {
				res[i] = doCall(c)
			}
			return res, nil
		}
		g := a.Goroutines
		if g < 1 {
			g = 1
		}
		var next int64 = -1
		var wg sync.WaitGroup
		gate := make(chan struct{})
		for w := 0; w < g; w++ {
			wg.Add(1)
			go func() {
				defer wg.Done()
				<-gate
				for {
					i := int(atomic.AddInt64(&next, 1))
					if i >= len(a.Calls) {
						return
					}
					if i < len(a.Offsets) {
						x := 0
						for k := 0; k < a.Offsets[i]*1000; k++ {
							x += k
						}
						_ = x
					}
					s := time.Since(t0).Nanoseconds()
					r := doCall(a.Calls[i])
					r.Start, r.End = s, time.Since(t0).Nanoseconds()
					res[i] = r
				}
			}()
		}
		close(gate)
		wg.Wait()
		return res, nil
	})
}
