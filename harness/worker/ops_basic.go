package main

import (
	"encoding/json"
	"fmt"

	"wa-lang.org/wa/api"
	"wa-lang.org/wa/internal/config"
	"wa-lang.org/wa/internal/loader"
	"wa-lang.org/wa/internal/native/abi"
	nativeparser "wa-lang.org/wa/internal/native/parser"
	nativetoken "wa-lang.org/wa/internal/native/token"
	"wa-lang.org/wa/internal/native/wat2x64"
	"wa-lang.org/wa/internal/parser"
	"wa-lang.org/wa/internal/parser/w2parser"
	"wa-lang.org/wa/internal/token"
	watparser "wa-lang.org/wa/internal/wat/parser"
	"wa-lang.org/wa/internal/wat/watutil"
	"wa-lang.org/wa/internal/wat/watutil/wat2c"
	"wa-lang.org/wa/internal/wat/watutil/watfmt"
	"wa-lang.org/wa/internal/wat/watutil/watstrip"
	"wa-lang.org/wa/internal/wazero"
)

// Cfg is the subset of config.Config a request may set.
type Cfg struct {
	OS       string   `json:"os,omitempty"`
	Arch     string   `json:"arch,omitempty"`
	Tags     []string `json:"tags,omitempty"`
	Optimize bool     `json:"optimize,omitempty"`
	Debug    bool     `json:"debug,omitempty"`
	UnitTest bool     `json:"unit_test,omitempty"`
}

func (c Cfg) config() *config.Config {
	cfg := api.DefaultConfig()
	if c.OS != "" {
		cfg.TargetOS = c.OS
	}
	if c.Arch != "" {
		cfg.TargetArch = c.Arch
	}
	cfg.BuilgTags = c.Tags
	cfg.Optimize = c.Optimize
	cfg.Debug = c.Debug
	cfg.UnitTest = c.UnitTest
	return cfg
}

type srcArgs struct {
	Name string   `json:"name"`
	Src  string   `json:"src"`
	Cfg  Cfg      `json:"cfg"`
	Args []string `json:"args,omitempty"`
	CPU  string   `json:"cpu,omitempty"`
}

func decode(raw json.RawMessage) (a srcArgs, err error) {
	err = json.Unmarshal(raw, &a)
	return
}

// RunResult is the reply of op "run".
type RunResult struct {
	Stdout   string `json:"stdout"` // lossy when the output is not valid UTF-8; Raw is exact
	Raw      []byte `json:"raw"`
	ExitCode int    `json:"exit_code"`
	IsExit   bool   `json:"is_exit"` // err was a sys.ExitError (proc_exit / panic path)
	Stage    string `json:"stage"`   // which stage produced the error: build | assemble | run
}

func init() {
	// run = api.RunCode, split into its three stages so the oracle knows which one failed.
	register("run", func(raw json.RawMessage) (interface{}, error) {
		a, err := decode(raw)
		if err != nil {
			return nil, err
		}
		res := &RunResult{Stage: "build"}
		mainFunc, watBytes, fsetBytes, err := api.BuildFile(a.Cfg.config(), a.Name, a.Src)
		if err != nil {
			return res, err
		}
		res.Stage = "assemble"
		wasmBytes, err := watutil.Wat2Wasm(a.Name, watBytes)
		if err != nil {
			return res, err
		}
		res.Stage = "run"
		stdout, stderr, err := wazero.RunWasm(a.Name, wasmBytes, fsetBytes, mainFunc, a.Args...)
		res.Raw = append(stdout, stderr...)
		res.Stdout = string(res.Raw)
		if err != nil {
			if code, ok := wazero.AsExitError(err); ok {
				res.ExitCode, res.IsExit = code, true
			}
		}
		return res, err
	})
	// runcode = api.RunCode exactly as the public API exposes it.
	register("runcode", func(raw json.RawMessage) (interface{}, error) {
		a, err := decode(raw)
		if err != nil {
			return nil, err
		}
		out, err := api.RunCode(a.Cfg.config(), a.Name, a.Src, a.Args...)
		return map[string]string{"stdout": string(out)}, err
	})
	register("build", func(raw json.RawMessage) (interface{}, error) {
		a, err := decode(raw)
		if err != nil {
			return nil, err
		}
		mainFunc, wat, fset, err := api.BuildFile(a.Cfg.config(), a.Name, a.Src)
		return map[string]interface{}{"main": mainFunc, "wat": string(wat), "fset": fset}, err
	})
	register("format", func(raw json.RawMessage) (interface{}, error) {
		a, err := decode(raw)
		if err != nil {
			return nil, err
		}
		out, err := api.FormatCode(a.Name, a.Src)
		return map[string]string{"out": out}, err
	})
	register("syntax", func(raw json.RawMessage) (interface{}, error) {
		a, err := decode(raw)
		if err != nil {
			return nil, err
		}
		return map[string]string{"lang": api.GetCodeSyntax(a.Name, []byte(a.Src))}, nil
	})
	register("load", func(raw json.RawMessage) (interface{}, error) {
		a, err := decode(raw)
		if err != nil {
			return nil, err
		}
		_, err = loader.LoadProgramFile(a.Cfg.config(), a.Name, a.Src)
		return nil, err
	})
	register("parse_wa", func(raw json.RawMessage) (interface{}, error) {
		a, err := decode(raw)
		if err != nil {
			return nil, err
		}
		_, err = parser.ParseFile(nil, token.NewFileSet(), a.Name, a.Src, parser.AllErrors|parser.ParseComments)
		return nil, err
	})
	register("parse_wz", func(raw json.RawMessage) (interface{}, error) {
		a, err := decode(raw)
		if err != nil {
			return nil, err
		}
		_, err = w2parser.ParseFile(nil, token.NewFileSet(), a.Name, a.Src, w2parser.AllErrors|w2parser.ParseComments)
		return nil, err
	})
	register("wat_parse", func(raw json.RawMessage) (interface{}, error) {
		a, err := decode(raw)
		if err != nil {
			return nil, err
		}
		_, err = watparser.ParseModule(a.Name, []byte(a.Src))
		return nil, err
	})
	register("wat2wasm", func(raw json.RawMessage) (interface{}, error) {
		a, err := decode(raw)
		if err != nil {
			return nil, err
		}
		wasm, err := watutil.Wat2Wasm(a.Name, []byte(a.Src))
		return map[string]interface{}{"wasm": wasm}, err
	})
	register("watfmt", func(raw json.RawMessage) (interface{}, error) {
		a, err := decode(raw)
		if err != nil {
			return nil, err
		}
		out, err := watfmt.Format(a.Name, []byte(a.Src))
		return map[string]string{"out": string(out)}, err
	})
	register("watstrip", func(raw json.RawMessage) (interface{}, error) {
		a, err := decode(raw)
		if err != nil {
			return nil, err
		}
		out, err := watstrip.WatStrip(a.Name, []byte(a.Src))
		return map[string]string{"out": string(out)}, err
	})
	register("wat2c", func(raw json.RawMessage) (interface{}, error) {
		a, err := decode(raw)
		if err != nil {
			return nil, err
		}
		_, code, header, err := watutil.Wat2C(a.Name, []byte(a.Src), wat2c.Options{Prefix: "app"})
		return map[string]string{"code": string(code), "header": string(header)}, err
	})
	register("wat2x64", func(raw json.RawMessage) (interface{}, error) {
		a, err := decode(raw)
		if err != nil {
			return nil, err
		}
		_, code, err := wat2x64.Wat2X64(a.Name, []byte(a.Src), abi.X64Unix, "")
		return map[string]string{"asm": string(code)}, err
	})
	register("native_parse", func(raw json.RawMessage) (interface{}, error) {
		a, err := decode(raw)
		if err != nil {
			return nil, err
		}
		cpu, ok := cpuTypes[a.CPU]
		if !ok {
			return nil, fmt.Errorf("worker: unknown cpu %q", a.CPU)
		}
		_, err = nativeparser.ParseFile(cpu, nativetoken.NewFileSet(), a.Name, []byte(a.Src))
		return nil, err
	})
	register("ping", func(raw json.RawMessage) (interface{}, error) { return "pong", nil })
}

var cpuTypes = map[string]abi.CPUType{
	"loong64": abi.LOONG64, "riscv64": abi.RISCV64, "riscv32": abi.RISCV32,
	"x64": abi.X64Unix, "x64win": abi.X64Windows, "arm64": abi.ARM64,
}
