// Package c18 checks property C18 (PC-relative hi/lo splitting) against
// architectural models of the instruction pairs that consume the two parts.
// The models below are written from the ISA manuals and deliberately do not
// call anything in internal/native/pcrel.
package c18

// rv32AuipcAddi is what `auipc rd, imm20 ; addi rd, rd, imm12` leaves in rd
// on RV32 (RISC-V unprivileged spec, "Integer Computational Instructions"):
// auipc forms a 32-bit offset from the 20-bit U-immediate, filling the low 12
// bits with zeros, and adds it to pc; addi adds the sign-extended 12-bit
// I-immediate. imm20/imm12 are the raw instruction fields.
func rv32AuipcAddi(pc uint32, imm20, imm12 uint32) uint32 {
	rd := pc + (imm20&0xFFFFF)<<12
	return rd + uint32(sext(uint64(imm12&0xFFF), 12))
}

// rv64AuipcAddi is the same pair on RV64: the 32-bit U-offset is
// sign-extended to 64 bits before the addition.
func rv64AuipcAddi(pc uint64, imm20, imm12 uint32) uint64 {
	off := uint64(int64(int32((imm20 & 0xFFFFF) << 12)))
	return pc + off + uint64(sext(uint64(imm12&0xFFF), 12))
}

// rv32LuiAddi is `lui rd, imm20 ; addi rd, rd, imm12` (absolute address).
func rv32LuiAddi(imm20, imm12 uint32) uint32 {
	return rv32AuipcAddi(0, imm20, imm12)
}

// la64Pcalau12iAddi is `pcalau12i rd, si20 ; addi.d rd, rd, si12` (also the
// address formed by `ld.d rd, rd, si12`), LoongArch reference manual vol. 1
// §2.2.1.5 / §2.2.1.1:
//
//	pcalau12i: GR[rd] = {(PC + SignExtend({si20, 12'b0}, 64))[63:12], 12'b0}
//	addi.d:    GR[rd] = GR[rj] + SignExtend(si12, 64)
func la64Pcalau12iAddi(pc uint64, si20, si12 uint32) uint64 {
	off := uint64(sext(uint64(si20&0xFFFFF)<<12, 32))
	rd := (pc + off) &^ 0xFFF
	return rd + uint64(sext(uint64(si12&0xFFF), 12))
}

// sext sign-extends the low `bits` bits of v.
func sext(v uint64, bits uint) int64 {
	return int64(v<<(64-bits)) >> (64 - bits)
}

// Ranges the assemblers accept for the two immediates before masking them
// into the instruction word (internal/native/riscv/opcode.go _ImmRanges_UType /
// _ImmRanges_IType, internal/native/loong64/encode.go OpFormatType_1R_si20 /
// OpFormatType_2R_si12). A part outside these cannot be emitted at all.
const (
	rvHiMin, rvHiMax = -(1 << 19), 1<<20 - 1 // a 20-bit field read signed or unsigned
	rvLoMin, rvLoMax = -2048, 2047           // property text: low part in [-2048, 2047]
	laHiMin, laHiMax = -(1 << 19), 1<<20 - 1
	laLoMin, laLoMax = -(1 << 11), 1<<12 - 1
)
