package c18

import (
	"encoding/json"
	"fmt"
	"strconv"
	"testing"

	"pgregory.net/rapid"
	"wa-lang.org/wa/internal/native/pcrel"
	"wa-lang.org/wa/zverif/harness/core"
)

const prop = "C18"

func TestMain(m *testing.M) { core.Main(m) }

// ---------------------------------------------------------------- oracle

// kase is the replayable form of one case. Numbers are decimal strings so
// 64-bit values survive JSON.
type kase struct {
	Op string `json:"op"`          // "rv" | "la64" | "la64-bulk" | "rv-bulk"
	A  string `json:"a"`           // rv: delta (int32)      la64: pc (int64)      bulk: stream seed (uint64)
	B  string `json:"b"`           // rv: pc (uint32)        la64: target (int64)  bulk: pair count
	N  string `json:"n,omitempty"` // free-form note for the reader of the replay file
}

func rvKase(delta int32, pc uint32) kase {
	return kase{Op: "rv", A: strconv.FormatInt(int64(delta), 10), B: strconv.FormatUint(uint64(pc), 10),
		N: fmt.Sprintf("delta=%#x pc=%#x", uint32(delta), pc)}
}

func laKase(pc, target int64) kase {
	return kase{Op: "la64", A: strconv.FormatInt(pc, 10), B: strconv.FormatInt(target, 10),
		N: fmt.Sprintf("pc=%#x target=%#x target-page(pc)=%d", uint64(pc), uint64(target), target-(pc&^0xFFF))}
}

// checkRv evaluates every RISC-V clause of the property for one (delta, pc):
// SplitOffset, CombineOffset, GetTargetAddress, MakePCRel and MakeAbs.
// All address arithmetic is modulo 2^32 (32-bit offsets, 32-bit pcs).
func checkRv(delta int32, pc uint32) (key, what string) {
	want := pc + uint32(delta)

	hi, lo := pcrel.SplitOffset(delta)
	if k, w := rvPair("SplitOffset", hi, lo, pc, want, delta); k != "" {
		return k, w
	}
	if got := pcrel.CombineOffset(hi, lo); got != delta {
		return "rv/CombineOffset", fmt.Sprintf("CombineOffset(SplitOffset(%d)) = CombineOffset(%d, %d) = %d", delta, hi, lo, got)
	}
	if got := pcrel.GetTargetAddress(pc, hi, lo); got != want {
		return "rv/GetTargetAddress", fmt.Sprintf("GetTargetAddress(pc=%#x, hi=%d, lo=%d) = %#x, want pc+delta = %#x (delta=%d)", pc, hi, lo, got, want, delta)
	}

	// MakePCRel with the target given as the wrapped 32-bit address and as the
	// unwrapped 64-bit sum: both differ from pc by delta modulo 2^32.
	for _, target := range [2]int64{int64(want), int64(pc) + int64(delta)} {
		h2, l2 := pcrel.MakePCRel(target, int64(pc))
		if k, _ := rvPair("", h2, l2, pc, want, delta); k != "" { // (the text is only formatted on failure: this runs 2^33 times in the sweep)
			return rvPair(fmt.Sprintf("MakePCRel(target=%#x, pc=%#x)", target, pc), h2, l2, pc, want, delta)
		}
	}

	// MakeAbs: lui+addi must rebuild the absolute 32-bit address.
	addr := uint32(delta)
	ha, la := pcrel.MakeAbs(addr)
	if la < rvLoMin || la > rvLoMax {
		return "rv/abs/lo-out-of-range", fmt.Sprintf("MakeAbs(%#x) = (hi=%d, lo=%d): lo outside [-2048, 2047]", addr, ha, la)
	}
	if ha < rvHiMin || ha > rvHiMax {
		return "rv/abs/hi-not-20-bit", fmt.Sprintf("MakeAbs(%#x) = (hi=%d, lo=%d): hi is not a 20-bit field value", addr, ha, la)
	}
	if got := rv32LuiAddi(uint32(ha), uint32(la)); got != addr {
		return "rv/abs/recombine", fmt.Sprintf("MakeAbs(%#x) = (hi=%d, lo=%d): lui+addi gives %#x", addr, ha, la, got)
	}
	return "", ""
}

func rvPair(who string, hi, lo int32, pc, want uint32, delta int32) (key, what string) {
	if lo < rvLoMin || lo > rvLoMax {
		return "rv/lo-out-of-range", fmt.Sprintf("%s delta=%d: lo=%d outside [-2048, 2047] (hi=%d)", who, delta, lo, hi)
	}
	if hi < rvHiMin || hi > rvHiMax {
		return "rv/hi-not-20-bit", fmt.Sprintf("%s delta=%d: hi=%d is not a 20-bit field value (lo=%d)", who, delta, hi, lo)
	}
	if got := rv32AuipcAddi(pc, uint32(hi), uint32(lo)); got != want {
		return "rv/recombine", fmt.Sprintf("%s delta=%d (%#x): auipc %#x; addi %d at pc=%#x computes %#x, want %#x", who, delta, uint32(delta), uint32(hi)&0xFFFFF, lo, pc, got, want)
	}
	return "", ""
}

func rvNontrivial(delta int32) bool { return delta&0x800 != 0 || delta < 0 }

// LoongArch: what pcalau12i+addi.d can reach, relative to the page of pc.
const (
	laDMin = -(1 << 31) - (1 << 11)    // si20 = -2^19, si12 = -2048
	laDMax = (1 << 31) - (1 << 11) - 1 // si20 = 2^19-1, si12 = 2047
)

// laDelta is target - page(pc) with wrap-around, and whether the pair of
// instructions can reach it at all.
func laDelta(pc, target int64) (d int64, reachable bool) {
	d = target - (pc &^ 0xFFF)
	return d, d >= laDMin && d <= laDMax
}

// checkLa64 evaluates the LoongArch clause for one reachable (pc, target).
func checkLa64(pc, target int64) (key, what string) {
	hi, lo := pcrel.MakeLa64PCRel(target, pc)
	d, _ := laDelta(pc, target)
	if hi < laHiMin || hi > laHiMax || lo < laLoMin || lo > laLoMax {
		return "la64/field-range", fmt.Sprintf("MakeLa64PCRel(target=%#x, pc=%#x) = (hi20=%d, lo12=%d): not encodable as si20/si12 (target-page(pc)=%d)", uint64(target), uint64(pc), hi, lo, d)
	}
	if got := la64Pcalau12iAddi(uint64(pc), uint32(hi), uint32(lo)); got != uint64(target) {
		return "la64/cpu-model", fmt.Sprintf("MakeLa64PCRel(target=%#x, pc=%#x) = (hi20=%#x, lo12=%#x): pcalau12i+addi.d computes %#x (target-page(pc)=%d)", uint64(target), uint64(pc), hi, lo, got, d)
	}
	if got := pcrel.GetTargetAddressLa64(pc, hi, lo); got != target {
		return "la64/GetTargetAddressLa64" + laCause(d), fmt.Sprintf("GetTargetAddressLa64(pc=%#x, MakeLa64PCRel(target=%#x, pc)) = GetTargetAddressLa64(pc, %#x, %#x) = %#x, want the target (target-page(pc)=%d; the CPU model does reach the target)", uint64(pc), uint64(target), hi, lo, uint64(got), d)
	}
	return "", ""
}

// laClass names the structural cause classes of a LoongArch case.
func laClass(d int64) string {
	switch {
	case d < 0 && d&0x800 != 0:
		return "/neg+lo>=0x800"
	case d < 0:
		return "/neg"
	case d&0x800 != 0:
		return "/lo>=0x800"
	}
	return "/plain"
}

// laCause names the root cause when the repository's own CPU model
// (GetTargetAddressLa64) disagrees with the manual: a low part >= 0x800 is only
// right when si12 is sign-extended; a negative delta with a low part < 0x800
// only when si20 is.
func laCause(d int64) string {
	switch {
	case d&0x800 != 0:
		return "/si12-not-sign-extended"
	case d < 0:
		return "/si20-not-sign-extended"
	}
	return "/plain"
}

func laNontrivial(d int64) bool { return d&0x800 != 0 || d < 0 }

// ---------------------------------------------------------------- generators

// genDelta: boundary-biased int32 offsets.
func genDelta() *rapid.Generator[int32] {
	return rapid.Custom(func(t *rapid.T) int32 {
		switch rapid.IntRange(0, 5).Draw(t, "dclass") {
		case 0: // around a page multiple, low part biased to the sign boundary
			page := rapid.Int32Range(-(1 << 19), 1<<19-1).Draw(t, "page")
			lo := rapid.SampledFrom([]int32{0, 1, 0x7fe, 0x7ff, 0x800, 0x801, 0xffe, 0xfff}).Draw(t, "lo")
			return page<<12 + lo
		case 1: // int32 limits and the RV64-unreachable top window
			base := rapid.SampledFrom([]int64{-1 << 31, 1<<31 - 1, 1<<31 - 2048, 1<<31 - 2049, 0, -2048, -2049, 2047, 2048}).Draw(t, "lim")
			d := rapid.Int64Range(-3, 3).Draw(t, "d")
			return int32(base + d)
		case 2: // powers of two
			k := rapid.UintRange(0, 31).Draw(t, "k")
			v := int32(1)<<k + rapid.Int32Range(-2, 2).Draw(t, "d")
			if rapid.Bool().Draw(t, "neg") {
				v = -v
			}
			return v
		case 3:
			return rapid.Int32Range(-5000, 5000).Draw(t, "small")
		default:
			return rapid.Int32().Draw(t, "any")
		}
	})
}

func genPC32() *rapid.Generator[uint32] {
	return rapid.Custom(func(t *rapid.T) uint32 {
		if rapid.Bool().Draw(t, "pcany") {
			return rapid.Uint32().Draw(t, "pc")
		}
		base := rapid.SampledFrom([]uint32{0, 0x7ff, 0x800, 0xfff, 0x1000, 0x7ffff800, 0x80000000, 0xfffff000, 0xfffff800, 0xffffffff}).Draw(t, "pcbase")
		return base + uint32(rapid.Int32Range(-4, 4).Draw(t, "pcd"))
	})
}

var pageOffsets = []int64{0, 1, 4, 0x7fc, 0x7ff, 0x800, 0x801, 0xffc, 0xfff}

// genPC64: any 64-bit pc; page number biased to address-space landmarks, page
// offset biased to 0 / 0x7ff / 0x800 / 0xfff.
func genPC64() *rapid.Generator[int64] {
	return rapid.Custom(func(t *rapid.T) int64 {
		var page int64
		switch rapid.IntRange(0, 3).Draw(t, "pgclass") {
		case 0:
			page = rapid.SampledFrom([]int64{0, 1, 0x7ffff, 0x80000, 0xfffff, 0x100000, 0x120000, 1<<51 - 1, -(1 << 51), -1, -0x80000, -0x80001}).Draw(t, "pg")
		case 1:
			page = rapid.Int64Range(0, 1<<22).Draw(t, "pglow")
		default:
			page = rapid.Int64Range(-(1 << 51), 1<<51-1).Draw(t, "pgany")
		}
		var off int64
		if rapid.IntRange(0, 3).Draw(t, "offclass") == 0 {
			off = rapid.Int64Range(0, 0xfff).Draw(t, "offany")
		} else {
			off = rapid.SampledFrom(pageOffsets).Draw(t, "off")
		}
		return page<<12 | off
	})
}

// genLaDelta: target - page(pc), boundary-biased over the reachable range and a
// little beyond it on both sides (the excess is rejected and counted).
func genLaDelta() *rapid.Generator[int64] {
	return rapid.Custom(func(t *rapid.T) int64 {
		switch rapid.IntRange(0, 4).Draw(t, "dclass") {
		case 0: // page multiple + boundary low part
			page := rapid.Int64Range(-(1 << 19), 1<<19-1).Draw(t, "page")
			lo := rapid.SampledFrom([]int64{0, 1, 0x7fe, 0x7ff, 0x800, 0x801, 0xffe, 0xfff}).Draw(t, "lo")
			return page<<12 + lo
		case 1: // the edges of the reachable range
			base := rapid.SampledFrom([]int64{laDMin, laDMax, -(1 << 31), 1<<31 - 1, 1<<31 - 4096, -(1 << 31) + 4096}).Draw(t, "edge")
			return base + rapid.Int64Range(-2050, 2050).Draw(t, "d")
		case 2: // around zero
			return rapid.SampledFrom([]int64{0, 0x7ff, 0x800, 0xfff, 0x1000, -0x7ff, -0x800, -0x801, -0xfff, -0x1000, -0x1001}).Draw(t, "zero") + rapid.Int64Range(-2, 2).Draw(t, "d")
		default:
			return rapid.Int64Range(laDMin, laDMax).Draw(t, "any")
		}
	})
}

// ---------------------------------------------------------------- RISC-V tests

// TestRvSplitSweep enumerates int32 offsets: all 2^32 in the thorough tier,
// boundary windows and a low×high grid in the quick tier.
func TestRvSplitSweep(t *testing.T) {
	s := core.NewStats(prop, "RvSplitSweep")
	defer s.Flush()
	sh, n := core.Shard()
	var evals, nontriv, rv64Unreachable int64
	check := func(delta int32) {
		pc := uint32(core.SplitMix(uint64(uint32(delta)))) // a pc that varies with the case; the sum is taken modulo 2^32
		evals++
		if key, what := checkRv(delta, pc); key != "" {
			c := s.NewCase(t)
			c.Set(rvKase(delta, pc))
			c.Fail(key, "%s", what)
		}
		if rvNontrivial(delta) {
			nontriv++
			if nontriv&0xFFFFF == 1 || !core.Thorough() && nontriv&0x3FF == 1 {
				s.Nontrivial(core.Hash64("rv", delta))
				s.Sample(rvKase(delta, pc))
			}
		}
		// Observation, not part of the property (32-bit offsets are recombined modulo 2^32):
		hi, lo := pcrel.SplitOffset(delta)
		if rv64AuipcAddi(uint64(pc), uint32(hi), uint32(lo)) != uint64(pc)+uint64(int64(delta)) {
			rv64Unreachable++
		}
	}
	if core.Thorough() {
		s.Rule("enumeration of all 2^32 int32 offsets (exhaustive, sharded) through SplitOffset / CombineOffset / GetTargetAddress / MakePCRel / MakeAbs; oracle = lo in [-2048,2047], hi a 20-bit field, and the harness's own auipc+addi / lui+addi model (mod 2^32) reaches pc+delta; non-trivial = low part has bit 11 set (carry into hi) or delta negative (counted exactly in counter nontrivial_enumerated; distinct_nontrivial holds a 1-in-2^20 hashed subsample)")
		s.Exhaustive(true)
		lo := uint64(sh) << 32 / uint64(n)
		hi := uint64(sh+1) << 32 / uint64(n)
		for u := lo; u < hi; u++ {
			check(int32(uint32(u)))
		}
	} else {
		s.Rule("enumeration (quick-tier window of the thorough tier's exhaustive 2^32 sweep): every offset within ±4096 of each multiple of 2^27 and of the int32 wrap, plus all 2^12 low parts × 256 high parts; same oracle as the thorough sweep; non-trivial = low part has bit 11 set or delta negative (exact count in nontrivial_enumerated, 1-in-1024 hashed subsample in distinct_nontrivial)")
		for k := 0; k <= 32; k++ {
			if k%n != sh {
				continue
			}
			base := uint32(uint64(k) << 27)
			for d := -4096; d <= 4096; d++ {
				check(int32(base + uint32(d)))
			}
		}
		for h := 0; h < 256; h++ {
			if h%n != sh {
				continue
			}
			// high parts: spread over the 20-bit space including both ends
			hiPart := uint32(core.SplitMix(uint64(h))) & 0xFFFFF
			switch h {
			case 0:
				hiPart = 0
			case 1:
				hiPart = 0xFFFFF
			case 2:
				hiPart = 0x7FFFF
			case 3:
				hiPart = 0x80000
			}
			for lo := uint32(0); lo < 4096; lo++ {
				check(int32(hiPart<<12 | lo))
			}
		}
	}
	s.Eval(evals)
	s.Counter("nontrivial_enumerated", nontriv)
	s.Counter("observation/rv64_sign_extended_auipc_would_miss_target", rv64Unreachable)
	if rv64Unreachable > 0 {
		s.Note("observation (outside C18, which recombines 32-bit offsets modulo 2^32): for offsets in [0x7ffff800, 0x7fffffff] SplitOffset returns hi=0x80000, which an RV64 auipc sign-extends to -2^31, so on RV64 the pair lands 2^32 below the target; the assembler accepts the value silently")
	}
}

// TestRvPCRel draws (pc, delta) pairs with boundary bias.
func TestRvPCRel(t *testing.T) {
	s := core.NewStats(prop, "RvPCRel")
	s.Rule("rapid: 32-bit pc (landmarks ±4 or any) × boundary-biased int32 delta (page multiples with low part 0/0x7ff/0x800/0xfff, int32 limits, ±2^k, small, any); oracle as in RvSplitSweep; non-trivial = low part has bit 11 set or delta negative, distinct by (delta, pc)")
	s.Check(t, func(t *rapid.T, c *core.Case) {
		pc := genPC32().Draw(t, "pc")
		delta := genDelta().Draw(t, "delta")
		c.Set(rvKase(delta, pc))
		switch {
		case delta < 0 && delta&0x800 != 0:
			c.Class("neg+carry")
		case delta < 0:
			c.Class("neg")
		case delta&0x800 != 0:
			c.Class("carry")
		default:
			c.Class("plain")
		}
		if uint64(pc)+uint64(int64(delta)) >= 1<<32 {
			c.Class("pc+delta-wraps-32-bit")
		}
		if delta >= 1<<31-2048 {
			c.Class("top-2KiB(hi=0x80000)")
		}
		if key, what := checkRv(delta, pc); key != "" {
			c.Fail(key, "%s", what)
		}
		if rvNontrivial(delta) {
			c.Nontrivial("rv", delta, pc)
		}
	})
}

// ---------------------------------------------------------------- LoongArch tests

func la64Case(s *core.Stats, c *core.Case, pc, d int64) {
	target := (pc &^ 0xFFF) + d // wraps modulo 2^64 like the hardware adder
	c.Set(laKase(pc, target))
	if _, ok := laDelta(pc, target); !ok {
		s.Counter("rejected_by_domain/target_not_reachable_by_pcalau12i+si12", 1)
		c.Class("rejected:unreachable")
		if d >= laDMax+1 && d < 1<<31 {
			// Observation only: inside "±2 GiB of the page" but beyond what si20/si12 can express.
			hi, lo := pcrel.MakeLa64PCRel(target, pc)
			if la64Pcalau12iAddi(uint64(pc), uint32(hi), uint32(lo)) != uint64(target) {
				s.Counter("observation/la64_top_2KiB_silently_wrapped", 1)
			}
		}
		return
	}
	c.Class("d" + laClass(d))
	switch pc & 0xFFF {
	case 0:
		c.Class("pcoff=0")
	case 0x7ff, 0x800, 0xfff:
		c.Class(fmt.Sprintf("pcoff=%#x", pc&0xFFF))
	}
	if d < -(1 << 31) {
		c.Class("below -2^31 (si20=-2^19, si12<0)")
	}
	if uint64(pc)>>47 != 0 && uint64(pc)>>47 != 0x1ffff {
		c.Class("pc-outside-48-bit-canonical")
	}
	if key, what := checkLa64(pc, target); key != "" {
		c.Fail(key, "%s", what)
	}
	if laNontrivial(d) {
		c.Nontrivial("la64", pc, target)
	}
}

func TestLa64PCRel(t *testing.T) {
	s := core.NewStats(prop, "La64PCRel")
	s.Rule("rapid: any 64-bit pc (page number landmarks/any, page offset biased to 0/0x7ff/0x800/0xfff) × target-page(pc) boundary-biased over the whole range pcalau12i+si12 can reach, [-2^31-2048, 2^31-2049] (values beyond are rejected and counted); oracle = harness model of pcalau12i+addi.d from the LoongArch manual reaches the target, both parts encodable, and GetTargetAddressLa64 inverts MakeLa64PCRel; non-trivial = low 12 bits >= 0x800 (carry into hi20) or negative delta, distinct by (pc, target)")
	s.Assume("the encodable ranges of si20/si12 are the ones internal/native/loong64/encode.go asserts before masking: [-2^19, 2^20) and [-2^11, 2^12)")
	s.Note("observation (outside C18's LoongArch domain): for target-page(pc) in [2^31-2048, 2^31) no (si20, si12) pair exists; MakeLa64PCRel does not report this but returns hi20=0x80000, which the CPU sign-extends, so the emitted pair addresses target-2^32 (counter observation/la64_top_2KiB_silently_wrapped)")
	s.Check(t, func(t *rapid.T, c *core.Case) {
		pc := genPC64().Draw(t, "pc")
		d := genLaDelta().Draw(t, "d")
		la64Case(s, c, pc, d)
	})
}

// TestLa64Grid enumerates boundary windows exhaustively: every page offset
// landmark of pc × every delta within ±4100 of 0 and of both range edges, and
// all 4096 low parts under 64 high parts.
func TestLa64Grid(t *testing.T) {
	s := core.NewStats(prop, "La64Grid")
	defer s.Flush()
	s.Rule("enumeration: pc = {page 0, 0x120000, 0x7ffff, 2^51-1, -1, -2^51} × page offset landmarks; target-page(pc) = every value within ±4100 of 0, of -2^31, of the lower edge -2^31-2048 and of the upper edge 2^31-2049 (clipped to the reachable range), and 64 high parts × all 4096 low parts; oracle as in La64PCRel; non-trivial = low 12 bits >= 0x800 or negative delta (exact count in nontrivial_enumerated, hashed 1-in-256 subsample)")
	sh, n := core.Shard()
	pages := []int64{0, 0x120000, 0x7ffff, 1<<51 - 1, -1, -(1 << 51)}
	var evals, nontriv, rejected int64
	idx := 0
	check := func(pc, d int64) {
		target := (pc &^ 0xFFF) + d
		if _, ok := laDelta(pc, target); !ok {
			rejected++
			return
		}
		evals++
		if key, what := checkLa64(pc, target); key != "" {
			c := s.NewCase(t)
			c.Set(laKase(pc, target))
			c.Fail(key, "%s", what)
		}
		if laNontrivial(d) {
			nontriv++
			if nontriv&0xFF == 1 {
				s.Nontrivial(core.Hash64("la64", pc, target))
				s.Sample(laKase(pc, target))
			}
		}
	}
	for _, page := range pages {
		for _, off := range pageOffsets {
			idx++
			if idx%n != sh {
				continue
			}
			pc := page<<12 | off
			for _, centre := range []int64{0, -(1 << 31), laDMin, laDMax} {
				for d := centre - 4100; d <= centre+4100; d++ {
					check(pc, d)
				}
			}
			for h := 0; h < 64; h++ {
				hiPart := int64(core.SplitMix(uint64(h)+uint64(idx)<<8)&0xFFFFF) - 1<<19
				for lo := int64(0); lo < 4096; lo++ {
					check(pc, hiPart<<12+lo)
				}
			}
		}
	}
	s.Eval(evals)
	s.Counter("nontrivial_enumerated", nontriv)
	s.Counter("rejected_by_domain/target_not_reachable_by_pcalau12i+si12", rejected)
}

// TestLa64Bulk turns one rapid draw into a stream of uniformly distributed
// (pc, target) pairs: volume behind the boundary-biased tests.
func TestLa64Bulk(t *testing.T) {
	s := core.NewStats(prop, "La64Bulk")
	per := core.Scale(1000, 4000)
	s.Rule(fmt.Sprintf("rapid draws a 64-bit stream seed; each case expands it with SplitMix64 into %d pairs (pc uniform over 64 bits, target-page(pc) uniform over the reachable range); oracle as in La64PCRel per pair; evaluations counts pairs; non-trivial = low 12 bits >= 0x800 or negative delta (exact count in nontrivial_pairs; distinct_nontrivial counts distinct stream seeds whose first pair is non-trivial)", per))
	s.Check(t, func(t *rapid.T, c *core.Case) {
		seed := rapid.Uint64().Draw(t, "seed")
		c.Set(kase{Op: "la64-bulk", A: strconv.FormatUint(seed, 10), B: strconv.Itoa(per)})
		pc, target, key, what, nt := la64Bulk(seed, per)
		s.Eval(int64(per - 1)) // c.Done adds the last one
		s.Counter("nontrivial_pairs", nt)
		if key != "" {
			c.Set(laKase(pc, target)) // replay the single failing pair, not the stream
			c.Fail(key, "%s", what)
		}
		pc0, t0 := bulkPair(seed, 0)
		if d, _ := laDelta(pc0, t0); laNontrivial(d) {
			c.Nontrivial("la64-bulk", seed)
		}
	})
}

func bulkPair(seed uint64, i int) (pc, target int64) {
	x := core.SplitMix(seed + uint64(2*i))
	y := core.SplitMix(seed + uint64(2*i) + 1)
	pc = int64(x)
	d := laDMin + int64(y%uint64(laDMax-laDMin+1))
	return pc, (pc &^ 0xFFF) + d
}

func la64Bulk(seed uint64, n int) (pc, target int64, key, what string, nontriv int64) {
	for i := 0; i < n; i++ {
		pc, target = bulkPair(seed, i)
		d, _ := laDelta(pc, target)
		if laNontrivial(d) {
			nontriv++
		}
		if key, what = checkLa64(pc, target); key != "" {
			return
		}
	}
	return 0, 0, "", "", nontriv
}

// ---------------------------------------------------------------- replay

func replay(test string, raw json.RawMessage) (string, string) {
	var k kase
	if err := json.Unmarshal(raw, &k); err != nil {
		return "harness/bad-replay", err.Error()
	}
	switch k.Op {
	case "rv":
		d, err1 := strconv.ParseInt(k.A, 10, 64)
		pc, err2 := strconv.ParseUint(k.B, 10, 64)
		if err1 != nil || err2 != nil {
			return "harness/bad-replay", fmt.Sprint(err1, err2)
		}
		return checkRv(int32(d), uint32(pc))
	case "la64":
		pc, err1 := strconv.ParseInt(k.A, 10, 64)
		target, err2 := strconv.ParseInt(k.B, 10, 64)
		if err1 != nil || err2 != nil {
			return "harness/bad-replay", fmt.Sprint(err1, err2)
		}
		if _, ok := laDelta(pc, target); !ok {
			return "", ""
		}
		return checkLa64(pc, target)
	case "la64-bulk":
		seed, err1 := strconv.ParseUint(k.A, 10, 64)
		n, err2 := strconv.Atoi(k.B)
		if err1 != nil || err2 != nil {
			return "harness/bad-replay", fmt.Sprint(err1, err2)
		}
		_, _, key, what, _ := la64Bulk(seed, n)
		return key, what
	}
	return "harness/bad-replay", "unknown op " + k.Op
}

func TestReplay(t *testing.T) { core.RunReplays(t, prop, replay) }
