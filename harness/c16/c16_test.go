package c16

import (
	"time"
	"encoding/json"
	"fmt"
	"os"
	"path/filepath"
	"regexp"
	"strings"
	"testing"

	"pgregory.net/rapid"
	"wa-lang.org/wa/zverif/harness/core"
	"wa-lang.org/wa/zverif/harness/nodeval"
	"wa-lang.org/wa/zverif/harness/wagen"
	"wa-lang.org/wa/zverif/harness/wk"
)

const prop = "C16"

func TestMain(m *testing.M) { core.Main(m) }

type kase struct {
	Name     string   `json:"name"`
	Src      string   `json:"src"`
	Features []string `json:"features,omitempty"`
}

type bvResult struct {
	Stage string `json:"stage"`
	Wat   string `json:"wat"`
	Wasm  []byte `json:"wasm"`
}

var (
	worker *wk.Client
	v8     *nodeval.V
)

func getWorker() *wk.Client {
	if worker == nil {
		worker = wk.New(wk.Options{CPULimit: 150 * time.Second}) // generous: the budget only separates "slow on a loaded machine" from "does not terminate"
	}
	return worker
}

func getV8(t core.TB) *nodeval.V {
	if v8 == nil {
		var err error
		if v8, err = nodeval.New(); err != nil {
			t.Fatalf("node (V8 validator) unavailable: %v", err)
		}
	}
	return v8
}

var fatalRe = regexp.MustCompile(`([a-z_0-9]+\.go):\d+: (.*)`)

// crashKey condenses a compiler crash to "file.go: message" / innermost frame.
func crashKey(o wk.Outcome) string {
	if o.Kind == wk.Panic {
		return "panic:" + core.PanicFrame(o.Stack)
	}
	if m := fatalRe.FindStringSubmatch(o.Output); m != nil {
		msg := m[2]
		if len(msg) > 60 {
			msg = msg[:60]
		}
		return "fatal:" + m[1] + ": " + msg
	}
	if strings.Contains(o.Output, "goroutine stack exceeds") || strings.Contains(o.Output, "stack overflow") {
		return "exited:stack-overflow"
	}
	return fmt.Sprintf("exited:code=%d%s", o.ExitCode, o.Signal)
}

// judge returns (key, what, domain): domain != "" means the type checker
// rejected the program, i.e. it is outside the quantifier.
func judge(t core.TB, k kase) (key, what, domain string) {
	o := getWorker().Do("build_validate", wk.Src{Name: k.Name, Src: k.Src})
	if o.Kind == wk.Exited && !fatalRe.MatchString(o.Output) {
		// not a logger.Fatal: a long-lived worker can die of address-space exhaustion;
		// only a death that repeats in a fresh process is attributed to the program
		o = getWorker().Do("build_validate", wk.Src{Name: k.Name, Src: k.Src})
	}
	var r bvResult
	o.Decode(&r)
	switch o.Kind {
	case wk.OK:
		msg, err := getV8(t).Validate(r.Wasm)
		if err != nil {
			return "", "", "inconclusive: " + err.Error()
		}
		if msg != "" {
			return "invalid-wasm/v8", "the type checker accepted the program and the backend compiled it, but V8 rejects the module: " + msg, ""
		}
		return "", "", ""
	case wk.Error:
		switch r.Stage {
		case "load":
			return "", "", "type-check-rejected: " + firstLine(o.Err)
		case "build":
			if strings.Contains(o.Err, "unsupported") || strings.Contains(o.Err, "not supported") {
				return "", "", "documented-unsupported: " + firstLine(o.Err)
			}
			return "build-error", "type check passed, compile returned an error that names no unsupported construct: " + firstLine(o.Err), ""
		case "assemble":
			return "invalid-wat/assembler", "compiler output does not assemble: " + firstLine(o.Err), ""
		case "validate":
			return "invalid-wasm/wazero", "compiled module fails wazero validation: " + firstLine(o.Err), ""
		}
		return "", "", "inconclusive: " + o.Err
	case wk.Panic, wk.Exited:
		stage := r.Stage
		if stage == "" {
			stage = "unknown-stage"
		}
		return crashKey(o), fmt.Sprintf("compiler crashed (%s): %s", o.Kind, firstLines(o.String()+"\n"+o.Stack, 12)), ""
	case wk.Killed:
		return "nontermination", "compilation exceeded the CPU budget: " + o.String(), ""
	}
	return "", "", "inconclusive: " + o.String()
}

func firstLine(s string) string { return firstLines(s, 2) }

func firstLines(s string, n int) string {
	ls := strings.Split(strings.TrimSpace(s), "\n")
	if len(ls) > n {
		ls = ls[:n]
	}
	return strings.Join(ls, "\n")
}

func saveDebug(kind string, k kase, note string) {
	dir := os.Getenv("VERIF_DEBUG_DIR")
	if dir == "" {
		return
	}
	os.MkdirAll(dir, 0o755)
	h := core.Hash64(k.Src)
	os.WriteFile(filepath.Join(dir, fmt.Sprintf("%s-%x%s", kind, h, filepath.Ext(k.Name))), []byte(k.Src), 0o644)
	os.WriteFile(filepath.Join(dir, fmt.Sprintf("%s-%x.txt", kind, h)), []byte(note), 0o644)
}

func TestGenerated(t *testing.T) {
	s := core.NewStats(prop, "Generated")
	s.Rule("rapid-drawn typed programs (harness/wagen, larger budgets and deeper expressions than C01, .wa and .wz renderings); domain = programs loader.LoadProgramFile accepts; oracle = api.BuildFile neither panics nor exits (logger.Fatal) nor returns a non-'unsupported' error, the WAT assembles, and the binary validates in the vendored wazero AND in V8; non-trivial = ≥ 4 feature classes beyond plain arithmetic; distinct by source hash")
	s.Assume("V8 (node v20) and wazero stand in for a standard validator (WABT is not installed)")
	var judged, out int64
	s.Check(t, func(t *rapid.T, c *core.Case) {
		wz := rapid.IntRange(0, 3).Draw(t, "wz") == 0
		p := wagen.Gen(t, wagen.Options{MaxStmts: 60, MaxFuncs: 6, Depth: 4, NoLabels: wz})
		k := kase{Name: "p.wa", Src: p.Src[wagen.Wa], Features: p.FeatureList()}
		if wz {
			k = kase{Name: "p.wz", Src: p.Src[wagen.Wz], Features: p.FeatureList()}
			c.Class("syntax/wz")
		} else {
			c.Class("syntax/wa")
		}
		c.Set(k)
		key, what, domain := judge(t, k)
		if domain != "" {
			s.Counter("rejected_by_domain/"+strings.SplitN(domain, ":", 2)[0], 1)
			saveDebug("domain", k, domain)
			out++
			t.Skip(domain)
		}
		judged++
		for _, f := range k.Features {
			c.Class("feature/" + f)
		}
		if key != "" {
			saveDebug("violation", k, what)
			c.Fail(key, "%s", what)
		}
		n := 0
		for _, f := range k.Features {
			switch f {
			case "arith-int", "compare", "logic", "if", "len":
			default:
				n++
			}
		}
		if n >= 4 {
			c.Nontrivial(k.Src)
		}
	})
	if judged > 0 && out*3 > judged {
		t.Errorf("generator health: %d of %d programs were rejected by the type checker", out, judged+out)
	}
}

// TestRepositoryPrograms: every single-file example program in the repository must compile to a valid module.
func TestRepositoryPrograms(t *testing.T) {
	if !core.FirstShard() {
		return
	}
	s := core.NewStats(prop, "RepositoryPrograms")
	defer s.Flush()
	s.Rule("enumeration of the single-file .wa/.wz programs under waroot/examples (corpus tier); same oracle; non-trivial = every accepted file")
	files, _ := filepath.Glob(filepath.Join(core.RepoDir(), "waroot", "examples", "*.wa"))
	more, _ := filepath.Glob(filepath.Join(core.RepoDir(), "waroot", "examples", "misc", "*.wa"))
	wz, _ := filepath.Glob(filepath.Join(core.RepoDir(), "waroot", "examples", "wz", "hello", "*.wz"))
	files = append(append(files, more...), wz...)
	for _, f := range files {
		data, err := os.ReadFile(f)
		if err != nil {
			continue
		}
		k := kase{Name: filepath.Base(f), Src: string(data)}
		key, what, domain := judge(t, k)
		if domain != "" {
			s.Counter("rejected_by_domain/"+strings.SplitN(domain, ":", 2)[0], 1)
			continue
		}
		s.Eval(1)
		s.Nontrivial(core.Hash64(k.Src))
		s.Sample(map[string]string{"file": strings.TrimPrefix(f, core.RepoDir())})
		if key != "" {
			c := s.NewCase(t)
			c.Set(k)
			c.Fail(key, "%s: %s", f, what)
		}
	}
}

func replay(test string, raw json.RawMessage) (string, string) {
	var k kase
	if err := json.Unmarshal(raw, &k); err != nil {
		return "harness/bad-replay", err.Error()
	}
	t := &testing.T{}
	key, what, _ := judge(t, k)
	return key, what
}

func TestReplay(t *testing.T) { core.RunReplays(t, prop, replay) }
