package c03

import (
	"fmt"
	"os"
	"os/exec"
	"path/filepath"
	"strings"
	"sync"
	"testing"

	"pgregory.net/rapid"
	"wa-lang.org/wa/zverif/harness/core"
	om "wa-lang.org/wa/zverif/harness/opmatrix"
	"wa-lang.org/wa/zverif/harness/wk"
)

const maxLog = 20000

var (
	workerOnce sync.Once
	worker     *wk.Client
)

func theWorker() *wk.Client {
	workerOnce.Do(func() { worker = wk.New(wk.Options{}) })
	return worker
}

type built struct {
	Main string `json:"main"`
	Wat  string `json:"wat"`
}

func cName(name string) string {
	var sb strings.Builder
	for _, c := range name {
		switch {
		case c >= '0' && c <= '9', c >= 'a' && c <= 'z', c >= 'A' && c <= 'Z':
			sb.WriteRune(c)
		case c > 127:
			sb.WriteRune(c)
		default:
			sb.WriteByte('_')
		}
	}
	return sb.String()
}

// CompareProgramSource is the plug-in hook for generated programs: Wa source
// text -> compiler WAT (js target, as `wa build` produces it) -> (1) assembled
// and run on wazero under the recording syscall_js host, (2) translated by
// wat2c, compiled with gcc -O2 together with host_prog.c and run.  The two
// host-call logs and the way the run ended must be equal.  Keys starting
// "rejected/" or "inconclusive/" are not violations.
func CompareProgramSource(name, src string) (key, what string, hostCalls int) {
	return compareProgramSource(name, src, !core.Thorough())
}

// stripWat runs the dead-code stripper `wa build --optimize` applies (and
// every arduino/wasm4 build always applies) to the compiler's WAT.
func stripWat(name, wat string) (string, string) {
	o := theWorker().Do("watstrip", wk.Src{Name: name, Src: wat})
	if o.Kind != wk.OK {
		return "", o.String()
	}
	var r struct {
		Out string `json:"out"`
	}
	if err := o.Decode(&r); err != nil {
		return "", err.Error()
	}
	return r.Out, ""
}

func compareProgramSource(name, src string, strip bool) (key, what string, hostCalls int) {
	o := theWorker().Do("build", wk.Src{Name: name, Src: src})
	if o.Kind != wk.OK {
		return "rejected/build", o.String(), 0
	}
	var b built
	if err := o.Decode(&b); err != nil {
		return "rejected/build", err.Error(), 0
	}
	if strip {
		out, rej := stripWat(name, b.Wat)
		if rej != "" {
			return "rejected/watstrip", rej, 0
		}
		b.Wat = out
	}
	wasm, err := om.Assemble(b.Wat)
	if err != nil {
		return "rejected/assemble", err.Error(), 0
	}
	wz := om.RunRecorded(wasm, b.Main, false, maxLog)
	if wz.Err != "" {
		return "rejected/wazero-load", wz.Err, 0
	}
	code, header, terr, panicked := translate(b.Wat)
	if terr != nil {
		return "rejected/wat2c-error", terr.Error(), 0
	}
	if panicked != "" {
		// the property quantifies over "the subset the Wa compiler emits": a panic on compiler output is a defect
		return "program/wat2c-panic", "wat2c panics on compiler output: " + head(panicked, 300), 0
	}
	dir, err := os.MkdirTemp("", "c03p-")
	if err != nil {
		return "inconclusive/tmp", err.Error(), 0
	}
	defer os.RemoveAll(dir)
	os.WriteFile(filepath.Join(dir, "app.c"), code, 0o644)
	os.WriteFile(filepath.Join(dir, "app.h"), header, 0o644)
	mainC := fmt.Sprintf("extern void app_%s(void);\nvoid opm_main(void) { app_%s(); }\n", cName(b.Main), cName(b.Main))
	os.WriteFile(filepath.Join(dir, "main_glue.c"), []byte(mainC), 0o644)
	host := strings.Replace(driverPath(), "driver.c", "host_prog.c", 1)
	_, se, err, killed := limited(300, dir, nil, "", "gcc", "-O2", "-w", "-o", "prog", "app.c", "main_glue.c", host, "-lm")
	if killed {
		return "inconclusive/gcc-cpu", "gcc hit the CPU limit", 0
	}
	if err != nil {
		if _, isExit := err.(*exec.ExitError); !isExit {
			return "inconclusive/gcc", err.Error(), 0
		}
		return "program/c-compile/" + compileKeyFrom(code, se), "gcc rejects the C generated from compiler output: " + firstErrors(se), 0
	}
	so, _, _, killed := limited(120, dir, nil, "", "./prog")
	if killed {
		return "inconclusive/prog-cpu", "compiled program hit the CPU limit", 0
	}
	lines := strings.Split(strings.TrimRight(so, "\n"), "\n")
	if len(lines) == 0 || lines[0] == "" {
		return "program/no-output", "the C program printed nothing (crashed before the host could report)", 0
	}
	end := lines[len(lines)-1]
	log := lines[:len(lines)-1]
	n := len(log)
	if len(wz.Log) < n {
		n = len(wz.Log)
	}
	for i := 0; i < n; i++ {
		if wz.Log[i] != log[i] {
			nm := wz.Log[i]
			if j := strings.IndexByte(nm, '('); j > 0 {
				nm = nm[:j]
			}
			return "program/host-call/" + nm, fmt.Sprintf("host call #%d differs: wazero %q, C %q", i, head(wz.Log[i], 200), head(log[i], 200)), n
		}
	}
	if len(wz.Log) != len(log) {
		return "program/host-call-count", fmt.Sprintf("wazero made %d host calls (end %s), the C program %d (end %s)", len(wz.Log), wz.End, len(log), end), n
	}
	if wz.End != end {
		return "program/end", fmt.Sprintf("wazero ended with %s, the C program with %s after %d identical host calls", wz.End, end, len(log)), n
	}
	return "", "", len(log)
}

func checkProgram(s *core.Stats, c *core.Case, p om.Program) {
	c.Set(payload{Kind: "program", Name: p.Name, Src: p.Src})
	key, what, calls := CompareProgramSource(p.Name, p.Src)
	switch {
	case key == "":
		s.Count("program/equal", 1)
		if calls >= 5 {
			s.Nontrivial(core.Hash64(p.Src))
			s.Sample(map[string]interface{}{"program": p.Name, "host_calls": calls})
		}
	case strings.HasPrefix(key, "rejected/"), strings.HasPrefix(key, "inconclusive/"):
		s.Counter(key, 1)
		s.Note(fmt.Sprintf("%s: %s: %s", p.Name, key, head(what, 200)))
	default:
		c.Fail(key, "%s: %s", p.Name, what)
	}
}

func TestExamplePrograms(t *testing.T) {
	s := core.NewStats(prop, "ExamplePrograms")
	defer s.Flush()
	defer theWorker().Close()
	s.Rule("enumeration of the single-file programs under waroot/examples (quick: the cheap ones), compiled by the repository's compiler (quick tier: followed by the dead-code stripper of `wa build --optimize`, which keeps gcc's work small; thorough: the full 30k-line runtime); the WAT is (1) assembled and run on wazero under a recording syscall_js host and (2) translated by wat2c, built with gcc -O2 and the fixed host_prog.c; host-call logs (name, raw argument bits, printed bytes) and the end of the run must be equal; non-trivial = >= 5 host calls compared")
	sh, n := core.Shard()
	k := 0
	for _, p := range om.ExamplePrograms() {
		if !core.Thorough() && !om.QuickProgram(p.Name) {
			continue
		}
		k++
		if k%n != sh {
			continue
		}
		checkProgram(s, s.NewCase(t), p)
		s.Eval(1)
	}
}

func TestTemplatePrograms(t *testing.T) {
	s := core.NewStats(prop, "TemplatePrograms")
	defer theWorker().Close()
	s.Rule("rapid: small hand-templated Wa programs with drawn constants (stand-in for the typed program generator; hook CompareProgramSource); same oracle as ExamplePrograms")
	s.Check(t, func(t *rapid.T, c *core.Case) {
		checkProgram(s, c, om.TemplateProgram(t))
	})
}
