package c03

import (
	"os"
	"testing"
)

func TestDbgDump(t *testing.T) {
	wat, _ := os.ReadFile("/tmp/c3scratch/ifaceo.wat")
	code, hdr, _, _ := translate(string(wat))
	os.WriteFile("/tmp/c3scratch/m/appo.c", code, 0o644)
	os.WriteFile("/tmp/c3scratch/m/app.h", hdr, 0o644)
}
