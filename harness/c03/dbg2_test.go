package c03

import (
	"fmt"
	"path/filepath"
	"testing"

	"wa-lang.org/wa/zverif/harness/core"
)

func TestDbgCorpus(t *testing.T) {
	files, _ := filepath.Glob("/verif/corpus/C03/*.json")
	for _, f := range files {
		rf, _ := core.LoadReplay(f)
		k, w := replay("", rf.Case)
		fmt.Printf("%-40s was=%-32s now=%q %s\n", filepath.Base(f), rf.Key, k, head(w, 120))
	}
}
