package c03

import (
	"fmt"
	"testing"

	"wa-lang.org/wa/zverif/harness/core"
	om "wa-lang.org/wa/zverif/harness/opmatrix"
)

// TestBoundaryMatrix: every cell of the boundary matrix (see opmatrix/matrix.go)
// through wat2c + C compiler versus wazero, with the comparison code and
// finding keys of the random group.
func TestBoundaryMatrix(t *testing.T) {
	s := core.NewStats(prop, "BoundaryMatrix")
	defer s.Flush()
	s.Rule("deterministic enumeration (sharded by instruction index): one exported function per plain numeric instruction of the accepted set × the complete boundary matrix (integer unary = special ∪ shift-count list, integer binary = special × special, shifts/rotates special × counts, float unary = whole special list, float binary = fixed 26-value subset squared); cells of known findings dropped and counted; oracle as OpMatrixC (wat2c + gcc -O2, thorough also clang -O1 and clang sanitizers, versus wazero: result bits, trap/no-trap, sanitizer reports); non-trivial = cells with a boundary operand")
	s.Exhaustive(true)
	ex, cfg := exclusion()
	defer ex.Flush(s)
	sh, n := core.Shard()
	oc, st := om.Matrix(cfg, sh, n)
	ms, info := evalCase(oc, variants())
	if info.rejected != "" {
		t.Fatalf("VIOLATION-CANDIDATE harness: translator rejected the matrix module: %s", head(info.rejected, 300))
	}
	if info.inconclusive != "" && len(ms) == 0 {
		s.Counter("inconclusive", 1)
		t.Skip(info.inconclusive)
	}
	for _, m := range ms {
		c := s.NewCase(t)
		pl := payload{Kind: "opmatrix", Variant: m.variant, Case: oc.Strip()}
		if m.call >= 0 {
			pl.Case = om.Minimal(oc, cfg, m.call).Strip()
		}
		c.Set(pl)
		c.Fail(m.key, "%s", m.what)
	}
	traps := 0
	for k, call := range oc.Calls {
		f := &oc.Funcs[call.F]
		s.Count("op="+f.Op+"/"+call.Class, 1)
		if om.BoundaryCell(f, call) {
			s.Nontrivial(core.Hash64(f.Op, call.Args))
		}
		if k < len(info.wz.Calls) && info.wz.Calls[k].Trap {
			traps++
		}
	}
	s.Eval(int64(st.Cells))
	s.Counter("matrix/instructions", int64(st.Ops))
	s.Counter("matrix/cells", int64(st.Cells))
	s.Counter("matrix/cells_with_boundary_operand", int64(st.Boundary))
	s.Counter("matrix/cells_excluded_by_known", int64(st.Excluded))
	s.Counter("matrix/trapping_cells", int64(traps))
	if len(oc.Calls) > 0 {
		k := len(oc.Calls) / 2
		s.Sample(map[string]interface{}{"cell": om.Describe(oc, k), "wazero": fmt.Sprintf("%+v", info.wz.Calls[k])})
	}
}
