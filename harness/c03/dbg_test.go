package c03

import (
	"encoding/json"
	"fmt"
	"os"
	"testing"

	"wa-lang.org/wa/zverif/harness/core"
)

func TestDbg(t *testing.T) {
	rf, err := core.LoadReplay(os.Getenv("DBG_REPLAY"))
	if err != nil {
		t.Fatal(err)
	}
	var p payload
	json.Unmarshal(rf.Case, &p)
	if p.Kind == "program" {
		defer theWorker().Close()
		k, w := replay("", rf.Case)
		fmt.Println(k, w)
		return
	}
	code, _, _, _ := translate(p.Case.Wat)
	os.WriteFile("/tmp/c3scratch/dbg_app.c", code, 0o644)
	os.WriteFile("/tmp/c3scratch/dbg.wat", []byte(p.Case.Wat), 0o644)
	k, w := replay("", rf.Case)
	fmt.Println(k, w)
}
