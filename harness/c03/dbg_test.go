package c03

import (
	"fmt"
	"os"
	"syscall"
	"testing"
)

func cpu() float64 {
	var ru, rc syscall.Rusage
	syscall.Getrusage(syscall.RUSAGE_SELF, &ru)
	syscall.Getrusage(syscall.RUSAGE_CHILDREN, &rc)
	f := func(t syscall.Timeval) float64 { return float64(t.Sec) + float64(t.Usec)/1e6 }
	return f(ru.Utime) + f(ru.Stime) + f(rc.Utime) + f(rc.Stime)
}

func TestDbgProg(t *testing.T) {
	defer theWorker().Close()
	src, _ := os.ReadFile(os.Getenv("DBG_SRC"))
	c0 := cpu()
	k, w, n := CompareProgramSource("p.wa", string(src))
	fmt.Printf("RESULT %q %d %s cpu(self+gcc+prog)=%.2f\n", k, n, head(w, 300), cpu()-c0)
}
