package c03

import (
	"encoding/json"
	"fmt"
	"os"
	"path/filepath"
	"testing"

	"wa-lang.org/wa/zverif/harness/core"
	om "wa-lang.org/wa/zverif/harness/opmatrix"
)

// mkCorpus evaluates a handmade case and, when it violates the property,
// writes it as corpus/C03/<name>.json (development aid, run with C03_MK=1).
func mkCorpus(t *testing.T, name string, c *om.Case, v variant) {
	ms, info := evalCase(c, []variant{v})
	key, what := "", ""
	if info.rejected != "" {
		key, what = fmt.Sprintf("op=%s/%s@wat2c-panic", c.Funcs[0].Op, c.Funcs[0].ShapeClass()), info.rejected
	}
	if len(ms) > 0 {
		key, what = ms[0].key, ms[0].what
	}
	fmt.Printf("%-28s key=%q %s\n", name, key, head(what, 220))
	if key == "" || key == "translator-rejected" || os.Getenv("C03_MK") != "write" {
		return
	}
	raw, _ := json.Marshal(payload{Kind: "opmatrix", Variant: v.Name, Case: c.Strip()})
	data, _ := json.MarshalIndent(core.ReplayFile{Property: prop, Test: "OpMatrixC", Key: key, What: what, Seed: 1, Case: raw}, "", " ")
	os.WriteFile(filepath.Join(core.VerifDir(), "corpus", prop, name+".json"), data, 0o644)
}

func TestMkCorpus(t *testing.T) {
	if os.Getenv("C03_MK") == "" {
		t.Skip("development aid")
	}
	cfg := &om.Config{}
	u := func(v ...uint64) []uint64 { return v }
	want := os.Getenv("C03_ONLY")
	mk := func(name string, c *om.Case) {
		if want == "" || want == name {
			mkCorpus(t, name, c, variantByName(os.Getenv("C03_VARIANT")))
		}
	}
	mk("convert-u-no-union-member", om.Handmade(cfg, "i", "f", "f32.convert_i32_u", true, false, nil, []string{"local.get $a", "f32.convert_i32_u"}, u(0xffffffff), u(5)))
	mk("convert-i64-u", om.Handmade(cfg, "I", "F", "f64.convert_i64_u", true, false, nil, []string{"local.get $a", "f64.convert_i64_u"}, u(0xffffffffffffffff), u(5)))
	mk("multi-return-implicit-order", om.Handmade(cfg, "ii", "ii", "return", true, false, nil, []string{"local.get $b", "local.get $a"}, u(1, 2)))
	mk("multi-return-implicit-mixed", om.Handmade(cfg, "iF", "Fi", "return", true, false, nil, []string{"local.get $b", "local.get $a"}, u(1, 2)))
	mk("br_if-value", om.Handmade(cfg, "iii", "i", "br_if", true, false, nil, []string{"block $B (result i32)", "local.get $a", "local.get $b", "br_if $B", "drop", "local.get $c", "end"}, u(7, 1, 9), u(7, 0, 9)))
	mk("br_table-value", func() *om.Case {
		c := om.Handmade(cfg, "ii", "i", "br_table", true, false, nil, []string{"block $b1 (result i32)", "block $b0 (result i32)", "local.get $b", "local.get $a", "br_table $b0 $b1", "end", "i32.const 10", "i32.add", "end", "i32.const 20", "i32.add"}, u(0, 5), u(1, 5))
		c.Funcs[0].Shape = "brtableval"
		return c
	}())
	mk("if-else-multi-result", om.Handmade(cfg, "iIi", "Ii", "if", true, false, nil, []string{"local.get $a", "if $I (result i64 i32)", "local.get $b", "local.get $c", "else", "i64.const 5", "i32.const 6", "end"}, u(1, 7, 8), u(0, 7, 8)))
	mk("implicit-return-after-nested-unreachable", om.Handmade(cfg, "i", "i", "unreachable", true, false, nil, []string{"local.get $a", "if $I (result i32)", "i32.const 7", "else", "i32.const 0", "unreachable", "end"}, u(1), u(5)))
	mk("i32-shl-count-32", om.Handmade(cfg, "ii", "i", "i32.shl", true, false, nil, []string{"local.get $a", "local.get $b", "i32.shl"}, u(1, 32), u(3, 33)))
	mk("f32-nearest-tie", om.Handmade(cfg, "f", "f", "f32.nearest", false, false, nil, []string{"local.get $a", "f32.nearest"}, u(0x40200000), u(0x3f000000), u(0xbf000000)))
	mk("f64-nearest-tie", om.Handmade(cfg, "F", "F", "f64.nearest", false, false, nil, []string{"local.get $a", "f64.nearest"}, u(0x4004000000000000), u(0x3fe0000000000000)))
	mk("f32-min-nan", om.Handmade(cfg, "ff", "f", "f32.min", false, false, nil, []string{"local.get $a", "local.get $b", "f32.min"}, u(0x7fc00000, 0x3f800000), u(0x3f800000, 0x7fc00000)))
	mk("f32-min-zeros", om.Handmade(cfg, "ff", "f", "f32.min", false, false, nil, []string{"local.get $a", "local.get $b", "f32.min"}, u(0, 0x80000000), u(0x80000000, 0)))
	mk("f64-max-zeros", om.Handmade(cfg, "FF", "F", "f64.max", false, false, nil, []string{"local.get $a", "local.get $b", "f64.max"}, u(1<<63, 0), u(0, 1<<63)))
	mk("f64-max-nan", om.Handmade(cfg, "FF", "F", "f64.max", false, false, nil, []string{"local.get $a", "local.get $b", "f64.max"}, u(0x7ff8000000000000, 0x3ff0000000000000)))
	mk("i32-trunc-f32-s-oor", om.Handmade(cfg, "f", "i", "i32.trunc_f32_s", true, false, nil, []string{"local.get $a", "i32.trunc_f32_s"}, u(0x4f000000), u(0x7fc00000)))
	om.HandmadeClass = ""
	for _, o := range []struct {
		op, in, out string
		arg         uint64
	}{
		{"i32.trunc_f32_u", "f", "i", 0x4f800000}, {"i32.trunc_f64_s", "F", "i", 0x41e0000000000000}, {"i32.trunc_f64_u", "F", "i", 0xbff0000000000000},
		{"i64.trunc_f32_s", "f", "I", 0x5f000000}, {"i64.trunc_f32_u", "f", "I", 0xbf800000}, {"i64.trunc_f64_s", "F", "I", 0x43e0000000000000}, {"i64.trunc_f64_u", "F", "I", 0x7ff8000000000000},
	} {
		mk("trunc-range-"+o.op, om.Handmade(cfg, o.in, o.out, o.op, true, false, nil, []string{"local.get $a", o.op}, u(o.arg)))
	}
	mk("i64-trunc-f32-s-wide", om.Handmade(cfg, "f", "I", "i64.trunc_f32_s", true, false, nil, []string{"local.get $a", "i64.trunc_f32_s"}, u(0x501502f9)))
	mk("i64-trunc-f32-u-wide", om.Handmade(cfg, "f", "I", "i64.trunc_f32_u", true, false, nil, []string{"local.get $a", "i64.trunc_f32_u"}, u(0x501502f9)))
	mk("i32-rem-s-min-m1", om.Handmade(cfg, "ii", "i", "i32.rem_s", true, false, nil, []string{"local.get $a", "local.get $b", "i32.rem_s"}, u(0x80000000, 0xffffffff)))
	mk("i64-rem-s-min-m1", om.Handmade(cfg, "II", "I", "i64.rem_s", true, false, nil, []string{"local.get $a", "local.get $b", "i64.rem_s"}, u(1<<63, ^uint64(0))))
	mk("f32-neg-zero", om.Handmade(cfg, "f", "f", "f32.neg", true, false, nil, []string{"local.get $a", "f32.neg"}, u(0), u(0x7fc00000)))
	mk("f64-neg-zero", om.Handmade(cfg, "F", "F", "f64.neg", true, false, nil, []string{"local.get $a", "f64.neg"}, u(0), u(0x7ff8000000000000)))
	mk("i32-rotl-negative", om.Handmade(cfg, "ii", "i", "i32.rotl", true, false, nil, []string{"local.get $a", "local.get $b", "i32.rotl"}, u(0x80000001, 4), u(0xf0000000, 1)))
	mk("i32-rotr-negative", om.Handmade(cfg, "ii", "i", "i32.rotr", true, false, nil, []string{"local.get $a", "local.get $b", "i32.rotr"}, u(0x80000001, 4)))
	mk("i64-rotl-negative", om.Handmade(cfg, "II", "I", "i64.rotl", true, false, nil, []string{"local.get $a", "local.get $b", "i64.rotl"}, u(1<<63|1, 4)))
	mk("f32-const-small", om.Handmade(cfg, "", "f", "f32.const", true, false, nil, []string{"f32.const 1e-10"}, u()))
	mk("f64-const-digits", om.Handmade(cfg, "", "F", "f64.const", true, false, nil, []string{"f64.const 0.1234567890123"}, u()))
	mk("memory-copy-overlap", om.Handmade(cfg, "", "", "memory.copy", true, true, nil, []string{"i32.const 8", "i32.const 0", "i32.const 200", "memory.copy"}, u()))
	mk("memory-grow-negative", om.Handmade(cfg, "i", "i", "memory.grow", true, true, nil, []string{"local.get $a", "memory.grow", "memory.size", "i32.const 100", "i32.mul", "i32.add"}, u(0xffffffff), u(0)))
	om.HandmadeClass = "oob"
	mk("load-oob", om.Handmade(cfg, "i", "i", "i32.load", true, false, nil, []string{"local.get $a", "i32.load"}, u(0xffffffff), u(65533), u(3*65536)))
	om.HandmadeClass = "sig"
	mk("call-indirect-sig", om.Handmade(cfg, "i", "i", "call_indirect", true, false, nil, []string{"i32.const 1", "i32.const 2", "local.get $a", "call_indirect (type $t_ii_i)"}, u(4), u(1)))
	om.HandmadeClass = ""
	mk("call-indirect-idx-oob", om.Handmade(cfg, "i", "i", "call_indirect", true, false, nil, []string{"i32.const 1", "i32.const 2", "local.get $a", "call_indirect (type $t_ii_i)"}, u(9), u(0xffffffff)))
	mk("call-indirect-null", om.Handmade(cfg, "i", "i", "call_indirect", true, false, nil, []string{"i32.const 1", "i32.const 2", "local.get $a", "call_indirect (type $t_ii_i)"}, u(0), u(2)))
	mk("i32-div-s-min-m1", om.Handmade(cfg, "ii", "i", "i32.div_s", true, false, nil, []string{"local.get $a", "local.get $b", "i32.div_s"}, u(0x80000000, 0xffffffff), u(7, 0)))
	mk("global-f32-init", om.Handmade(cfg, "", "f", "global.get", true, false, nil, []string{"global.get $g_f"}, u()))
	om.HandmadeClass = ""
	for _, o := range []struct {
		op, in, out string
		args        []uint64
	}{
		{"i32.add", "ii", "i", u(0x7fffffff, 1)}, {"i32.sub", "ii", "i", u(0x80000000, 1)}, {"i32.mul", "ii", "i", u(0x10000, 0x10000)},
		{"i64.add", "II", "I", u(1<<63-1, 1)}, {"i64.sub", "II", "I", u(1<<63, 1)}, {"i64.mul", "II", "I", u(1<<32, 1<<32)},
		{"i32.shl", "ii", "i", u(0x80000001, 1)}, {"i64.shl", "II", "I", u(1<<63|1, 1)}, {"i32.shr_s", "ii", "i", u(0x80000001, 33)},
		{"i32.div_s", "ii", "i", u(7, 0)}, {"i32.div_u", "ii", "i", u(7, 0)}, {"i32.rem_u", "ii", "i", u(7, 0)}, {"i64.div_s", "II", "I", u(1<<63, ^uint64(0))},
		{"f32.convert_i64_s", "I", "f", u(1<<63 - 1)}, {"f32.demote_f64", "F", "f", u(0x7fefffffffffffff)}, {"i32.wrap_i64", "I", "i", u(0xffffffff80000000)},
		{"i32.clz", "i", "i", u(0)}, {"i64.ctz", "I", "I", u(0)}, {"i32.rotl", "ii", "i", u(0x80000001, 0)}, {"i64.rotr", "II", "I", u(1, 64)},
		{"i64.extend_i32_u", "i", "I", u(0xffffffff)}, {"f64.div", "FF", "F", u(0x3ff0000000000000, 0)},
	} {
		var body []string
		for k := range o.in {
			body = append(body, fmt.Sprintf("local.get $%c", "ab"[k]))
		}
		mk("ub-"+o.op, om.Handmade(cfg, o.in, o.out, o.op, true, false, nil, append(body, o.op), o.args))
	}
	mk("ub-store8", om.Handmade(cfg, "ii", "", "i32.store8", true, true, nil, []string{"local.get $a", "local.get $b", "i32.store8"}, u(16, 0x1ff)))
	mk("ub-store16-64", om.Handmade(cfg, "iI", "", "i64.store16", true, true, nil, []string{"local.get $a", "local.get $b", "i64.store16"}, u(17, 0xffffffffffff8000)))
	mk("ub-memcopy", om.Handmade(cfg, "", "", "memory.copy", true, true, nil, []string{"i32.const 8", "i32.const 0", "i32.const 200", "memory.copy"}, u()))
}
