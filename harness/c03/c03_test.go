// Package c03 checks property C03: the C code wat2c generates behaves like the
// WebAssembly module it was translated from (differential: gcc/clang-compiled
// C versus the vendored wazero running the assembled module).
package c03

import (
	"bytes"
	"encoding/json"
	"fmt"
	"os"
	"os/exec"
	"path/filepath"
	"regexp"
	"runtime/debug"
	"strings"
	"sync"
	"syscall"
	"testing"

	"pgregory.net/rapid"
	"wa-lang.org/wa/internal/wat/watutil"
	"wa-lang.org/wa/internal/wat/watutil/wat2c"
	"wa-lang.org/wa/zverif/harness/core"
	om "wa-lang.org/wa/zverif/harness/opmatrix"
)

const prop = "C03"

func TestMain(m *testing.M) { core.Main(m) }

// ---------------------------------------------------------------- C side

type variant struct {
	Name string
	CC   string
	Args []string
	Env  []string
	San  bool
}

var (
	vGCC   = variant{Name: "gcc-O2", CC: "gcc", Args: []string{"-O2"}}
	vClang = variant{Name: "clang-O1", CC: "clang", Args: []string{"-O1"}}
	vSan   = variant{Name: "clang-san", CC: "clang", Args: []string{"-O1", "-g0", "-fsanitize=undefined,address", "-fsanitize-recover=all", "-fno-omit-frame-pointer"},
		Env: []string{"OPM_MARK=1", "ASAN_OPTIONS=halt_on_error=0:detect_leaks=0:handle_segv=0:handle_sigfpe=0:handle_abort=0:handle_sigbus=0:handle_sigill=0:allow_user_segv_handler=1:use_sigaltstack=0",
			"UBSAN_OPTIONS=print_stacktrace=0:halt_on_error=0"}, San: true}
)

func variants() []variant {
	if core.Thorough() {
		return []variant{vGCC, vClang, vSan}
	}
	return []variant{vGCC}
}

// translate runs wat2c in-process; a panic is an outcome, not a harness crash.
func translate(wat string) (code, header []byte, err error, panicked string) {
	defer func() {
		if r := recover(); r != nil {
			panicked = fmt.Sprint(r)
			if os.Getenv("DBG_STACK") != "" {
				fmt.Println(string(debug.Stack()))
			}
		}
	}()
	_, code, header, err = watutil.Wat2C("opm.wat", []byte(wat), wat2c.Options{Prefix: "app"})
	return
}

func cType(t byte) string {
	switch t {
	case 'i':
		return "int32_t"
	case 'I':
		return "int64_t"
	case 'f':
		return "float"
	}
	return "double"
}

// glue renders the per-module marshalling table (no logic: bit patterns in,
// bit patterns out).
func glue(c *om.Case) string {
	var sb strings.Builder
	sb.WriteString("#include <stdint.h>\n#include <string.h>\n#include \"app.h\"\n")
	sb.WriteString("typedef void (*opm_thunk)(const uint64_t *args, uint64_t *res);\n")
	sb.WriteString("struct opm_func { const char *name; const char *params; const char *results; int stateful; opm_thunk call; };\n")
	put := func(t byte, dst, src string) string {
		switch t {
		case 'i':
			return fmt.Sprintf("%s = (uint32_t)(%s);", dst, src)
		case 'I':
			return fmt.Sprintf("%s = (uint64_t)(%s);", dst, src)
		case 'f':
			return fmt.Sprintf("{ float x_ = (%s); uint32_t b_; memcpy(&b_, &x_, 4); %s = b_; }", src, dst)
		}
		return fmt.Sprintf("{ double x_ = (%s); uint64_t b_; memcpy(&b_, &x_, 8); %s = b_; }", src, dst)
	}
	for i := range c.Funcs {
		f := &c.Funcs[i]
		fmt.Fprintf(&sb, "static void t_%s(const uint64_t *a, uint64_t *r) {\n", f.Name)
		var args []string
		for k := 0; k < len(f.Params); k++ {
			switch f.Params[k] {
			case 'i':
				fmt.Fprintf(&sb, "  int32_t p%d = (int32_t)(uint32_t)a[%d];\n", k, k)
			case 'I':
				fmt.Fprintf(&sb, "  int64_t p%d = (int64_t)a[%d];\n", k, k)
			case 'f':
				fmt.Fprintf(&sb, "  float p%d; { uint32_t b_ = (uint32_t)a[%d]; memcpy(&p%d, &b_, 4); }\n", k, k, k)
			default:
				fmt.Fprintf(&sb, "  double p%d; { uint64_t b_ = a[%d]; memcpy(&p%d, &b_, 8); }\n", k, k, k)
			}
			args = append(args, fmt.Sprintf("p%d", k))
		}
		call := fmt.Sprintf("app_%s(%s)", f.Name, strings.Join(args, ", "))
		switch len(f.Results) {
		case 0:
			fmt.Fprintf(&sb, "  (void)r; %s;\n", call)
		case 1:
			fmt.Fprintf(&sb, "  %s\n", put(f.Results[0], "r[0]", call))
		default:
			fmt.Fprintf(&sb, "  app_%s_ret_t v = %s;\n", f.Name, call)
			for k := 0; k < len(f.Results); k++ {
				fmt.Fprintf(&sb, "  %s\n", put(f.Results[k], fmt.Sprintf("r[%d]", k), fmt.Sprintf("v.R%d", k)))
			}
		}
		if len(f.Params) == 0 {
			sb.WriteString("  (void)a;\n")
		}
		sb.WriteString("}\n")
	}
	sb.WriteString("struct opm_func opm_funcs[] = {\n")
	for i := range c.Funcs {
		f := &c.Funcs[i]
		st := 0
		if f.Stateful {
			st = 1
		}
		fmt.Fprintf(&sb, "  {\"%s\", \"%s\", \"%s\", %d, t_%s},\n", f.Name, f.Params, f.Results, st, f.Name)
	}
	fmt.Fprintf(&sb, "};\nint opm_nfuncs = %d;\n", len(c.Funcs))
	return sb.String()
}

func script(c *om.Case) string {
	var sb strings.Builder
	for _, call := range c.Calls {
		fmt.Fprintf(&sb, "%d", call.F)
		for _, a := range call.Args {
			sb.WriteString(" " + a)
		}
		sb.WriteString("\n")
	}
	return sb.String()
}

func driverPath() string {
	wd, _ := os.Getwd()
	if _, err := os.Stat(filepath.Join(wd, "testdata", "driver.c")); err == nil {
		return filepath.Join(wd, "testdata", "driver.c")
	}
	return filepath.Join(core.VerifDir(), "harness", "c03", "testdata", "driver.c")
}

type runResult struct {
	Stdout, Stderr string
	Inconclusive   string // tool problem (CPU limit, compiler missing): never a violation
	CompileErr     string // the generated C does not compile
}

func limited(cpu int, dir string, env []string, stdin string, name string, args ...string) (so, se string, err error, killed bool) {
	sh := fmt.Sprintf("ulimit -t %d; exec \"$0\" \"$@\"", cpu)
	cmd := exec.Command("/bin/sh", append([]string{"-c", sh, name}, args...)...)
	cmd.Dir = dir
	cmd.Env = append(os.Environ(), env...)
	cmd.Stdin = strings.NewReader(stdin)
	var o, e bytes.Buffer
	cmd.Stdout, cmd.Stderr = &o, &e
	err = cmd.Run()
	if ee, ok := err.(*exec.ExitError); ok {
		if ws, ok := ee.Sys().(syscall.WaitStatus); ok && ws.Signaled() && (ws.Signal() == syscall.SIGXCPU || ws.Signal() == syscall.SIGKILL) {
			killed = true
		}
	}
	return o.String(), e.String(), err, killed
}

// buildAndRun compiles app.c + glue.c + driver.c with one compiler variant and
// runs the script.
func buildAndRun(v variant, code, header []byte, c *om.Case) (r runResult) {
	dir, err := os.MkdirTemp("", "c03-")
	if err != nil {
		r.Inconclusive = err.Error()
		return
	}
	defer os.RemoveAll(dir)
	os.WriteFile(filepath.Join(dir, "app.c"), code, 0o644)
	os.WriteFile(filepath.Join(dir, "app.h"), header, 0o644)
	os.WriteFile(filepath.Join(dir, "glue.c"), []byte(glue(c)), 0o644)
	args := append(append([]string{}, v.Args...), "-w", "-o", "prog", "app.c", "glue.c", driverPath(), "-lm")
	_, se, err, killed := limited(300, dir, nil, "", v.CC, args...)
	if killed {
		r.Inconclusive = v.CC + " hit the CPU limit"
		return
	}
	if err != nil {
		if _, isExit := err.(*exec.ExitError); !isExit {
			r.Inconclusive = fmt.Sprintf("cannot run %s: %v", v.CC, err)
			return
		}
		r.CompileErr = firstErrors(se)
		r.Stderr = se
		return
	}
	so, se, err, killed := limited(60, dir, v.Env, script(c), "./prog")
	if killed {
		r.Inconclusive = "compiled program hit the CPU limit"
		return
	}
	r.Stdout, r.Stderr = so, se
	if err != nil {
		r.Stdout += fmt.Sprintf("\nX driver exited: %v\n", err)
	}
	return
}

var errLineRe = regexp.MustCompile(`(?m)^.*\berror\b.*$`)

func firstErrors(se string) string {
	m := errLineRe.FindAllString(se, 3)
	if len(m) == 0 {
		return head(se, 400)
	}
	return strings.Join(m, " | ")
}

func head(s string, n int) string {
	if len(s) > n {
		return s[:n] + "…"
	}
	return s
}

// sanitizer reports per call index (stderr sections are separated by "#k").
func sanReports(se string) map[int]string {
	out := map[int]string{}
	cur := -1
	for _, line := range strings.Split(se, "\n") {
		if strings.HasPrefix(line, "#") {
			fmt.Sscanf(line, "#%d", &cur)
			continue
		}
		if strings.Contains(line, "runtime error:") || strings.Contains(line, "ERROR: AddressSanitizer") {
			if _, dup := out[cur]; !dup {
				if i := strings.Index(line, "runtime error:"); i >= 0 {
					line = line[i:]
				}
				out[cur] = strings.TrimSpace(line)
			}
		}
	}
	return out
}

// ---------------------------------------------------------------- oracle

type payload struct {
	Kind    string   `json:"kind"` // "opmatrix" | "program"
	Variant string   `json:"variant,omitempty"`
	Case    *om.Case `json:"case,omitempty"`
	Name    string   `json:"name,omitempty"`
	Src     string   `json:"src,omitempty"`
}

type mismatch struct {
	call    int
	variant string
	key     string
	what    string
}

type evalInfo struct {
	rejected     string // translator refused (error or panic): outside the domain
	inconclusive string
	wz           om.Outcome
}

// evalCase is the whole oracle for one module on the given compiler variants.
func evalCase(c *om.Case, vs []variant) (ms []mismatch, info evalInfo) {
	wasm, err := om.Assemble(c.Wat)
	if err != nil {
		info.inconclusive = "assembler rejected the module: " + err.Error()
		return
	}
	info.wz = om.RunWazero(wasm, c, false, false)
	if info.wz.Err != "" {
		info.inconclusive = "wazero cannot load the module: " + info.wz.Err
		return
	}
	code, header, terr, panicked := translate(c.Wat)
	if terr != nil {
		info.rejected = "error: " + terr.Error()
		return
	}
	if panicked != "" {
		info.rejected = "panic: " + panicked
		return
	}
	for _, v := range vs {
		r := buildAndRun(v, code, header, c)
		if r.Inconclusive != "" {
			info.inconclusive = r.Inconclusive
			continue
		}
		if r.CompileErr != "" {
			ms = append(ms, mismatch{-1, v.Name, "c-compile/" + compileKeyFrom(code, r.Stderr), fmt.Sprintf("%s rejects the generated C: %s", v.Name, r.CompileErr)})
			continue
		}
		res, perr := om.ParseLines(r.Stdout)
		if perr != nil || len(res) != len(c.Calls) {
			if strings.Contains(r.Stdout, "X driver exited") || len(res) < len(c.Calls) {
				k := len(res)
				if k >= len(c.Calls) {
					k = len(c.Calls) - 1
				}
				if k >= 0 {
					f := &c.Funcs[c.Calls[k].F]
					ms = append(ms, mismatch{k, v.Name, fmt.Sprintf("op=%s/%s", f.Op, c.Calls[k].Class),
						fmt.Sprintf("%s: the C program (%s) died in this call (the driver could not recover): %s", om.Describe(c, k), v.Name, head(strings.TrimSpace(r.Stderr), 300))})
					continue
				}
			}
			info.inconclusive = fmt.Sprintf("driver output unusable: %v (%d of %d lines)", perr, len(res), len(c.Calls))
			continue
		}
		var reports map[int]string
		if v.San {
			reports = sanReports(r.Stderr)
		}
		for k := range c.Calls {
			f := &c.Funcs[c.Calls[k].F]
			kind, what := om.CompareCall(f, info.wz.Calls[k], res[k])
			if kind != "" {
				key := keyCfg.Key(f.Op, c.Calls[k].Class)
				ms = append(ms, mismatch{k, v.Name, key, fmt.Sprintf("%s: wazero vs C(%s): %s: %s", om.Describe(c, k), v.Name, kind, what)})
				if f.Stateful || kind == "memory" {
					break
				}
				continue
			}
			if rep, ok := reports[k]; ok && !info.wz.Calls[k].Trap {
				ms = append(ms, mismatch{k, v.Name, "ub:" + f.Op, fmt.Sprintf("%s: well defined in WebAssembly (wazero returns %x) but the generated C has undefined behaviour: %s", om.Describe(c, k), info.wz.Calls[k].Vals, rep)})
			}
		}
	}
	return
}

var lineRe = regexp.MustCompile(`app\.c:(\d+):`)
var insRe = regexp.MustCompile(`// ([a-z0-9_.]+)`)

// compileKeyFrom names the instruction whose emitted C line the compiler
// rejected (wat2c writes the instruction as a trailing comment).
func compileKeyFrom(code []byte, msg string) string {
	if m := lineRe.FindStringSubmatch(msg); m != nil {
		var n int
		fmt.Sscan(m[1], &n)
		lines := strings.Split(string(code), "\n")
		if n >= 1 && n <= len(lines) {
			if im := insRe.FindAllStringSubmatch(lines[n-1], -1); len(im) > 0 {
				return "op=" + im[len(im)-1][1]
			}
		}
	}
	return compileKey(msg)
}

var identRe = regexp.MustCompile(`'[^']*'|‘[^’]*’`)

func compileKey(msg string) string {
	m := identRe.FindString(msg)
	m = strings.Trim(m, "'‘’")
	if m == "" {
		return "other"
	}
	return m
}

var keyCfg = &om.Config{}

func exclusion() (*om.Exclusion, *om.Config) {
	ex := om.NewExclusion(prop)
	return ex, &om.Config{Excluded: ex.Excluded, OnExcluded: ex.OnExcluded, NFuncs: core.Scale(60, 80), CallsPer: 4}
}

func TestOpMatrixC(t *testing.T) {
	s := core.NewStats(prop, "OpMatrixC")
	s.Rule("rapid: opmatrix modules (many exported one-instruction / short-chain functions over the accepted instruction set, control shapes, memory at every width/offset/alignment incl. the last byte, bulk memory, grow, globals, call/call_indirect) with boundary-biased call scripts (memory/global effects carry over); oracle = watutil.Wat2C(prefix app) compiled with gcc -O2 (thorough: also clang -O1 and clang -fsanitize=undefined,address) together with the fixed driver.c, versus the vendored wazero on the module assembled from the same text: per call result bits (NaN≡NaN where the spec leaves the payload open), trap/no-trap, hash of linear memory after every stateful call, globals through getters; a sanitizer report on a call that is well defined in WebAssembly is a violation ub:<opcode>; non-trivial = distinct (opcode, operand class) pairs that reached a verdict")
	s.Assume("the vendored wazero (checked against V8 by C31) is the reference semantics; gcc 12 / clang 14 are standard C compilers")
	ex, cfg := exclusion()
	defer ex.Flush(s)
	vs := variants()
	s.Check(t, func(t *rapid.T, c *core.Case) {
		oc := om.Generate(t, cfg)
		c.Set(payload{Kind: "opmatrix", Case: oc.Strip()})
		ms, info := evalCase(oc, vs)
		if strings.HasPrefix(info.rejected, "panic:") {
			// wat2c must translate or return an error; find the function it chokes on
			for i := range oc.Funcs {
				if oc.Funcs[i].Text == "" {
					continue
				}
				one := om.Minimal(oc, cfg, firstCallOf(oc, i))
				if _, _, _, p := translate(one.Wat); p != "" {
					key := fmt.Sprintf("op=%s/%s@wat2c-panic", oc.Funcs[i].Op, oc.Funcs[i].ShapeClass())
					c.Set(payload{Kind: "opmatrix", Case: one.Strip()})
					if os.Getenv("C03_SURVEY") == "" {
						c.Fail(key, "wat2c panics instead of translating or returning an error: %s\n%s", head(p, 300), oc.Funcs[i].Text)
					}
					break
				}
			}
		}
		if info.rejected != "" {
			if dir := os.Getenv("C03_SURVEY"); dir != "" {
				os.WriteFile(filepath.Join(dir, "rejected_"+sanitize(head(info.rejected, 60))+".txt"), []byte(info.rejected+"\n"+oc.Wat), 0o644)
			}
			s.Counter("rejected_by_domain/translator", 1)
			s.Note("translator rejected: " + head(info.rejected, 200))
			return
		}
		if info.inconclusive != "" && len(ms) == 0 {
			s.Counter("inconclusive", 1)
			s.Note("inconclusive: " + head(info.inconclusive, 200))
			t.Skip(info.inconclusive)
		}
		if dir := os.Getenv("C03_SURVEY"); dir != "" {
			// development aid: record every distinct key with a minimal case instead of stopping at the first
			for _, m := range ms {
				fn := filepath.Join(dir, sanitize(m.key)+".json")
				if _, err := os.Stat(fn); err == nil {
					continue
				}
				if m.call < 0 {
					os.WriteFile(fn, []byte(m.what), 0o644)
					continue
				}
				mc := om.Minimal(oc, cfg, m.call)
				mm, _ := evalCase(mc, []variant{variantByName(m.variant)})
				for _, x := range mm {
					if x.key == m.key {
						raw, _ := json.Marshal(payload{Kind: "opmatrix", Variant: m.variant, Case: mc.Strip()})
						data, _ := json.MarshalIndent(core.ReplayFile{Property: prop, Test: "OpMatrixC", Key: x.key, What: x.what, Seed: core.Seed(), Case: raw}, "", " ")
						os.WriteFile(fn, data, 0o644)
						break
					}
				}
			}
			return
		}
		for _, m := range ms {
			pl := payload{Kind: "opmatrix", Variant: m.variant, Case: oc.Strip()}
			if !core.IsKnown(prop, m.key) && m.call >= 0 {
				mc := om.Minimal(oc, cfg, m.call)
				mm, _ := evalCase(mc, []variant{variantByName(m.variant)})
				for _, x := range mm {
					if x.key == m.key {
						pl.Case, m.what = mc.Strip(), x.what
						break
					}
				}
			}
			c.Set(pl)
			c.Fail(m.key, "%s", m.what)
		}
		for k, call := range oc.Calls {
			f := &oc.Funcs[call.F]
			s.Count("op="+f.Op+"/"+call.Class, 1)
			s.Nontrivial(core.Hash64(f.Op, call.Class))
			if info.wz.Calls[k].Trap {
				s.Count("outcome/trap", 1)
			} else {
				s.Count("outcome/return", 1)
			}
			if k == len(oc.Calls)/2 {
				s.Sample(map[string]interface{}{"func": f.Text, "call": om.Describe(oc, k), "wazero": fmt.Sprintf("%+v", info.wz.Calls[k])})
			}
		}
		for _, f := range oc.Funcs {
			s.Count("shape/"+f.Shape, 1)
		}
		for _, v := range vs {
			s.Count("compiler/"+v.Name, 1)
		}
		s.Eval(int64(len(oc.Calls)) - 1)
	})
}

// firstCallOf returns the index of a call of function fi (appending one with
// zero arguments when the script has none).
func firstCallOf(c *om.Case, fi int) int {
	for k, call := range c.Calls {
		if call.F == fi {
			return k
		}
	}
	args := make([]string, len(c.Funcs[fi].Params))
	for i := range args {
		args[i] = "0"
	}
	c.Calls = append(c.Calls, om.Call{F: fi, Args: args, Class: "-"})
	return len(c.Calls) - 1
}

var sanRe = regexp.MustCompile(`[^A-Za-z0-9_.=+-]+`)

func sanitize(k string) string { return sanRe.ReplaceAllString(k, "_") }

func variantByName(n string) variant {
	for _, v := range []variant{vGCC, vClang, vSan} {
		if v.Name == n {
			return v
		}
	}
	return vGCC
}

// ---------------------------------------------------------------- replay

// replay answers from a table filled by evaluating all corpus files
// concurrently (core.RunReplays calls it sequentially on the first shard).
func replay(test string, raw json.RawMessage) (string, string) {
	if os.Getenv("VERIF_MODE") == "corpus" {
		prewarmOnce.Do(prewarm)
		if r, ok := prewarmed[string(raw)]; ok {
			return r[0], r[1]
		}
	}
	return replayOne(test, raw)
}

var (
	prewarmOnce sync.Once
	prewarmed   = map[string][2]string{}
)

func prewarm() {
	files, _ := filepath.Glob(filepath.Join(core.VerifDir(), "corpus", prop, "*.json"))
	var mu sync.Mutex
	var wg sync.WaitGroup
	sem := make(chan struct{}, 8)
	for _, f := range files {
		rf, err := core.LoadReplay(f)
		if err != nil {
			continue
		}
		wg.Add(1)
		go func(rf *core.ReplayFile) {
			defer wg.Done()
			sem <- struct{}{}
			defer func() { <-sem }()
			defer func() { recover() }() // a panicking case is evaluated again (and reported) by the sequential path
			k, w := replayOne(rf.Test, rf.Case)
			mu.Lock()
			prewarmed[string(rf.Case)] = [2]string{k, w}
			mu.Unlock()
		}(rf)
	}
	wg.Wait()
}

func replayOne(test string, raw json.RawMessage) (string, string) {
	var p payload
	if err := json.Unmarshal(raw, &p); err != nil {
		return "harness/bad-replay", err.Error()
	}
	if p.Kind == "program" {
		key, what, _ := CompareProgramSource(p.Name, p.Src)
		if strings.HasPrefix(key, "rejected/") || strings.HasPrefix(key, "inconclusive/") {
			return "", ""
		}
		return key, what
	}
	if p.Case == nil {
		return "harness/bad-replay", "no case"
	}
	v := variantByName(p.Variant)
	ms, info := evalCase(p.Case, []variant{v})
	if strings.HasPrefix(info.rejected, "panic:") && len(p.Case.Funcs) >= 5 {
		return fmt.Sprintf("op=%s/%s@wat2c-panic", p.Case.Funcs[len(p.Case.Funcs)-5].Op, p.Case.Funcs[len(p.Case.Funcs)-5].ShapeClass()), "wat2c panics instead of translating or returning an error: " + head(info.rejected, 300)
	}
	if len(ms) > 0 {
		return ms[0].key, ms[0].what
	}
	return "", ""
}

func TestReplay(t *testing.T) { core.RunReplays(t, prop, replay) }
