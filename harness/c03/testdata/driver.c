/* Fixed C driver for C03: hosts the C code that wat2c generated (prefix "app"),
 * reads a call script on stdin and prints the opmatrix line protocol:
 *     R <hex result bits>* [M <hash> <pages>]     normal return
 *     T [M <hash> <pages>]                        trap (SIGFPE/SIGSEGV/SIGBUS/SIGILL/SIGABRT)
 * glue.c (generated per module by the harness, trivial marshalling only)
 * provides opm_funcs[].  With OPM_MARK=1 a marker "#<k>" is written to stderr
 * before call k so that sanitizer reports can be attributed to calls. */
#include <setjmp.h>
#include <signal.h>
#include <stdint.h>
#include <stdio.h>
#include <stdlib.h>
#include <string.h>
#include <unistd.h>

extern uint8_t *app_memory;
extern int32_t app_memory_size;
extern const int32_t app_memory_init_max_pages;
extern const int32_t app_memory_init_pages;
extern void app_init(void);

typedef void (*opm_thunk)(const uint64_t *args, uint64_t *res);
struct opm_func {
  const char *name;
  const char *params;  /* i I f F */
  const char *results; /* i I f F */
  int stateful;
  opm_thunk call;
};
extern struct opm_func opm_funcs[];
extern int opm_nfuncs;

static uint8_t *host_memory;

void app_memory_init(uint8_t **pp_memory, int32_t *page_size) {
  size_t n = (size_t)app_memory_init_max_pages * 65536u;
  host_memory = (uint8_t *)calloc(n + 64, 1);
  if (!host_memory) { fprintf(stderr, "driver: out of memory\n"); exit(3); }
  *pp_memory = host_memory;
  *page_size = app_memory_init_pages;
}

int32_t app_memory_grow(uint8_t **pp_memory, int32_t *page_size, int32_t new_size) {
  (void)pp_memory; (void)page_size; (void)new_size;
  return -1;
}

static sigjmp_buf trap_jmp;
static volatile sig_atomic_t in_call;

static void on_signal(int sig) {
  if (in_call) siglongjmp(trap_jmp, sig);
  _exit(4);
}

static void print_mem(void) {
  int32_t pages = app_memory_size;
  if (pages < 0 || pages > app_memory_init_max_pages) {
    printf(" M 0 %d", (int)pages); /* impossible size: reported as is, hash 0 */
    return;
  }
  uint32_t h1 = 2166136261u, h2 = 0x9747b28cu;
  size_t n = (size_t)pages * 65536u;
  for (size_t i = 0; i < n; i++) {
    uint32_t c = app_memory[i];
    h1 = (h1 ^ c) * 16777619u;
    h2 = (h2 + c + 1u) * 0x85ebca6bu;
  }
  printf(" M %x%08x %d", h1, h2, (int)pages);
}

int main(void) {
  static char altstack[1 << 16];
  stack_t ss;
  ss.ss_sp = altstack; ss.ss_size = sizeof altstack; ss.ss_flags = 0;
  sigaltstack(&ss, NULL);
  struct sigaction sa;
  memset(&sa, 0, sizeof sa);
  sa.sa_handler = on_signal;
  sa.sa_flags = SA_NODEFER | SA_ONSTACK;
  sigemptyset(&sa.sa_mask);
  int sigs[] = {SIGFPE, SIGSEGV, SIGBUS, SIGILL, SIGABRT};
  for (unsigned i = 0; i < sizeof sigs / sizeof sigs[0]; i++) sigaction(sigs[i], &sa, NULL);
  int mark = getenv("OPM_MARK") != NULL;

  app_init();

  char line[4096];
  int k = 0;
  while (fgets(line, sizeof line, stdin)) {
    char *p = line;
    long fi = strtol(p, &p, 10);
    if (fi < 0 || fi >= opm_nfuncs) { printf("X bad function index\n"); return 5; }
    struct opm_func *f = &opm_funcs[fi];
    uint64_t args[16], res[4] = {0, 0, 0, 0};
    size_t np = strlen(f->params);
    for (size_t i = 0; i < np; i++) args[i] = strtoull(p, &p, 16);
    if (mark) { fprintf(stderr, "#%d\n", k); fflush(stderr); }
    int trapped = 0;
    if (sigsetjmp(trap_jmp, 1) == 0) {
      in_call = 1;
      f->call(args, res);
      in_call = 0;
    } else {
      in_call = 0;
      trapped = 1;
    }
    if (trapped) {
      printf("T");
    } else {
      printf("R");
      for (size_t i = 0; f->results[i]; i++) {
        uint64_t v = res[i];
        if (f->results[i] == 'i' || f->results[i] == 'f') v &= 0xffffffffu;
        printf(" %llx", (unsigned long long)v);
      }
    }
    if (f->stateful) print_mem();
    printf("\n");
    k++;
  }
  fflush(stdout);
  return 0;
}
