/* Fixed C host for C03 layer II: runs a compiler-produced program that wat2c
 * translated (prefix "app") under a recording syscall_js host.  Every import
 * call is printed as  syscall_js.<name>(<hex raw bits>,...)[ <hex bytes>]  in
 * exactly the format of opmatrix.LogLine; the last line is END, EXIT <code>
 * or TRAP.  opm_main() (generated, one line) calls the program's main. */
#include <setjmp.h>
#include <signal.h>
#include <stdint.h>
#include <stdio.h>
#include <stdlib.h>
#include <string.h>
#include <unistd.h>

extern uint8_t *app_memory;
extern int32_t app_memory_size;
extern const int32_t app_memory_init_max_pages;
extern const int32_t app_memory_init_pages;
extern void app_init(void);
extern void opm_main(void);

static long log_lines, max_log = 20000;
static int overflow;

void app_memory_init(uint8_t **pp_memory, int32_t *page_size) {
  size_t n = (size_t)app_memory_init_max_pages * 65536u;
  uint8_t *m = (uint8_t *)calloc(n + 64, 1);
  if (!m) { fprintf(stderr, "host: out of memory\n"); exit(3); }
  *pp_memory = m;
  *page_size = app_memory_init_pages;
}
int32_t app_memory_grow(uint8_t **pp, int32_t *ps, int32_t n) { (void)pp; (void)ps; (void)n; return -1; }

static int room(void) {
  if (log_lines < max_log) { log_lines++; return 1; }
  overflow = 1;
  return 0;
}
static void finish(const char *end, long code) {
  if (overflow) printf("\xe2\x80\xa6log truncated\n");
  if (code >= 0) printf("%s %ld\n", end, code); else printf("%s\n", end);
  fflush(stdout);
  _exit(0);
}
static void hexmem(uint32_t ptr, uint32_t len) {
  uint64_t size = (uint64_t)(uint32_t)app_memory_size * 65536u;
  putchar(' ');
  if ((uint64_t)ptr + len > size) return;
  for (uint32_t i = 0; i < len; i++) printf("%02x", app_memory[ptr + i]);
}
static void f32bits(float v) { uint32_t b; memcpy(&b, &v, 4); if ((b & 0x7f800000u) == 0x7f800000u && (b & 0x7fffffu)) printf("nan"); else printf("%x", b); }
static void f64bits(double v) { uint64_t b; memcpy(&b, &v, 8); if ((b & 0x7ff0000000000000ull) == 0x7ff0000000000000ull && (b & 0xfffffffffffffull)) printf("nan"); else printf("%llx", (unsigned long long)b); }

#define U(x) ((unsigned)(uint32_t)(x))
void app_syscall_js_print_position(int32_t a) { if (room()) printf("syscall_js.print_position(%x)\n", U(a)); }
int32_t app_syscall_js_get_stdin_size(void) { if (room()) printf("syscall_js.get_stdin_size()\n"); return 0; }
void app_syscall_js_get_stdin_data(int32_t a) { if (room()) printf("syscall_js.get_stdin_data(%x)\n", U(a)); }
int32_t app_syscall_js_get_argument_count(void) { if (room()) printf("syscall_js.get_argument_count()\n"); return 0; }
int32_t app_syscall_js_get_argument_length(int32_t a) { if (room()) printf("syscall_js.get_argument_length(%x)\n", U(a)); return 0; }
void app_syscall_js_get_argument_data(int32_t a, int32_t b) { if (room()) printf("syscall_js.get_argument_data(%x,%x)\n", U(a), U(b)); }
void app_syscall_js_print_bool(int32_t a) { if (room()) printf("syscall_js.print_bool(%x)\n", U(a)); }
void app_syscall_js_print_i32(int32_t a) { if (room()) printf("syscall_js.print_i32(%x)\n", U(a)); }
void app_syscall_js_print_u32(int32_t a) { if (room()) printf("syscall_js.print_u32(%x)\n", U(a)); }
void app_syscall_js_print_ptr(int32_t a) { if (room()) printf("syscall_js.print_ptr(%x)\n", U(a)); }
void app_syscall_js_print_i64(int64_t a) { if (room()) printf("syscall_js.print_i64(%llx)\n", (unsigned long long)a); }
void app_syscall_js_print_u64(int64_t a) { if (room()) printf("syscall_js.print_u64(%llx)\n", (unsigned long long)a); }
void app_syscall_js_print_f32(float a) { if (room()) { printf("syscall_js.print_f32("); f32bits(a); printf(")\n"); } }
void app_syscall_js_print_f64(double a) { if (room()) { printf("syscall_js.print_f64("); f64bits(a); printf(")\n"); } }
void app_syscall_js_print_rune(int32_t a) { if (room()) printf("syscall_js.print_rune(%x)\n", U(a)); }
void app_syscall_js_print_str(int32_t p, int32_t n) { if (room()) { printf("syscall_js.print_str(%x,%x)", U(p), U(n)); hexmem(p, n); printf("\n"); } }
int32_t app_syscall_js_debug_read_file_len(int32_t a, int32_t b) { if (room()) printf("syscall_js.debug_read_file_len(%x,%x)\n", U(a), U(b)); return 0; }
void app_syscall_js_debug_read_file_data(int32_t a, int32_t b, int32_t c, int32_t d) { if (room()) printf("syscall_js.debug_read_file_data(%x,%x,%x,%x)\n", U(a), U(b), U(c), U(d)); }
void app_syscall_js_debug_write_file(int32_t a, int32_t b, int32_t c, int32_t d) { if (room()) { printf("syscall_js.debug_write_file(%x,%x,%x,%x)", U(a), U(b), U(c), U(d)); hexmem(c, d); printf("\n"); } }
void app_syscall_js_proc_exit(int32_t code) { if (room()) printf("syscall_js.proc_exit(%x)\n", U(code)); finish("EXIT", (long)(uint32_t)code); }

static void on_signal(int sig) { (void)sig; finish("TRAP", -1); }

int main(void) {
  static char altstack[1 << 16];
  stack_t ss;
  ss.ss_sp = altstack; ss.ss_size = sizeof altstack; ss.ss_flags = 0;
  sigaltstack(&ss, NULL);
  struct sigaction sa;
  memset(&sa, 0, sizeof sa);
  sa.sa_handler = on_signal;
  sa.sa_flags = SA_NODEFER | SA_ONSTACK;
  int sigs[] = {SIGFPE, SIGSEGV, SIGBUS, SIGILL, SIGABRT};
  for (unsigned i = 0; i < sizeof sigs / sizeof sigs[0]; i++) sigaction(sigs[i], &sa, NULL);
  static char buf[1 << 16];
  setvbuf(stdout, buf, _IOFBF, sizeof buf);
  app_init();
  opm_main();
  finish("END", -1);
  return 0;
}
