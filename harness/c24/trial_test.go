package c24

import (
	"fmt"
	"testing"

	"wa-lang.org/wa/zverif/harness/wk"
)

func TestTrial(t *testing.T) {
	w := wk.New(wk.Options{Bin: "/tmp/c24worker"})
	defer w.Close()
	files := map[string]string{
		"main.wa":  "import \"myapp/sub\"\n\nfunc main {\n\tprintln(sub.F_a())\n\tprintln(sub.F_b())\n}\n",
		"sub/a.wa": "// doc\n\n#wa:build x64 || fmt_tag\n\nfunc F_a() => int { return 1 }\n",
		"sub/b.wa": "func F_b() => int { return 2 }\n",
		"sub/c.wa": "#wa:build !js\n\nfunc F_c() => int { return 3 }\n",
	}
	for _, mode := range []string{"vfs", "dir"} {
		for _, os := range []string{"", "js", "wasm4", "arduino", "linux", "windows", "unknown", "wasi"} {
			for _, arch := range []string{"", "x64"} {
				o := w.Do("c24_load", map[string]interface{}{"pkgpath": "myapp", "files": files, "mode": mode,
					"cfg": map[string]interface{}{"os": os, "arch": arch, "tags": []string{"fmt_tag"}}})
				fmt.Printf("%s os=%q arch=%q: %s %s cpu=%dms\n", mode, os, arch, o.Kind, string(o.Result)+o.Err, o.CPUms)
			}
		}
	}
}
