package c24

import (
	"encoding/json"
	"fmt"
	"go/build/constraint"
	"sort"
	"strings"
	"testing"

	"pgregory.net/rapid"
	"wa-lang.org/wa/internal/loader/buildtag"
	"wa-lang.org/wa/zverif/harness/core"
	"wa-lang.org/wa/zverif/harness/wk"
)

const prop = "C24"

func TestMain(m *testing.M) { core.Main(m) }

// ---------------------------------------------------------------- case

type kase struct {
	Kind    string `json:"kind"`              // expr | malformed | soup | load
	Line    string `json:"line,omitempty"`    // expr / malformed / soup: the constraint line
	Formula *node  `json:"formula,omitempty"` // expr: what the line was rendered from
	Class   string `json:"class,omitempty"`   // malformed: how it was broken
	Load    *load  `json:"load,omitempty"`
}

// ---------------------------------------------------------------- expression oracle

// exprText is the part of a "#wa:build" line after the prefix, as a reader of
// the documentation would extract it (independent of splitWaBuild).
func exprText(line string) (string, bool) {
	line = strings.TrimSuffix(line, "\n")
	if !strings.HasPrefix(line, prefix) || strings.Contains(line, "\n") {
		return "", false
	}
	rest := line[len(prefix):]
	if rest != "" && rest[0] != ' ' && rest[0] != '\t' {
		return "", false
	}
	return strings.TrimSpace(rest), true
}

func parseWa(line string) (e buildtag.Expr, err error) { return buildtag.Parse(line) }

// goRef parses the same expression with go/build/constraint, whose syntax the
// package documents as its model.
func goRef(expr string) (constraint.Expr, error) { return constraint.Parse("//go:build " + expr) }

func goTags(e constraint.Expr, set map[string]bool) {
	switch x := e.(type) {
	case *constraint.TagExpr:
		set[x.Tag] = true
	case *constraint.NotExpr:
		goTags(x.X, set)
	case *constraint.AndExpr:
		goTags(x.X, set)
		goTags(x.Y, set)
	case *constraint.OrExpr:
		goTags(x.X, set)
		goTags(x.Y, set)
	}
}

func firstDiff(a, b []bool) int {
	for i := range a {
		if a[i] != b[i] {
			return i
		}
	}
	return -1
}

// checkExpr: the line was rendered from formula f; the parsed expression must
// agree with f under every assignment, and so must its printed form re-parsed.
func checkExpr(line string, f *node) (key, what string) {
	tags := f.tagList()
	want := truthTable(tags, f.eval)
	if !buildtag.IsWaBuild(line) {
		return "prefix/IsWaBuild-false", fmt.Sprintf("IsWaBuild(%q) = false", line)
	}
	e, err := parseWa(line)
	if err != nil {
		return "parse/rejects-valid", fmt.Sprintf("Parse(%q): %v", line, err)
	}
	if i := firstDiff(want, truthTable(tags, e.Eval)); i >= 0 {
		return "eval/differs-from-formula", fmt.Sprintf("Parse(%q) evaluates to %v under %s, the formula written in the line to %v (parsed as %s)", line, !want[i], assignment(tags, i), want[i], e.String())
	}
	printed := e.String()
	e2, err := parseWa(prefix + " " + printed)
	if err != nil {
		k := "string/reparse-rejected"
		if strings.Contains(printed, "!!") {
			k += "/double-negation"
		}
		return k, fmt.Sprintf("Parse(%q).String() = %q, which Parse rejects: %v", line, printed, err)
	}
	if i := firstDiff(want, truthTable(tags, e2.Eval)); i >= 0 {
		return "string/reparse-not-equivalent", fmt.Sprintf("Parse(%q).String() = %q re-parses to an expression that is %v under %s, the original is %v", line, printed, !want[i], assignment(tags, i), want[i])
	}
	// second opinion: the harness's rendering really means f
	if txt, ok := exprText(line); ok {
		g, gerr := goRef(txt)
		if gerr != nil {
			return "harness/go-rejects-rendered-formula", fmt.Sprintf("go/build/constraint rejects %q: %v", txt, gerr)
		}
		if i := firstDiff(want, truthTable(tags, g.Eval)); i >= 0 {
			return "harness/go-disagrees-with-formula", fmt.Sprintf("go/build/constraint evaluates %q differently from the generated formula under %s", txt, assignment(tags, i))
		}
	} else {
		return "harness/bad-line", fmt.Sprintf("generated line %q does not carry the prefix", line)
	}
	return "", ""
}

// checkMalformed: the line must be rejected. skip is set when the harness's
// second opinion does not confirm that the line is malformed.
func checkMalformed(line, class string) (key, what string, skip bool) {
	if txt, ok := exprText(line); ok {
		if _, gerr := goRef(txt); gerr == nil {
			return "", "", true
		}
	} else if buildtag.IsWaBuild(line) {
		return "prefix/IsWaBuild-true/" + class, fmt.Sprintf("IsWaBuild(%q) = true although the line does not start with %q followed by a blank", line, prefix), false
	}
	e, err := parseWa(line)
	if err == nil {
		return "parse/accepts-malformed/" + class, fmt.Sprintf("Parse(%q) succeeded (%s)", line, e.String()), false
	}
	return "", "", false
}

// checkSoup: arbitrary token sequences, differential against go/build/constraint.
func checkSoup(line string) (key, what string, accepted bool) {
	txt, ok := exprText(line)
	if !ok {
		return "harness/bad-line", line, false
	}
	g, gerr := goRef(txt)
	e, err := parseWa(line)
	switch {
	case gerr != nil && err == nil:
		return "parse/accepts-malformed/go-rejects", fmt.Sprintf("Parse(%q) succeeded (%s); go/build/constraint: %v", line, e.String(), gerr), false
	case gerr == nil && err != nil:
		return "parse/rejects-valid", fmt.Sprintf("Parse(%q): %v; go/build/constraint accepts it as %s", line, err, g.String()), false
	case gerr != nil:
		return "", "", false
	}
	set := map[string]bool{}
	goTags(g, set)
	var tags []string
	for t := range set {
		tags = append(tags, t)
	}
	sort.Strings(tags)
	if len(tags) > 10 {
		tags = tags[:10]
	}
	want := truthTable(tags, g.Eval)
	if i := firstDiff(want, truthTable(tags, e.Eval)); i >= 0 {
		return "eval/differs-from-go-reference", fmt.Sprintf("Parse(%q) is %v under %s, go/build/constraint says %v", line, !want[i], assignment(tags, i), want[i]), true
	}
	e2, err := parseWa(prefix + " " + e.String())
	if err != nil {
		k := "string/reparse-rejected"
		if strings.Contains(e.String(), "!!") {
			k += "/double-negation"
		}
		return k, fmt.Sprintf("Parse(%q).String() = %q, which Parse rejects: %v", line, e.String(), err), true
	}
	if i := firstDiff(want, truthTable(tags, e2.Eval)); i >= 0 {
		return "string/reparse-not-equivalent", fmt.Sprintf("Parse(%q).String() = %q is not equivalent under %s", line, e.String(), assignment(tags, i)), true
	}
	return "", "", true
}

// ---------------------------------------------------------------- expression tests

func TestExprSemantics(t *testing.T) {
	s := core.NewStats(prop, "ExprSemantics")
	s.Rule("rapid: formula tree (depth <= 8, <= 48 nodes) over 1-6 tags drawn from a six-tag alphabet plus the real OS/arch names, rendered with the parentheses the grammar needs plus random redundant ones and random blanks, behind '#wa:build' with random separator/trailer; oracle = the harness evaluates its own tree: Parse(line).Eval equals it under all 2^k assignments, Parse(Parse(line).String()) likewise, IsWaBuild(line); go/build/constraint must agree with the tree (harness self-check); non-trivial = >= 3 distinct tags, a negation applied to a parenthesised sub-formula, neither tautology nor unsatisfiable; distinct by line")
	dnKnown := core.IsKnown(prop, "string/reparse-rejected/double-negation")
	s.Check(t, func(t *rapid.T, c *core.Case) {
		tags := genTagPool(t)
		budget := 48
		f := genFormula(t, tags, rapid.SampledFrom([]int{4, 3, 5, 2, 6, 7, 8, 1}).Draw(t, "depth"), &budget)
		line := genLine(t, render(t, f, ctxOr, false))
		c.Set(kase{Kind: "expr", Line: line, Formula: f})
		if dnKnown && hasDoubleNot(f) {
			s.Counter("excluded_by_known/string/reparse-rejected/double-negation", 1)
			c.Class("excluded:double-negation")
			return
		}
		used := f.tagList()
		tt := truthTable(used, f.eval)
		nTrue := 0
		for _, b := range tt {
			if b {
				nTrue++
			}
		}
		c.Class(fmt.Sprintf("tags=%d", len(used)))
		c.Class(fmt.Sprintf("depth=%d", f.depth()))
		switch {
		case nTrue == 0:
			c.Class("unsatisfiable")
		case nTrue == len(tt):
			c.Class("tautology")
		default:
			c.Class("contingent")
		}
		if f.negatesGroup() {
			c.Class("negated-group")
		}
		if hasDoubleNot(f) {
			c.Class("not-of-not")
		}
		if key, what := checkExpr(line, f); key != "" {
			c.Fail(key, "%s", what)
		}
		if len(used) >= 3 && f.negatesGroup() && nTrue > 0 && nTrue < len(tt) {
			c.Nontrivial(line)
		}
	})
}

func hasDoubleNot(n *node) bool {
	if n == nil {
		return false
	}
	if n.Op == "not" && n.X.Op == "not" {
		return true
	}
	return hasDoubleNot(n.X) || hasDoubleNot(n.Y)
}

// genMalformed breaks a well-formed expression in one named way.
func genMalformed(t *rapid.T) (line, class string) {
	tags := genTagPool(t)
	budget := 10
	mk := func() string {
		return render(t, genFormula(t, tags, rapid.IntRange(1, 3).Draw(t, "depth"), &budget), ctxOr, true)
	}
	e := mk()
	tag := rapid.SampledFrom(tags).Draw(t, "t")
	class = rapid.SampledFrom([]string{"unbalanced-open", "unbalanced-close", "dangling-op-end", "dangling-op-start", "double-op",
		"double-negation", "empty", "empty-parens", "illegal-char", "single-amp-or-bar", "adjacent-tags", "bang-alone", "no-prefix", "multi-line"}).Draw(t, "class")
	expr := ""
	switch class {
	case "unbalanced-open":
		expr = rapid.SampledFrom([]string{"(" + e, "( " + e + " && " + tag, e + " && (" + tag, "((" + e + ")"}).Draw(t, "v")
	case "unbalanced-close":
		expr = rapid.SampledFrom([]string{e + ")", "(" + e + "))", ")" + e, tag + ") && (" + e}).Draw(t, "v")
	case "dangling-op-end":
		expr = e + rapid.SampledFrom([]string{" &&", " ||", "&&", " && !"}).Draw(t, "v")
	case "dangling-op-start":
		expr = rapid.SampledFrom([]string{"&& ", "|| ", "||"}).Draw(t, "v") + e
	case "double-op":
		expr = e + rapid.SampledFrom([]string{" && || ", " || && ", " && && ", " || || "}).Draw(t, "v") + mk()
	case "double-negation":
		expr = rapid.SampledFrom([]string{"!!" + tag, "! !" + tag, e + " && !!" + tag, "!!(" + e + ")"}).Draw(t, "v")
	case "empty":
		return prefix + rapid.SampledFrom([]string{"", " ", "\t", "  \n", "\n"}).Draw(t, "v"), class
	case "empty-parens":
		expr = rapid.SampledFrom([]string{"()", e + " && ()", "( )", "!()"}).Draw(t, "v")
	case "illegal-char":
		ch := rapid.SampledFrom([]string{"-", "+", ",", "/", "\"", "=", "<", "$", "@", "~", "*", ":", ";", "#", "\\", "'", "?", "[", "{", "%", "^"}).Draw(t, "ch")
		expr = rapid.SampledFrom([]string{tag + ch + "x", ch + tag, tag + ch, e + " && " + tag + ch + "y", e + " " + ch + " " + tag}).Draw(t, "v")
	case "single-amp-or-bar":
		expr = e + rapid.SampledFrom([]string{" & ", " | ", "&", "|", " &&& ", " ||| ", " &| "}).Draw(t, "v") + tag
	case "adjacent-tags":
		expr = rapid.SampledFrom([]string{tag + " " + tag, e + " " + tag, tag + " (" + e + ")", "(" + e + ") " + tag, "(" + e + ")(" + tag + ")"}).Draw(t, "v")
	case "bang-alone":
		expr = rapid.SampledFrom([]string{"!", e + " && !", "! && " + tag, "(!)", tag + "!"}).Draw(t, "v")
	case "no-prefix":
		return rapid.SampledFrom([]string{"wa:build " + e, "# wa:build " + e, "#wa:buildx " + e, "#wa:build" + tag, " #wa:build " + e, "//go:build " + e,
			"#WA:BUILD " + e, "#wa:Build " + e, "//#wa:build " + e, "#wa: build " + e, e, "", "#wa:buil " + e, "#wa:build_ " + e}).Draw(t, "v"), class
	case "multi-line":
		return rapid.SampledFrom([]string{prefix + " " + e + "\n" + prefix + " " + tag, prefix + " " + e + "\n\n", prefix + "\n" + e, prefix + " " + tag + "\n&& " + e + "\n", "\n" + prefix + " " + e}).Draw(t, "v"), class
	}
	return prefix + " " + expr, class
}

func TestMalformedRejected(t *testing.T) {
	s := core.NewStats(prop, "MalformedRejected")
	s.Rule("rapid: a small well-formed expression broken in one of 14 named ways (unbalanced parentheses, dangling/doubled operators, '!!', empty, '()', illegal tag characters, single & or |, adjacent tags, lone '!', missing/garbled prefix, several lines); oracle = Parse returns an error (and does not panic), IsWaBuild is false when the prefix is missing; lines that go/build/constraint nevertheless accepts are not judged (counter second_opinion_accepts); every judged case is non-trivial, distinct by line")
	s.Check(t, func(t *rapid.T, c *core.Case) {
		line, class := genMalformed(t)
		c.Set(kase{Kind: "malformed", Line: line, Class: class})
		key, what, skip := checkMalformed(line, class)
		if skip {
			s.Counter("rejected_by_domain/second_opinion_accepts/"+class, 1)
			c.Class("not-judged:" + class)
			return
		}
		c.Class(class)
		if key != "" {
			c.Fail(key, "%s", what)
		}
		c.Nontrivial(line)
	})
}

var soupTokens = []string{"a", "b", "c.d", "x64", "&&", "||", "!", "(", ")", "&", "|", "-", "!!", "()"}

// tokens splits a minimally rendered expression (single blanks) into tokens.
func tokens(expr string) []string {
	var out []string
	for _, f := range strings.Fields(expr) {
		for f != "" {
			switch {
			case f[0] == '(' || f[0] == ')' || f[0] == '!':
				out = append(out, f[:1])
				f = f[1:]
			default:
				i := strings.IndexAny(f, "()!")
				if i < 0 {
					i = len(f)
				}
				out = append(out, f[:i])
				f = f[i:]
			}
		}
	}
	return out
}

func TestTokenSoup(t *testing.T) {
	s := core.NewStats(prop, "TokenSoup")
	s.Rule("rapid: the token list of a well-formed expression after 0-3 random edits (delete / insert / replace / swap, inserted tokens drawn from tags, &&, ||, !, (, ) and a few illegal ones), joined with random blanks; oracle = differential against go/build/constraint (the documented model): same accept/reject, same value under every assignment when accepted, printed form re-parses equivalently; non-trivial = at least one edit, still accepted by the reference, and containing a negation and a parenthesis; distinct by line")
	s.Assume("go/build/constraint (Go 1.23 standard library) is a correct reference for the shared '&&, ||, !, ()' syntax")
	dnKnown := core.IsKnown(prop, "string/reparse-rejected/double-negation")
	s.Check(t, func(t *rapid.T, c *core.Case) {
		tags := genTagPool(t)
		budget := 14
		f := genFormula(t, tags, rapid.SampledFrom([]int{3, 2, 4, 1}).Draw(t, "depth"), &budget)
		toks := tokens(render(t, f, ctxOr, true))
		nedits := rapid.SampledFrom([]int{1, 2, 0, 3}).Draw(t, "nedits")
		for i := 0; i < nedits && len(toks) > 0; i++ {
			at := rapid.IntRange(0, len(toks)-1).Draw(t, "at")
			switch rapid.SampledFrom([]string{"delete", "insert", "replace", "swap"}).Draw(t, "edit") {
			case "delete":
				toks = append(toks[:at:at], toks[at+1:]...)
			case "insert":
				toks = append(toks[:at:at], append([]string{rapid.SampledFrom(soupTokens).Draw(t, "tok")}, toks[at:]...)...)
			case "replace":
				toks[at] = rapid.SampledFrom(soupTokens).Draw(t, "tok")
			default:
				o := rapid.IntRange(0, len(toks)-1).Draw(t, "with")
				toks[at], toks[o] = toks[o], toks[at]
			}
		}
		var sb strings.Builder
		for _, tk := range toks {
			sb.WriteString(tk)
			sb.WriteString(rapid.SampledFrom([]string{" ", " ", "", "\t"}).Draw(t, "gap"))
		}
		line := prefix + " " + sb.String()
		c.Set(kase{Kind: "soup", Line: line})
		key, what, accepted := checkSoup(line)
		if key == "string/reparse-rejected/double-negation" && dnKnown {
			s.Counter("excluded_by_known/"+key, 1)
			c.Class("excluded:double-negation")
			return
		}
		if key != "" {
			c.Fail(key, "%s", what)
		}
		c.Class(fmt.Sprintf("edits=%d", nedits))
		if accepted {
			c.Class("accepted")
			if nedits > 0 {
				c.Class("accepted-after-edit")
			}
			if nedits > 0 && strings.Contains(line, "!") && strings.Contains(line, "(") {
				c.Nontrivial(line)
			}
		} else {
			c.Class("rejected-by-both")
		}
	})
}

// TestExprEnumTokens enumerates every token sequence up to a length bound over
// a seven-token alphabet (exhaustive for that sub-domain).
func TestExprEnumTokens(t *testing.T) {
	s := core.NewStats(prop, "ExprEnumTokens")
	defer s.Flush()
	maxLen := core.Scale(6, 8)
	s.Rule(fmt.Sprintf("enumeration (exhaustive for this sub-domain): every sequence of 1..%d tokens over {a, b, &&, ||, !, (, )} joined by single blanks; oracle as in TokenSoup (differential against go/build/constraint on accept/reject, value under all 4 assignments, print/re-parse); non-trivial = accepted and containing both '!' and '(' (all hashed; exact count also in nontrivial_enumerated)", maxLen))
	s.Exhaustive(true)
	dnKnown := core.IsKnown(prop, "string/reparse-rejected/double-negation")
	alphabet := []string{"a", "b", "&&", "||", "!", "(", ")"}
	sh, n := core.Shard()
	var evals, accepted, nontriv, excluded int64
	idx := 0
	toks := make([]string, 0, maxLen)
	var rec func()
	rec = func() {
		if len(toks) > 0 {
			idx++
			if idx%n == sh {
				line := prefix + " " + strings.Join(toks, " ")
				evals++
				key, what, acc := checkSoup(line)
				if key == "string/reparse-rejected/double-negation" && dnKnown {
					excluded++
					key = ""
				}
				if key != "" {
					c := s.NewCase(t)
					c.Set(kase{Kind: "soup", Line: line})
					c.Fail(key, "%s", what)
				}
				if acc {
					accepted++
					if strings.Contains(line, "!") && strings.Contains(line, "(") {
						nontriv++
						s.Nontrivial(core.Hash64(line)) // (the hash set is capped by core)
						if nontriv&63 == 1 {
							s.Sample(kase{Kind: "soup", Line: line})
						}
					}
				}
			}
		}
		if len(toks) == maxLen {
			return
		}
		for _, tk := range alphabet {
			toks = append(toks, tk)
			rec()
			toks = toks[:len(toks)-1]
		}
	}
	rec()
	s.Eval(evals)
	s.Count("accepted", accepted)
	s.Count("rejected-by-both", evals-accepted)
	s.Counter("nontrivial_enumerated", nontriv)
	if excluded > 0 {
		s.Counter("excluded_by_known/string/reparse-rejected/double-negation", excluded)
	}
}

// ---------------------------------------------------------------- loader part

// load is a generated module: a main package that imports one library package
// whose files carry build constraints.
type load struct {
	Mode  string     `json:"mode"` // vfs | dir
	OS    string     `json:"os"`   // "" = default
	Arch  string     `json:"arch"` // "" = default
	Tags  []string   `json:"tags"`
	Files []fileSpec `json:"files"`          // files of package myapp/lib
	Use   []string   `json:"use"`            // functions main calls
	Probe string     `json:"probe,omitempty"` // a function of an excluded file that main calls as well (the load must fail)
}

type fileSpec struct {
	Name      string `json:"name"`                // f0.wa ...; declares func F_f0
	Line      string `json:"line,omitempty"`      // constraint line ("" = unconstrained)
	Formula   *node  `json:"formula,omitempty"`   // what Line was rendered from
	Header    bool   `json:"header,omitempty"`    // a // comment block precedes the constraint
	Malformed bool   `json:"malformed,omitempty"` // Line is not a well-formed constraint
}

func (f fileSpec) fn() string { return "F_" + strings.TrimSuffix(f.Name, ".wa") }

func (f fileSpec) source() string {
	var sb strings.Builder
	if f.Header {
		sb.WriteString("// generated by the C24 check\n// (a header comment before the constraint)\n\n")
	}
	if f.Line != "" {
		sb.WriteString(strings.TrimRight(f.Line, "\r\n") + "\n\n")
	}
	fmt.Fprintf(&sb, "func %s() => int {\n\treturn %d\n}\n", f.fn(), len(f.Name))
	return sb.String()
}

const (
	defaultOS   = "js"   // config.WaOS_Default
	defaultArch = "wasm" // config.WaArch_Default
)

// included: the property's definition — the constraint evaluated for the
// configured target (OS, architecture) and tags.
func (l *load) included(f fileSpec, arch string) bool {
	if f.Line == "" {
		return true
	}
	os := l.OS
	if os == "" {
		os = defaultOS
	}
	return f.Formula.eval(func(tag string) bool {
		if tag == os || tag == arch {
			return true
		}
		for _, x := range l.Tags {
			if x == tag {
				return true
			}
		}
		return false
	})
}

func (l *load) arch() string {
	if l.Arch == "" {
		return defaultArch
	}
	return l.Arch
}

func (l *load) files() map[string]string {
	m := map[string]string{}
	var sb strings.Builder
	sb.WriteString("import \"myapp/lib\"\n\nfunc main {\n")
	for _, fn := range l.Use {
		fmt.Fprintf(&sb, "\tprintln(lib.%s())\n", fn)
	}
	if l.Probe != "" {
		fmt.Fprintf(&sb, "\tprintln(lib.%s())\n", l.Probe)
	}
	sb.WriteString("}\n")
	m["main.wa"] = sb.String()
	for _, f := range l.Files {
		m["lib/"+f.Name] = f.source()
	}
	return m
}

const archKey = "loader/configured-arch-ignored"

var worker *wk.Client

func getWorker() *wk.Client {
	if worker == nil {
		worker = wk.New(wk.Options{})
	}
	return worker
}

// checkLoad loads the module in the worker and compares the set of included
// files with the property's definition. inconclusive is set when the worker
// could not produce an outcome (time-out): never a violation.
func checkLoad(l *load) (key, what string, inconclusive bool) {
	var want []string
	malformed := false
	archMatters := false
	for _, f := range l.Files {
		if f.Malformed {
			malformed = true
			continue
		}
		if l.included(f, l.arch()) {
			want = append(want, f.fn())
		}
		if l.included(f, l.arch()) != l.included(f, defaultArch) {
			archMatters = true
		}
	}
	sort.Strings(want)
	o := getWorker().Do("c24_load", map[string]interface{}{
		"pkgpath": "myapp", "files": l.files(), "mode": l.Mode,
		"cfg": map[string]interface{}{"os": l.OS, "arch": l.Arch, "tags": l.Tags},
	})
	cause := "loader"
	if archMatters {
		cause = archKey
	}
	desc := fmt.Sprintf("target os=%q arch=%q tags=%v mode=%s", l.OS, l.Arch, l.Tags, l.Mode)
	switch o.Kind {
	case wk.Timeout:
		return "", "", true
	case wk.Panic, wk.Exited, wk.Killed:
		return "loader/crash", fmt.Sprintf("%s: %s", desc, o.String()), false
	case wk.Error:
		if malformed || l.Probe != "" {
			if malformed && !strings.Contains(o.Err, "wa:build") {
				return cause + "/malformed-constraint-other-error", fmt.Sprintf("%s: a file with the malformed constraint %q made the load fail, but not with a constraint diagnostic: %s", desc, malformedLine(l), o.Err), false
			}
			return "", "", false
		}
		return cause + "/load-fails", fmt.Sprintf("%s: main only uses functions of files whose constraints hold (%v), yet the load fails: %s\n%s", desc, want, o.Err, describe(l)), false
	}
	if malformed {
		return cause + "/malformed-constraint-accepted", fmt.Sprintf("%s: the load succeeded although lib has a file with the malformed constraint %q", desc, malformedLine(l)), false
	}
	if l.Probe != "" {
		return cause + "/excluded-file-visible", fmt.Sprintf("%s: main calls lib.%s, defined only in a file whose constraint is false, yet the load succeeded\n%s", desc, l.Probe, describe(l)), false
	}
	var r struct {
		Pkgs map[string][]string `json:"pkgs"`
	}
	if err := o.Decode(&r); err != nil {
		return "harness/bad-worker-reply", err.Error(), false
	}
	got := r.Pkgs["myapp/lib"]
	if strings.Join(got, ",") != strings.Join(want, ",") {
		return cause + "/wrong-file-set", fmt.Sprintf("%s: files included in package lib: %v, constraints select %v\n%s", desc, got, want, describe(l)), false
	}
	return "", "", false
}

func malformedLine(l *load) string {
	for _, f := range l.Files {
		if f.Malformed {
			return f.Line
		}
	}
	return ""
}

func describe(l *load) string {
	var sb strings.Builder
	for _, f := range l.Files {
		fmt.Fprintf(&sb, "  %s: %q -> %v\n", f.Name, f.Line, f.Line == "" || f.Malformed || l.included(f, l.arch()))
	}
	return sb.String()
}

func TestLoaderInclusion(t *testing.T) {
	s := core.NewStats(prop, "LoaderInclusion")
	s.Rule("rapid: module myapp = main + library package lib with 2-5 files, each declaring one function; files carry no constraint, a generated constraint (formula over OS names, architecture names and custom tags; first line or after a comment header) or, rarely, a malformed one; Config{TargetOS, TargetArch, BuilgTags} drawn over the real OS/arch lists and tag subsets; loaded in a child process through loader.LoadProgramVFS (in-memory) or loader.LoadProgram (scratch directory); main calls every function whose file should be included (load must succeed and the loaded package must consist of exactly those files), sometimes also one from an excluded file (load must fail); oracle = the harness evaluates its own formula for (os, arch, tags); non-trivial = some constrained file mentions an OS or architecture name together with another tag, and the package has both an included and an excluded constrained file; distinct by module text + config")
	s.Assume("a worker time-out is inconclusive and only counted")
	defer func() {
		if worker != nil {
			worker.Close()
		}
	}()
	archKnown := core.IsKnown(prop, archKey+"/wrong-file-set")
	s.Check(t, func(t *rapid.T, c *core.Case) {
		l := &load{
			Mode: rapid.SampledFrom([]string{"vfs", "dir"}).Draw(t, "mode"),
			OS:   rapid.SampledFrom(append([]string{""}, osNames...)).Draw(t, "os"),
			Arch: rapid.SampledFrom(append([]string{"", ""}, archNames...)).Draw(t, "arch"),
		}
		for _, tg := range customTags {
			if rapid.IntRange(0, 3).Draw(t, "tag-on") == 3 {
				l.Tags = append(l.Tags, tg)
			}
		}
		nfiles := rapid.SampledFrom([]int{4, 3, 5, 2}).Draw(t, "nfiles")
		l.Files = append(l.Files, fileSpec{Name: "f0.wa"}) // lib always has an unconstrained file
		anyMalformed := false
		for i := 1; i < nfiles; i++ {
			f := fileSpec{Name: fmt.Sprintf("f%d.wa", i), Header: rapid.Bool().Draw(t, "header")}
			switch k := rapid.SampledFrom([]int{2, 2, 2, 2, 2, 2, 2, 2, 2, 0, 2, 2, 2, 2, 2, 2, 2, 2, 2, 1}).Draw(t, "fkind"); {
			case k == 0:
			case k == 1 && !anyMalformed:
				f.Line, _ = genMalformedConstraint(t)
				f.Malformed = true
				anyMalformed = true
			default:
				// tags that make the outcome depend on the configuration
				pool := []string{rapid.SampledFrom(osNames).Draw(t, "os-tag"), rapid.SampledFrom(archNames).Draw(t, "arch-tag"), rapid.SampledFrom(customTags).Draw(t, "custom-tag")}
				if l.OS != "" && rapid.Bool().Draw(t, "own-os") {
					pool[0] = l.OS
				}
				if l.Arch != "" && rapid.Bool().Draw(t, "own-arch") {
					pool[1] = l.Arch
				}
				budget := 12
				rot := rapid.IntRange(0, 2).Draw(t, "rot")
				pool = append(pool[rot:], pool[:rot]...)
				f.Formula = genFormula(t, pool[:rapid.SampledFrom([]int{3, 2, 3, 1}).Draw(t, "pool")], rapid.SampledFrom([]int{3, 2, 4, 1}).Draw(t, "depth"), &budget)
				f.Line = genLine(t, render(t, f.Formula, ctxOr, false))
			}
			l.Files = append(l.Files, f)
		}
		var excluded []string
		nIncl, nExcl, mixed := 0, 0, false
		archMatters := false
		for _, f := range l.Files {
			if f.Malformed {
				continue
			}
			if l.included(f, l.arch()) != l.included(f, defaultArch) {
				archMatters = true
			}
			if l.included(f, l.arch()) {
				l.Use = append(l.Use, f.fn())
				if f.Line != "" {
					nIncl++
				}
			} else {
				excluded = append(excluded, f.fn())
				nExcl++
			}
			if f.Formula != nil {
				tl := f.Formula.tagList()
				if len(tl) >= 2 {
					for _, x := range tl {
						for _, y := range append(append([]string{}, osNames...), archNames...) {
							mixed = mixed || x == y
						}
					}
				}
			}
		}
		if len(excluded) > 0 && !anyMalformed && rapid.IntRange(0, 3).Draw(t, "probe") == 3 {
			l.Probe = rapid.SampledFrom(excluded).Draw(t, "probe-fn")
		}
		c.Set(kase{Kind: "load", Load: l})
		if archMatters && archKnown {
			s.Counter("excluded_by_known/"+archKey, 1)
			c.Class("excluded:configured-arch-decides")
			return
		}
		c.Class("mode:" + l.Mode)
		c.Class("os:" + l.OS)
		c.Class("arch:" + l.Arch)
		c.Class(fmt.Sprintf("constrained-included=%d", nIncl))
		c.Class(fmt.Sprintf("constrained-excluded=%d", nExcl))
		if archMatters {
			c.Class("configured-arch-decides")
		}
		if anyMalformed {
			c.Class("malformed-constraint")
		}
		if l.Probe != "" {
			c.Class("probe-excluded-function")
		}
		key, what, inconclusive := checkLoad(l)
		if inconclusive {
			s.Counter("inconclusive/worker-timeout", 1)
			return
		}
		if key != "" {
			c.Fail(key, "%s", what)
		}
		if mixed && nIncl > 0 && nExcl > 0 {
			c.Nontrivial()
		}
	})
}

// genMalformedConstraint: a broken constraint that still is a "#wa:build" line
// (otherwise the loader would rightly treat it as an ordinary comment).
func genMalformedConstraint(t *rapid.T) (string, string) {
	for {
		line, class := genMalformed(t)
		if class == "no-prefix" || class == "multi-line" {
			continue
		}
		if txt, ok := exprText(line); ok {
			if _, err := goRef(txt); err != nil && !strings.ContainsAny(line, "\n\r") {
				return line, class
			}
		}
	}
}

// ---------------------------------------------------------------- replay

func replay(test string, raw json.RawMessage) (string, string) {
	var k kase
	if err := json.Unmarshal(raw, &k); err != nil {
		return "harness/bad-replay", err.Error()
	}
	switch k.Kind {
	case "expr":
		if k.Formula == nil {
			return "harness/bad-replay", "no formula"
		}
		return checkExpr(k.Line, k.Formula)
	case "malformed":
		key, what, _ := checkMalformed(k.Line, k.Class)
		return key, what
	case "soup":
		key, what, _ := checkSoup(k.Line)
		return key, what
	case "load":
		if k.Load == nil {
			return "harness/bad-replay", "no module"
		}
		defer func() {
			if worker != nil {
				worker.Close()
				worker = nil
			}
		}()
		key, what, _ := checkLoad(k.Load)
		return key, what
	}
	return "harness/bad-replay", "unknown kind " + k.Kind
}

func TestReplay(t *testing.T) { core.RunReplays(t, prop, replay) }
