// Package c24 checks property C24: build-tag expressions have Boolean
// semantics, print/re-parse equivalently, malformed lines are rejected, and
// the loader includes a non-main source file exactly when its constraint holds.
package c24

import (
	"sort"
	"strings"

	"pgregory.net/rapid"
)

// node is the harness's own formula tree: it is generated first, rendered to
// text second, and evaluated by the harness itself — the parser under test
// never sees it.
type node struct {
	Op  string `json:"op"` // tag | not | and | or
	Tag string `json:"tag,omitempty"`
	X   *node  `json:"x,omitempty"`
	Y   *node  `json:"y,omitempty"`
}

func (n *node) eval(ok func(string) bool) bool {
	switch n.Op {
	case "tag":
		return ok(n.Tag)
	case "not":
		return !n.X.eval(ok)
	case "and":
		return n.X.eval(ok) && n.Y.eval(ok)
	}
	return n.X.eval(ok) || n.Y.eval(ok)
}

func (n *node) tags(set map[string]bool) {
	if n == nil {
		return
	}
	if n.Op == "tag" {
		set[n.Tag] = true
	}
	n.X.tags(set)
	n.Y.tags(set)
}

func (n *node) tagList() []string {
	set := map[string]bool{}
	n.tags(set)
	out := make([]string, 0, len(set))
	for t := range set {
		out = append(out, t)
	}
	sort.Strings(out)
	return out
}

// negatesGroup: some negation is applied to a parenthesised (non-tag) operand.
func (n *node) negatesGroup() bool {
	if n == nil {
		return false
	}
	if n.Op == "not" && n.X.Op != "tag" {
		return true
	}
	return n.X.negatesGroup() || n.Y.negatesGroup()
}

func (n *node) depth() int {
	if n == nil {
		return 0
	}
	d := n.X.depth()
	if e := n.Y.depth(); e > d {
		d = e
	}
	return d + 1
}

// truthTable evaluates f under all 2^k assignments of tags (bit i of the index
// = tags[i] is set).
func truthTable(tags []string, f func(ok func(string) bool) bool) []bool {
	out := make([]bool, 1<<uint(len(tags)))
	for m := range out {
		mm := m
		out[m] = f(func(t string) bool {
			for i, x := range tags {
				if x == t {
					return mm>>uint(i)&1 == 1
				}
			}
			return false
		})
	}
	return out
}

func assignment(tags []string, m int) string {
	var on []string
	for i, t := range tags {
		if m>>uint(i)&1 == 1 {
			on = append(on, t)
		}
	}
	return "{" + strings.Join(on, ",") + "}"
}

// ---------------------------------------------------------------- generation

// customTags is the six-tag alphabet (all legal tag characters occur: letters,
// digits, '_', '.', non-ASCII letters, an all-digit tag).
var customTags = []string{"a", "b_1", "c.d", "386", "fmt_tag", "标签"}

var osNames = []string{"js", "wasm4", "arduino", "linux", "windows", "unknown"}
var archNames = []string{"wasm", "loong64", "riscv32", "x64", "clang"}

func genTagPool(t *rapid.T) []string {
	k := rapid.SampledFrom([]int{3, 4, 2, 5, 6, 1, 3, 4}).Draw(t, "ntags")
	pool := append(append(append([]string{}, customTags...), osNames...), archNames...)
	out := make([]string, 0, k)
	for len(out) < k {
		x := rapid.SampledFrom(pool).Draw(t, "tag")
		dup := false
		for _, y := range out {
			dup = dup || x == y
		}
		if !dup {
			out = append(out, x)
		}
	}
	return out
}

// genFormula draws a tree of depth <= maxDepth with at most *budget nodes.
func genFormula(t *rapid.T, tags []string, maxDepth int, budget *int) *node {
	return genFormulaAt(t, tags, maxDepth, budget, 0)
}

func genFormulaAt(t *rapid.T, tags []string, maxDepth int, budget *int, level int) *node {
	*budget--
	// the two top levels are always operators (when the depth allows), so that
	// most formulas mention several tags
	if maxDepth <= 1 || *budget <= 0 || level >= 2 && rapid.SampledFrom([]int{0, 0, 0, 0, 1}).Draw(t, "leaf") == 1 {
		return &node{Op: "tag", Tag: rapid.SampledFrom(tags).Draw(t, "leaftag")}
	}
	sub := func() *node { return genFormulaAt(t, tags, maxDepth-1, budget, level+1) }
	switch rapid.SampledFrom([]string{"and", "or", "not", "and", "or"}).Draw(t, "op") {
	case "not":
		return &node{Op: "not", X: sub()}
	case "and":
		return &node{Op: "and", X: sub(), Y: sub()}
	default:
		return &node{Op: "or", X: sub(), Y: sub()}
	}
}

var spaces = []string{"", " ", " ", "\t", "  "}

func sp(t *rapid.T) string { return rapid.SampledFrom(spaces).Draw(t, "sp") }

// Operand contexts for render.
const (
	ctxOr  = 0 // operand of || or the whole expression: nothing needs parentheses
	ctxAnd = 1 // operand of &&: an || operand needs parentheses
	ctxNot = 2 // operand of !: everything but a tag needs parentheses ("!!x" is not allowed)
)

// render writes the formula in the documented syntax (|| binds loosest, then
// &&, then !), with only the parentheses the grammar requires plus randomly
// drawn redundant ones, and random blanks between tokens. When minimal is set
// no draw is made: minimal parentheses, single blanks.
func render(t *rapid.T, n *node, ctx int, minimal bool) string {
	blank := func() string {
		if minimal {
			return " "
		}
		return sp(t)
	}
	var s string
	need := false
	switch n.Op {
	case "tag":
		s = n.Tag
	case "not":
		gap := ""
		if !minimal {
			gap = sp(t)
		}
		s = "!" + gap + render(t, n.X, ctxNot, minimal)
		need = ctx == ctxNot
	case "and":
		s = render(t, n.X, ctxAnd, minimal) + blank() + "&&" + blank() + render(t, n.Y, ctxAnd, minimal)
		need = ctx == ctxNot
	default:
		s = render(t, n.X, ctxOr, minimal) + blank() + "||" + blank() + render(t, n.Y, ctxOr, minimal)
		need = ctx >= ctxAnd
	}
	if need || !minimal && rapid.IntRange(0, 7).Draw(t, "redundant-parens") == 7 {
		in := ""
		if !minimal {
			in = sp(t)
		}
		s = "(" + in + s + in + ")"
	}
	return s
}

const prefix = "#wa:build"

// genLine wraps an expression into a constraint line: the prefix, at least one
// blank, the expression, optional trailing blanks and newline.
func genLine(t *rapid.T, expr string) string {
	sep := rapid.SampledFrom([]string{" ", " ", "\t", "  ", " \t"}).Draw(t, "sep")
	tail := rapid.SampledFrom([]string{"", "", "\n", " ", " \n", "\t", "\r\n"}).Draw(t, "tail")
	return prefix + sep + expr + tail
}
