package watgen

// Classes reports which of the construct classes that checks track as known
// findings occur in a model (works for generated models and for ReadWAT
// results, so corpus reproducers classify the same way as generated cases).
// Keys are the Feat* names.
func Classes(m *Module) map[string]bool {
	out := map[string]bool{}
	digits := func(s string) bool {
		if s == "" {
			return false
		}
		for i := 0; i < len(s); i++ {
			if s[i] < '0' || s[i] > '9' {
				return false
			}
		}
		return true
	}
	note := func(names ...string) {
		for _, n := range names {
			if digits(n) {
				out[FeatNumericIdent] = true
			}
		}
	}
	note(m.Name)
	for _, t := range m.Types {
		note(t.Name)
		note(t.ParamNames...)
	}
	for _, im := range m.Imports {
		note(im.Name)
		note(im.ParamNames...)
		if im.Kind == ExternMemory && im.Lim.HasMax {
			out[FeatImportMemoryMax] = true
			if im.Lim.Max == 0 {
				out[FeatLimitsMaxZero] = true
			}
		}
	}
	if m.Memory != nil {
		note(m.Memory.Name)
		if m.Memory.Lim.HasMax && m.Memory.Lim.Max == 0 {
			out[FeatLimitsMaxZero] = true
		}
	}
	if m.Table != nil {
		note(m.Table.Name)
		if m.Table.Lim.HasMax && m.Table.Lim.Max == 0 {
			out[FeatLimitsMaxZero] = true
		}
	}
	for _, g := range m.Globals {
		note(g.Name)
	}
	for _, d := range m.Data {
		note(d.Name)
		if d.Name != "" {
			out[FeatDataName] = true
		}
	}
	if m.Start != nil {
		out[FeatStart] = true
	}
	nimp := uint32(m.ImportedFuncs())
	inlineCount := map[uint32]int{}
	for _, e := range m.Exports {
		if e.Name == "" {
			out[FeatEmptyExportName] = true
		}
		for i := 0; i < len(e.Name); i++ {
			if c := e.Name[i]; c < 0x21 || c >= 0x7f || c == '"' || c == '\\' {
				out[FeatHardExportName] = true
			}
		}
		if e.Kind == ExternFunc {
			if e.Inline {
				inlineCount[e.Index]++
				if inlineCount[e.Index] > 1 {
					out[FeatMultiInlineExport] = true
				}
				if m.FuncName(e.Index) == "" {
					out[FeatAnonInlineExport] = true
				}
			} else if !e.ByName || m.FuncName(e.Index) == "" {
				out[FeatNumericFuncRef] = true
			}
			if e.Index < nimp {
				out["export_of_import"] = true
			}
		}
		if e.Kind == ExternGlobal && e.Inline && m.GlobalName(e.Index) == "" {
			out[FeatAnonInlineExport] = true
		}
	}
	for _, e := range m.Elems {
		for k, f := range e.Funcs {
			if k >= len(e.ByName) || !e.ByName[k] || m.FuncName(f) == "" {
				out[FeatNumericFuncRef] = true
			}
		}
	}
	for i := range m.Types {
		for j := 0; j < i; j++ {
			if m.Types[i].Type.Equal(m.Types[j].Type) {
				out[FeatDupExplicitType] = true
			}
		}
		for _, n := range m.Types[i].ParamNames {
			if n != "" {
				out[FeatTypeParamNames] = true
			}
		}
	}
	for _, im := range m.Imports {
		if im.Kind == ExternFunc {
			if im.Name == "" {
				out["anon_import_func"] = true
			}
			for _, n := range im.ParamNames {
				if n != "" {
					out[FeatImportParamNames] = true
				}
			}
		}
	}
	for i := range m.Funcs {
		f := &m.Funcs[i]
		note(f.Name)
		note(f.ParamNames...)
		note(f.LocalNames...)
		if f.Name == "" {
			out[FeatAnonFunc] = true
		}
		Walk(f.Body, func(in *Instr) {
			note(in.Label)
			switch in.Op {
			case OpTableSet:
				out[FeatTableSet] = true
			case OpTableGet:
				out[FeatTableGet] = true
			case OpNop:
				out[FeatNop] = true
			case OpSelectT:
				out[FeatSelectT] = true
			case OpCallIndirect:
				out[FeatCallIndirect] = true
			case OpMemoryInit:
				out[FeatMemoryInit] = true
			}
		})
	}
	return out
}
