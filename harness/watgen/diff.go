package watgen

import (
	"bytes"
	"fmt"
	"sort"
)

// Difference is one section-level disagreement between two Bins.  Section is a
// structural identity usable as (part of) a violation key: "types",
// "imports", "funcs", "tables", "mems", "globals", "exports", "start",
// "elems", "code", "data", "datacount", "names/module", "names/func",
// "names/local", "names/order".
type Difference struct {
	Section string
	Detail  string
}

func (d Difference) String() string { return d.Section + ": " + d.Detail }

// DiffOptions select what is compared.
type DiffOptions struct {
	// Names compares the module / function / local name subsections (as maps;
	// ordering rules are checked separately by CheckNameOrder).  Other name
	// subsections and other custom sections are never compared.
	Names bool
	// ExportOrder also requires the same export order (default: exports are
	// compared as a set keyed by name).
	ExportOrder bool
}

// Diff compares got against want section by section.
func Diff(want, got *Bin, opt DiffOptions) []Difference {
	var out []Difference
	add := func(sec, format string, a ...interface{}) {
		out = append(out, Difference{sec, fmt.Sprintf(format, a...)})
	}
	// types
	if len(want.Types) != len(got.Types) {
		add("types", "want %d types %v, got %d %v", len(want.Types), want.Types, len(got.Types), got.Types)
	} else {
		for i := range want.Types {
			if !want.Types[i].Equal(got.Types[i]) {
				add("types", "type %d: want %v got %v", i, want.Types[i], got.Types[i])
				break
			}
		}
	}
	// imports
	if len(want.Imports) != len(got.Imports) {
		add("imports", "want %d imports, got %d", len(want.Imports), len(got.Imports))
	} else {
		for i := range want.Imports {
			if want.Imports[i] != got.Imports[i] {
				add("imports", "import %d: want %+v got %+v", i, want.Imports[i], got.Imports[i])
				break
			}
		}
	}
	if !u32sEqual(want.Funcs, got.Funcs) {
		add("funcs", "function type indices: want %v got %v", want.Funcs, got.Funcs)
	}
	if len(want.Tables) != len(got.Tables) {
		add("tables", "want %d tables, got %d", len(want.Tables), len(got.Tables))
	} else {
		for i := range want.Tables {
			if want.Tables[i] != got.Tables[i] {
				add("tables", "table %d: want %+v got %+v", i, want.Tables[i], got.Tables[i])
			}
		}
	}
	if len(want.Mems) != len(got.Mems) {
		add("mems", "want %d memories, got %d", len(want.Mems), len(got.Mems))
	} else {
		for i := range want.Mems {
			if want.Mems[i] != got.Mems[i] {
				add("mems", "memory %d: want %+v got %+v", i, want.Mems[i], got.Mems[i])
			}
		}
	}
	if len(want.Globals) != len(got.Globals) {
		add("globals", "want %d globals, got %d", len(want.Globals), len(got.Globals))
	} else {
		for i := range want.Globals {
			w, g := want.Globals[i], got.Globals[i]
			if w.Type != g.Type || w.Mut != g.Mut {
				add("globals", "global %d: want %v mut=%v got %v mut=%v", i, w.Type, w.Mut, g.Type, g.Mut)
			} else if k := codeDiff(w.Init, g.Init); k >= 0 {
				add("globals", "global %d init: want %s got %s", i, fmtAt(w.Init, k), fmtAt(g.Init, k))
			}
		}
	}
	// exports
	if opt.ExportOrder {
		if len(want.Exports) != len(got.Exports) {
			add("exports", "want %d exports, got %d", len(want.Exports), len(got.Exports))
		} else {
			for i := range want.Exports {
				if want.Exports[i] != got.Exports[i] {
					add("exports", "export %d: want %+v got %+v", i, want.Exports[i], got.Exports[i])
					break
				}
			}
		}
	} else {
		wm, gm := map[string]BinExport{}, map[string]BinExport{}
		for _, e := range want.Exports {
			wm[e.Name] = e
		}
		for _, e := range got.Exports {
			if _, dup := gm[e.Name]; dup {
				add("exports", "duplicate export name %q", e.Name)
			}
			gm[e.Name] = e
		}
		var names []string
		for n := range wm {
			names = append(names, n)
		}
		for n := range gm {
			if _, ok := wm[n]; !ok {
				names = append(names, n)
			}
		}
		sort.Strings(names)
		for _, n := range names {
			w, wok := wm[n]
			g, gok := gm[n]
			switch {
			case !gok:
				add("exports", "export %q (kind %d index %d) missing", n, w.Kind, w.Index)
			case !wok:
				add("exports", "unexpected export %q (kind %d index %d)", n, g.Kind, g.Index)
			case w != g:
				add("exports", "export %q: want kind %d index %d, got kind %d index %d", n, w.Kind, w.Index, g.Kind, g.Index)
			}
		}
		if len(got.Exports) != len(want.Exports) && len(out) == 0 {
			add("exports", "want %d exports, got %d", len(want.Exports), len(got.Exports))
		}
	}
	switch {
	case want.Start == nil && got.Start != nil:
		add("start", "unexpected start function %d", *got.Start)
	case want.Start != nil && got.Start == nil:
		add("start", "start function %d missing", *want.Start)
	case want.Start != nil && *want.Start != *got.Start:
		add("start", "want start function %d, got %d", *want.Start, *got.Start)
	}
	if len(want.Elems) != len(got.Elems) {
		add("elems", "want %d element segments, got %d", len(want.Elems), len(got.Elems))
	} else {
		for i := range want.Elems {
			w, g := want.Elems[i], got.Elems[i]
			if w.Flag != g.Flag || w.Table != g.Table || w.RefType != g.RefType || codeDiff(w.Offset, g.Offset) >= 0 || !u32sEqual(w.Funcs, g.Funcs) || len(w.Exprs) != len(g.Exprs) {
				add("elems", "segment %d: want flag=%d table=%d offset=%s funcs=%v, got flag=%d table=%d offset=%s funcs=%v",
					i, w.Flag, w.Table, fmtCode(w.Offset), w.Funcs, g.Flag, g.Table, fmtCode(g.Offset), g.Funcs)
			}
		}
	}
	switch {
	case (want.DataCount == nil) != (got.DataCount == nil):
		add("datacount", "data count section presence differs (want %v, got %v)", want.DataCount != nil, got.DataCount != nil)
	}
	if len(want.Code) != len(got.Code) {
		add("code", "want %d function bodies, got %d", len(want.Code), len(got.Code))
	} else {
		for i := range want.Code {
			w, g := want.Code[i], got.Code[i]
			if !vtsEqual(w.Locals, g.Locals) {
				add("code", "function body %d locals: want %v got %v", i, w.Locals, g.Locals)
				continue
			}
			if k := codeDiff(w.Body, g.Body); k >= 0 {
				add("code", "function body %d instruction %d: want %s got %s", i, k, fmtAt(w.Body, k), fmtAt(g.Body, k))
			}
		}
	}
	if len(want.Data) != len(got.Data) {
		add("data", "want %d data segments, got %d", len(want.Data), len(got.Data))
	} else {
		for i := range want.Data {
			w, g := want.Data[i], got.Data[i]
			if w.Flag != g.Flag || w.Mem != g.Mem || codeDiff(w.Offset, g.Offset) >= 0 || !bytes.Equal(w.Bytes, g.Bytes) {
				add("data", "segment %d: want flag=%d offset=%s bytes=%x, got flag=%d offset=%s bytes=%x",
					i, w.Flag, fmtCode(w.Offset), clip(w.Bytes), g.Flag, fmtCode(g.Offset), clip(g.Bytes))
			}
		}
	}
	if opt.Names {
		out = append(out, DiffNames(want.Names, got.Names)...)
	}
	return out
}

func clip(b []byte) []byte {
	if len(b) > 48 {
		return b[:48]
	}
	return b
}

// DiffNames compares the module / function / local name assignments as maps
// (an entry with an empty local map is equivalent to no entry).
func DiffNames(want, got *BinNames) []Difference {
	var out []Difference
	add := func(sec, format string, a ...interface{}) {
		out = append(out, Difference{sec, fmt.Sprintf(format, a...)})
	}
	if want == nil {
		want = &BinNames{}
	}
	if got == nil {
		add("names/missing", "no name section")
		got = &BinNames{}
	}
	if want.HasModule != got.HasModule || want.Module != got.Module {
		add("names/module", "module name: want %q (present=%v) got %q (present=%v)", want.Module, want.HasModule, got.Module, got.HasModule)
	}
	wf, gf := assocMap(want.Funcs), assocMap(got.Funcs)
	for _, k := range unionKeys(wf, gf) {
		w, wok := wf[k]
		g, gok := gf[k]
		switch {
		case !gok:
			add("names/func", "function %d: name %q missing", k, w)
		case !wok:
			add("names/func", "function %d: unexpected name %q (the text gives it no identifier)", k, g)
		case w != g:
			add("names/func", "function %d: want %q got %q", k, w, g)
		}
	}
	wl, gl := map[uint32]map[uint32]string{}, map[uint32]map[uint32]string{}
	for _, l := range want.Locals {
		if len(l.Names) > 0 {
			wl[l.Func] = assocMap(l.Names)
		}
	}
	for _, l := range got.Locals {
		if len(l.Names) > 0 {
			if prev, ok := gl[l.Func]; ok { // duplicate entries: merge, the order check reports them
				for k, v := range assocMap(l.Names) {
					prev[k] = v
				}
			} else {
				gl[l.Func] = assocMap(l.Names)
			}
		}
	}
	fk := map[uint32]bool{}
	for k := range wl {
		fk[k] = true
	}
	for k := range gl {
		fk[k] = true
	}
	var fks []uint32
	for k := range fk {
		fks = append(fks, k)
	}
	sort.Slice(fks, func(i, j int) bool { return fks[i] < fks[j] })
	for _, f := range fks {
		w, g := wl[f], gl[f]
		for _, k := range unionKeys(w, g) {
			wn, wok := w[k]
			gn, gok := g[k]
			switch {
			case !gok:
				add("names/local", "function %d local %d: name %q missing", f, k, wn)
			case !wok:
				add("names/local", "function %d local %d: unexpected name %q", f, k, gn)
			case wn != gn:
				add("names/local", "function %d local %d: want %q got %q", f, k, wn, gn)
			}
		}
	}
	return out
}

// CheckNameOrder verifies the ordering rules of the name section: function
// name indices strictly increasing, local-name entries strictly increasing by
// function index and, within one function, by local index.
func CheckNameOrder(n *BinNames) []Difference {
	var out []Difference
	if n == nil {
		return nil
	}
	for i := 1; i < len(n.Funcs); i++ {
		if n.Funcs[i].Index <= n.Funcs[i-1].Index {
			out = append(out, Difference{"names/order", fmt.Sprintf("function name entries not strictly increasing: index %d follows %d", n.Funcs[i].Index, n.Funcs[i-1].Index)})
			break
		}
	}
	for i := range n.Locals {
		if i > 0 && n.Locals[i].Func <= n.Locals[i-1].Func {
			out = append(out, Difference{"names/order", fmt.Sprintf("local name entries not strictly increasing by function: %d follows %d", n.Locals[i].Func, n.Locals[i-1].Func)})
			break
		}
	}
	for _, l := range n.Locals {
		for i := 1; i < len(l.Names); i++ {
			if l.Names[i].Index <= l.Names[i-1].Index {
				out = append(out, Difference{"names/order", fmt.Sprintf("function %d: local name indices not strictly increasing: %d follows %d", l.Func, l.Names[i].Index, l.Names[i-1].Index)})
				return out
			}
		}
	}
	return out
}

func assocMap(a []NameAssoc) map[uint32]string {
	m := map[uint32]string{}
	for _, x := range a {
		m[x.Index] = x.Name
	}
	return m
}

func unionKeys(a, b map[uint32]string) []uint32 {
	seen := map[uint32]bool{}
	var ks []uint32
	for k := range a {
		if !seen[k] {
			seen[k] = true
			ks = append(ks, k)
		}
	}
	for k := range b {
		if !seen[k] {
			seen[k] = true
			ks = append(ks, k)
		}
	}
	sort.Slice(ks, func(i, j int) bool { return ks[i] < ks[j] })
	return ks
}

func u32sEqual(a, b []uint32) bool {
	if len(a) != len(b) {
		return false
	}
	for i := range a {
		if a[i] != b[i] {
			return false
		}
	}
	return true
}

func vtsEqual(a, b []ValType) bool {
	if len(a) != len(b) {
		return false
	}
	for i := range a {
		if a[i] != b[i] {
			return false
		}
	}
	return true
}

// InstrEqual compares two flat instructions (spelling and labels ignored).
func InstrEqual(a, b *Instr) bool {
	if a.Op != b.Op || a.X != b.X || a.Y != b.Y || a.I != b.I || a.F != b.F || a.Align != b.Align || a.Offset != b.Offset {
		return false
	}
	if a.BT.HasIndex != b.BT.HasIndex || a.BT.Index != b.BT.Index || !vtsEqual(a.BT.Results, b.BT.Results) {
		return false
	}
	return u32sEqual(a.Targets, b.Targets) && vtsEqual(a.SelT, b.SelT)
}

// normCode drops every `else` that is immediately followed by `end`: an empty
// else branch is semantically nothing, and whether the reference assembler
// writes it cannot be read off the stored WABT binaries.
func normCode(a []Instr) []Instr {
	n := 0
	for i := range a {
		if a[i].Op == OpElse && i+1 < len(a) && a[i+1].Op == OpEnd {
			n++
		}
	}
	if n == 0 {
		return a
	}
	out := make([]Instr, 0, len(a)-n)
	for i := range a {
		if a[i].Op == OpElse && i+1 < len(a) && a[i+1].Op == OpEnd {
			continue
		}
		out = append(out, a[i])
	}
	return out
}

// codeDiff returns the index of the first differing instruction, or -1.
func codeDiff(a, b []Instr) int {
	a, b = normCode(a), normCode(b)
	for i := 0; i < len(a) && i < len(b); i++ {
		if !InstrEqual(&a[i], &b[i]) {
			return i
		}
	}
	if len(a) != len(b) {
		if len(a) < len(b) {
			return len(a)
		}
		return len(b)
	}
	return -1
}

func fmtAt(code []Instr, k int) string {
	code = normCode(code)
	if k >= len(code) {
		return "<end>"
	}
	return FormatInstr(&code[k])
}

func fmtCode(code []Instr) string {
	s := "["
	for i := range code {
		if i > 0 {
			s += "; "
		}
		s += FormatInstr(&code[i])
	}
	return s + "]"
}
