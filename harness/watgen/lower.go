package watgen

import "fmt"

// Lower derives the canonical section model the reference assembler (WABT
// wat2wasm --debug-names) produces for the text Print(m) emits:
//
//   - type section: the explicit (type) definitions in order, then one entry
//     per *new* signature in order of first use — import signatures, then for
//     each function its own signature followed by the multi-value block types
//     of its body in instruction order (rule read off
//     testdata/type-03.wat.wasm and func-06.wat.wasm and re-checked by C04's
//     calibration on every run).  A use binds to the first type with an equal
//     signature, explicit ones included; explicit duplicates are kept.
//   - exports in the order of m.Exports.
//   - name section: module name if any; function names for named functions
//     only; one local-names entry per function (imports included) listing only
//     named params/locals, param index = position, local index =
//     nparams+position.
func (m *Module) Lower() *Bin {
	b := &Bin{}
	for _, t := range m.Types {
		b.Types = append(b.Types, cloneFT(t.Type))
	}
	use := func(ft FuncType) uint32 {
		for i, t := range b.Types {
			if t.Equal(ft) {
				return uint32(i)
			}
		}
		b.Types = append(b.Types, cloneFT(ft))
		return uint32(len(b.Types) - 1)
	}
	for _, im := range m.Imports {
		bi := BinImport{Module: im.Module, Field: im.Field, Kind: im.Kind}
		switch im.Kind {
		case ExternFunc:
			if im.HasTypeUse {
				bi.TypeIdx = im.TypeUse
			} else {
				bi.TypeIdx = use(im.Type)
			}
		case ExternTable:
			bi.Table = BinTable{Elem: FuncRef, Lim: im.Lim}
		case ExternMemory:
			bi.Mem = BinMem{Lim: im.Lim}
		case ExternGlobal:
			bi.GlobalType, bi.GlobalMut = im.GlobalType, im.GlobalMut
		}
		b.Imports = append(b.Imports, bi)
	}
	for i := range m.Funcs {
		f := &m.Funcs[i]
		if f.HasTypeUse {
			b.Funcs = append(b.Funcs, f.TypeUse)
		} else {
			b.Funcs = append(b.Funcs, use(f.Type))
		}
		c := BinCode{Locals: append([]ValType{}, f.Locals...)}
		c.Body = flatten(nil, f.Body, use)
		b.Code = append(b.Code, c)
	}
	if m.Table != nil {
		b.Tables = append(b.Tables, BinTable{Elem: FuncRef, Lim: m.Table.Lim})
	}
	if m.Memory != nil {
		b.Mems = append(b.Mems, BinMem{Lim: m.Memory.Lim})
	}
	for _, g := range m.Globals {
		init := g.Init
		init.Sp, init.Label = Spelling{}, ""
		b.Globals = append(b.Globals, BinGlobal{Type: g.Type, Mut: g.Mut, Init: []Instr{init}})
	}
	for _, e := range m.Exports {
		b.Exports = append(b.Exports, BinExport{Name: e.Name, Kind: e.Kind, Index: e.Index})
	}
	if m.Start != nil {
		v := *m.Start
		b.Start = &v
	}
	for _, e := range m.Elems {
		b.Elems = append(b.Elems, BinElem{Flag: 0, RefType: FuncRef,
			Offset: []Instr{{Op: OpI32Const, I: int64(int32(e.Offset))}},
			Funcs:  append([]uint32{}, e.Funcs...)})
	}
	for _, d := range m.Data {
		b.Data = append(b.Data, BinData{Flag: 0,
			Offset: []Instr{{Op: OpI32Const, I: int64(int32(d.Offset))}},
			Bytes:  append([]byte{}, d.Bytes...)})
	}
	// the data count section is required (and written by WABT) as soon as
	// memory.init / data.drop occur
	for i := range m.Funcs {
		Walk(m.Funcs[i].Body, func(in *Instr) {
			if (in.Op == OpMemoryInit || in.Op == OpDataDrop) && b.DataCount == nil {
				n := uint32(len(m.Data))
				b.DataCount = &n
			}
		})
	}
	b.Names = m.ExpectedNames()
	return b
}

// ExpectedNames is the function/local part of the name section the text
// describes (WABT layout, see Lower).
func (m *Module) ExpectedNames() *BinNames {
	n := &BinNames{Other: map[byte][]byte{}}
	if m.Name != "" {
		n.HasModule, n.Module = true, m.Name
	}
	idx := uint32(0)
	add := func(name string, params, locals []string) {
		if name != "" {
			n.Funcs = append(n.Funcs, NameAssoc{idx, name})
		}
		l := LocalNames{Func: idx}
		for i, p := range params {
			if p != "" {
				l.Names = append(l.Names, NameAssoc{uint32(i), p})
			}
		}
		for i, p := range locals {
			if p != "" {
				l.Names = append(l.Names, NameAssoc{uint32(len(params) + i), p})
			}
		}
		n.Locals = append(n.Locals, l)
		idx++
	}
	for _, im := range m.Imports {
		if im.Kind == ExternFunc {
			pn := im.ParamNames
			if len(pn) != len(im.Type.Params) {
				pn = make([]string, len(im.Type.Params))
			}
			add(im.Name, pn, nil)
		}
	}
	for _, f := range m.Funcs {
		pn := f.ParamNames
		if len(pn) != len(f.Type.Params) {
			pn = make([]string, len(f.Type.Params))
		}
		ln := f.LocalNames
		if len(ln) != len(f.Locals) {
			ln = make([]string, len(f.Locals))
		}
		add(f.Name, pn, ln)
	}
	n.HasFuncs = len(n.Funcs) > 0
	n.HasLocals = true // WABT always writes the subsection (possibly with 0 entries)
	return n
}

func cloneFT(t FuncType) FuncType {
	return FuncType{Params: append([]ValType(nil), t.Params...), Results: append([]ValType(nil), t.Results...)}
}

// flatten turns the nested model body into the flat binary instruction
// sequence; use(sig) resolves a multi-value block type to its type index.
func flatten(out []Instr, body []Instr, use func(FuncType) uint32) []Instr {
	for i := range body {
		in := body[i]
		flat := Instr{Op: in.Op, X: in.X, Y: in.Y, I: in.I, F: in.F, Align: in.Align, Offset: in.Offset}
		if len(in.Targets) > 0 {
			flat.Targets = append([]uint32{}, in.Targets...)
		}
		if len(in.SelT) > 0 {
			flat.SelT = append([]ValType{}, in.SelT...)
		}
		switch in.Op {
		case OpI32Const:
			flat.I = int64(int32(in.I))
		case OpF32Const:
			flat.F = in.F & 0xffffffff
		case OpBlock, OpLoop, OpIf:
			switch len(in.BT.Results) {
			case 0:
			case 1:
				flat.BT.Results = []ValType{in.BT.Results[0]}
			default:
				flat.BT.HasIndex = true
				flat.BT.Index = use(FuncType{Results: in.BT.Results})
			}
			out = append(out, flat)
			out = flatten(out, in.Then, use)
			// an else with an empty body is not written (WABT's binary writer
			// skips an empty false branch; Diff ignores the difference anyway)
			if in.Op == OpIf && len(in.Else) > 0 {
				out = append(out, Instr{Op: OpElse})
				out = flatten(out, in.Else, use)
			}
			out = append(out, Instr{Op: OpEnd})
			continue
		}
		out = append(out, flat)
	}
	return out
}

// FormatInstr renders one flat instruction for diagnostics.
func FormatInstr(in *Instr) string {
	info := in.Op.Info()
	if info == nil {
		return in.Op.String()
	}
	switch info.Imm {
	case ImmBlock:
		if in.BT.HasIndex {
			return fmt.Sprintf("%s (type %d)", info.Name, in.BT.Index)
		}
		return fmt.Sprintf("%s %v", info.Name, in.BT.Results)
	case ImmLabel, ImmFunc, ImmLocal, ImmGlobal, ImmTable, ImmDataIdx, ImmMemInit:
		return fmt.Sprintf("%s %d", info.Name, in.X)
	case ImmBrTable:
		return fmt.Sprintf("%s %v", info.Name, in.Targets)
	case ImmCallInd, ImmTableInit, ImmTableCopy:
		return fmt.Sprintf("%s %d %d", info.Name, in.X, in.Y)
	case ImmMem:
		return fmt.Sprintf("%s align=2^%d offset=%d", info.Name, in.Align, in.Offset)
	case ImmI32, ImmI64:
		return fmt.Sprintf("%s %d", info.Name, in.I)
	case ImmF32, ImmF64:
		return fmt.Sprintf("%s bits=%#x", info.Name, in.F)
	case ImmSelectT:
		return fmt.Sprintf("select %v", in.SelT)
	}
	return info.Name
}
