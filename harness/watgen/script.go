package watgen

import (
	"fmt"
	"math"
)

// Value is one argument or result: the raw bits of an i32 (zero-extended),
// i64, f32 (in the low word) or f64.
type Value struct {
	T    ValType `json:"t"`
	Bits uint64  `json:"bits"`
}

func (v Value) String() string {
	switch v.T {
	case I32:
		return fmt.Sprintf("i32:%d", int32(v.Bits))
	case I64:
		return fmt.Sprintf("i64:%d", int64(v.Bits))
	case F32:
		return fmt.Sprintf("f32:%v(%#x)", math.Float32frombits(uint32(v.Bits)), uint32(v.Bits))
	case F64:
		return fmt.Sprintf("f64:%v(%#x)", math.Float64frombits(v.Bits), v.Bits)
	}
	return fmt.Sprintf("?:%#x", v.Bits)
}

// Call is one step of a call script: invoke the exported function Export with
// Args.  ExpectTrap is the designated trap kind when this call must trap
// (known without executing anything), "" otherwise.
type Call struct {
	Export     string  `json:"export"`
	Args       []Value `json:"args"`
	ExpectTrap string  `json:"expect_trap,omitempty"`
}

var argBits = map[ValType][]uint64{
	I32: {0, 1, 2, 0xffffffff, 0x7fffffff, 0x80000000, 0x80000001, 255, 256, 65535, 65536, 31, 32, 33, 0x12345678},
	I64: {0, 1, 2, ^uint64(0), 1<<63 - 1, 1 << 63, 1<<63 + 1, 1<<32 - 1, 1 << 32, 63, 64, 65, 0x123456789abcdef0},
	F32: {0, 0x80000000, 0x3f800000, 0xbf800000, 0x3f000000, 0x7f800000, 0xff800000, 0x7fc00000, 0x7f7fffff, 0x00000001, 0x00800000, 0x4f000000, 0xcf000000, 0x4f800000, 0x5f000000, 0x4b800000, 0x40490fdb},
	F64: {0, 1 << 63, 0x3ff0000000000000, 0xbff0000000000000, 0x3fe0000000000000, 0x7ff0000000000000, 0xfff0000000000000, 0x7ff8000000000000, 0x7fefffffffffffff, 1, 0x0010000000000000,
		0x41e0000000000000, 0xc1e0000000000000, 0x41f0000000000000, 0x43e0000000000000, 0x43f0000000000000, 0x4340000000000000, 0x400921fb54442d18},
}

func (g *gen) argValue(t ValType) Value {
	if g.chance("argbound", 70) {
		bs := argBits[t]
		return Value{t, bs[g.intn("argb", 0, len(bs)-1)]}
	}
	v := uint64(rapid32(g, "arghi"))<<32 | uint64(rapid32(g, "arglo"))
	switch t {
	case I32:
		v &= 0xffffffff
	case F32:
		v &= 0xffffffff
		if f := math.Float32frombits(uint32(v)); f != f {
			v = 0x7fc00000 // only the canonical NaN crosses the boundary
		}
	case F64:
		if f := math.Float64frombits(v); f != f {
			v = 0x7ff8000000000000
		}
	}
	return Value{t, v}
}

// script draws 3..8 calls over the exported functions; if the module has a
// designated trap function it is called exactly once, at a drawn position.
func (g *gen) script() []Call {
	m := g.m
	type ex struct {
		name string
		idx  uint32
	}
	var exs []ex
	for _, e := range m.Exports {
		if e.Kind == ExternFunc && !(g.trap.Kind != "" && e.Index == g.trap.Func) {
			exs = append(exs, ex{e.Name, e.Index})
		}
	}
	var out []Call
	n := g.intn("ncalls", 3, 8)
	trapAt := -1
	if g.trap.Kind != "" {
		trapAt = g.intn("trapat", 0, n-1)
	}
	for i := 0; i < n; i++ {
		if i == trapAt {
			c := Call{Export: g.trap.Export, ExpectTrap: g.trap.Kind}
			for _, p := range m.FuncTypeOf(g.trap.Func).Params {
				c.Args = append(c.Args, g.argValue(p))
			}
			out = append(out, c)
			continue
		}
		if len(exs) == 0 {
			continue
		}
		e := exs[g.intn("callwhich", 0, len(exs)-1)]
		c := Call{Export: e.name}
		ft := m.FuncTypeOf(e.idx)
		for k, p := range ft.Params {
			if k == 0 && len(e.name) > 5 && e.name[:5] == "tramp" {
				// slot argument: every slot, plus out-of-range; the outcome is
				// known from the slot map
				slot := g.intn("slotarg", 0, len(g.slots)+1)
				c.Args = append(c.Args, Value{I32, uint64(uint32(slot))})
				var ti uint32
				fmt.Sscanf(e.name, "tramp%d", &ti)
				switch {
				case slot >= len(g.slots):
					c.ExpectTrap = "indirectOOB"
				case g.slots[slot] < 0:
					c.ExpectTrap = "indirectNull"
				case !m.FuncTypeOf(uint32(g.slots[slot])).Equal(m.Types[ti].Type):
					c.ExpectTrap = "indirectSig"
				}
				continue
			}
			c.Args = append(c.Args, g.argValue(p))
		}
		out = append(out, c)
	}
	return out
}

// HostFuncResult is the semantics of every function imported from module
// "host" in Exec mode: a fixed mixing function of the field name and the
// argument bits, so that any engine binding gives the same results.  NaN
// results are canonical.
func HostFuncResult(field string, args []Value, results []ValType) []Value {
	h := uint64(0xcbf29ce484222325)
	mix := func(b uint64) {
		for i := 0; i < 8; i++ {
			h ^= (b >> (8 * uint(i))) & 0xff
			h *= 0x100000001b3
		}
	}
	for i := 0; i < len(field); i++ {
		h ^= uint64(field[i])
		h *= 0x100000001b3
	}
	for _, a := range args {
		mix(uint64(a.T))
		mix(a.Bits)
	}
	var out []Value
	for i, t := range results {
		mix(uint64(i))
		v := h
		switch t {
		case I32:
			v &= 0xffffffff
		case F32:
			// a small exact float: never NaN/Inf
			v = uint64(math.Float32bits(float32(int32(uint32(v)>>8)) / 64))
		case F64:
			v = math.Float64bits(float64(int64(v>>16)) / 1024)
		}
		out = append(out, Value{t, v})
	}
	return out
}

// GenvValue is the value of the immutable global imported as ("genv",
// "g<i>") with type t in Exec mode.
func GenvValue(i int, t ValType) Value {
	switch t {
	case I32:
		return Value{t, uint64(uint32(1000 + 7*i))}
	case I64:
		return Value{t, uint64(int64(-5000000000 + int64(i)))}
	case F32:
		return Value{t, uint64(math.Float32bits(1.5 + float32(i)))}
	}
	return Value{t, math.Float64bits(-2.25 - float64(i))}
}

// GenvModule builds (with the reference encoder) the binary of a module that
// exports the globals m imports from "genv", for engines whose host API cannot
// define globals (wazero's host module builder).  nil if m imports none.
func GenvModule(m *Module) []byte {
	b := &Bin{}
	k := 0
	for _, im := range m.Imports {
		if im.Kind != ExternGlobal || im.Module != "genv" {
			continue
		}
		var idx int
		fmt.Sscanf(im.Field, "g%d", &idx)
		v := GenvValue(idx, im.GlobalType)
		var init Instr
		switch im.GlobalType {
		case I32:
			init = Instr{Op: OpI32Const, I: int64(int32(v.Bits))}
		case I64:
			init = Instr{Op: OpI64Const, I: int64(v.Bits)}
		case F32:
			init = Instr{Op: OpF32Const, F: v.Bits}
		default:
			init = Instr{Op: OpF64Const, F: v.Bits}
		}
		b.Globals = append(b.Globals, BinGlobal{Type: im.GlobalType, Init: []Instr{init}})
		b.Exports = append(b.Exports, BinExport{Name: im.Field, Kind: ExternGlobal, Index: uint32(k)})
		k++
	}
	if k == 0 {
		return nil
	}
	return b.Encode(EncodeOptions{})
}
