package watgen

// The module model.  It is *index-resolved* (every reference is a numeric
// index into the module's index spaces, as in the binary format) and
// additionally carries the identifiers and spelling choices of the text it is
// printed as / was read from.  Lower() derives the canonical section model
// (Bin) from the resolved part only.

// FuncType is a function signature.
type FuncType struct {
	Params  []ValType `json:"params,omitempty"`
	Results []ValType `json:"results,omitempty"`
}

// Equal compares signatures.
func (a FuncType) Equal(b FuncType) bool {
	if len(a.Params) != len(b.Params) || len(a.Results) != len(b.Results) {
		return false
	}
	for i := range a.Params {
		if a.Params[i] != b.Params[i] {
			return false
		}
	}
	for i := range a.Results {
		if a.Results[i] != b.Results[i] {
			return false
		}
	}
	return true
}

func (a FuncType) String() string {
	s := "("
	for i, p := range a.Params {
		if i > 0 {
			s += " "
		}
		s += p.String()
	}
	s += ")->("
	for i, p := range a.Results {
		if i > 0 {
			s += " "
		}
		s += p.String()
	}
	return s + ")"
}

// TypeDef is an explicit (type $name (func ...)) field.
type TypeDef struct {
	Name       string   // "" = anonymous
	Type       FuncType //
	ParamNames []string // optional identifiers written on the params ("" = none)
}

// Extern kinds (binary encoding).
const (
	ExternFunc   byte = 0
	ExternTable  byte = 1
	ExternMemory byte = 2
	ExternGlobal byte = 3
)

// Limits of a table or memory.
type Limits struct {
	Min    uint32
	Max    uint32
	HasMax bool
}

// Import is an (import "module" "field" (kind ...)) field.
type Import struct {
	Module, Field string
	Kind          byte
	Name          string // identifier of the imported object ("" = anonymous)
	// func
	Type       FuncType
	ParamNames []string
	HasTypeUse bool   // written with an explicit (type x) use (outside the Wa subset; reader only)
	TypeUse    uint32 //
	// global (imported globals are immutable in the Wa subset)
	GlobalType ValType
	GlobalMut  bool
	// memory / table
	Lim Limits
}

// Global is a defined global with a constant initialiser.
type Global struct {
	Name   string
	Type   ValType
	Mut    bool
	Init   Instr  // a single *.const instruction (or global.get in the reader)
	Export string // non-empty: printed as inline (export "...") — an Export entry with Inline=true exists too
}

// Func is a defined function.
type Func struct {
	Name       string
	Type       FuncType
	ParamNames []string // len == len(Type.Params); "" = anonymous
	Locals     []ValType
	LocalNames []string // len == len(Locals)
	Body       []Instr
	HasTypeUse bool   // written with an explicit (type x) use (outside the Wa subset; reader only)
	TypeUse    uint32 //

	// text spelling
	GroupParams  bool // anonymous params printed as one (param t1 t2 ...)
	SplitResults bool // results printed as (result t1) (result t2)
	Comment      string
}

// Export is one export.  Inline exports are printed on the func/global.
type Export struct {
	Name   string
	Kind   byte
	Index  uint32
	Inline bool // printed as (func $f (export "name") ...) / (global $g (export "name") ...)
	ByName bool // separate export refers to the object by $name (if it has one)
}

// Memory is the defined memory.
type Memory struct {
	Name string
	Lim  Limits
}

// Table is the defined (funcref) table.
type Table struct {
	Name string
	Lim  Limits
}

// Elem is an active element segment (elem (i32.const off) f...).
type Elem struct {
	Offset uint32
	Funcs  []uint32
	ByName []bool // per entry: print as $name (if the function has one)
}

// Data is an active data segment (data (i32.const off) "...").
type Data struct {
	Name   string
	Offset uint32
	Bytes  []byte
	// HexAll prints every byte as \xx; otherwise printable ASCII is written
	// raw and the five documented escapes are used.
	HexAll bool
}

// BlockType of block/loop/if in the model: zero, one or several results
// (block parameters are outside the Wa subset).
type BlockType struct {
	Results []ValType `json:"results,omitempty"`
	// HasIndex/Index: the type-index form.  Only in Bin (flat) code: Lower
	// turns multi-value Results into an index; Decode reports what the file
	// says.
	HasIndex bool   `json:"has_index,omitempty"`
	Index    uint32 `json:"index,omitempty"`
}

// Instr is one instruction; block/loop/if carry their bodies (the text is
// printed flat, one instruction per line).
type Instr struct {
	Op      Op
	X       uint32   // index immediate: local / global / func / label depth / type (call_indirect) / table (table.get/set) / data (memory.init)
	Y       uint32   // call_indirect: table index
	Targets []uint32 // br_table label depths, last = default
	I       int64    // i32.const (sign-extended) / i64.const
	F       uint64   // f32.const (bits in the low word) / f64.const bits
	Align   uint32   // memarg alignment as log2
	Offset  uint64   // memarg offset
	BT      BlockType
	Then    []Instr // body of block/loop; then-branch of if
	Else    []Instr
	HasElse bool
	SelT    []ValType // select (result t)

	// text spelling (ignored by Lower)
	Label string // identifier of block/loop/if ("" = anonymous)
	Sp    Spelling
}

// Spelling records how the immediates of one instruction are written.
type Spelling struct {
	ByName        bool   // index printed as $identifier when the object has one
	TargetsByName []bool // br_table, per target
	Lit           string // verbatim literal for *.const ("" = canonical decimal)
	OmitTable     bool   // call_indirect without table index
	TypeByName    bool   // call_indirect (type $t)
	AlignExplicit bool   // print align= even when natural
	OffsetHex     bool
	Comment       string // ";; ..." line printed before the instruction
}

// Module is the whole model.
type Module struct {
	Name    string
	Types   []TypeDef
	Imports []Import
	Funcs   []Func
	Table   *Table
	Memory  *Memory
	Globals []Global
	Exports []Export
	Start   *uint32
	Elems   []Elem
	Data    []Data

	// Text layout: order in which the non-import field groups are printed.
	// Each entry is one of "types","table","memory","globals","funcs",
	// "exports","start","elems","data".  Empty = that default order.
	Layout []string
	// TypesFirst=false prints the (type) fields after the imports
	// (testdata/type-02.wat style).
	Indent string // "\t" by default
	// HeaderComment is printed before (module.
	HeaderComment string
}

// Counts of imported objects per index space.
func (m *Module) ImportedFuncs() int   { return m.countImports(ExternFunc) }
func (m *Module) ImportedGlobals() int { return m.countImports(ExternGlobal) }

func (m *Module) countImports(kind byte) int {
	n := 0
	for i := range m.Imports {
		if m.Imports[i].Kind == kind {
			n++
		}
	}
	return n
}

// HasMemory reports a defined or imported memory.
func (m *Module) HasMemory() bool { return m.Memory != nil || m.countImports(ExternMemory) > 0 }

// HasTable reports a defined or imported table.
func (m *Module) HasTable() bool { return m.Table != nil || m.countImports(ExternTable) > 0 }

// FuncTypeOf returns the signature of function index idx (imports first).
func (m *Module) FuncTypeOf(idx uint32) FuncType {
	n := uint32(0)
	for i := range m.Imports {
		if m.Imports[i].Kind == ExternFunc {
			if n == idx {
				return m.Imports[i].Type
			}
			n++
		}
	}
	return m.Funcs[idx-n].Type
}

// FuncName returns the identifier of function index idx ("" if anonymous).
func (m *Module) FuncName(idx uint32) string {
	n := uint32(0)
	for i := range m.Imports {
		if m.Imports[i].Kind == ExternFunc {
			if n == idx {
				return m.Imports[i].Name
			}
			n++
		}
	}
	if int(idx-n) < len(m.Funcs) {
		return m.Funcs[idx-n].Name
	}
	return ""
}

// NumFuncs is the size of the function index space.
func (m *Module) NumFuncs() int { return m.ImportedFuncs() + len(m.Funcs) }

// GlobalName returns the identifier of global index idx.
func (m *Module) GlobalName(idx uint32) string {
	n := uint32(0)
	for i := range m.Imports {
		if m.Imports[i].Kind == ExternGlobal {
			if n == idx {
				return m.Imports[i].Name
			}
			n++
		}
	}
	if int(idx-n) < len(m.Globals) {
		return m.Globals[idx-n].Name
	}
	return ""
}

// GlobalTypeOf returns type and mutability of global index idx.
func (m *Module) GlobalTypeOf(idx uint32) (ValType, bool) {
	n := uint32(0)
	for i := range m.Imports {
		if m.Imports[i].Kind == ExternGlobal {
			if n == idx {
				return m.Imports[i].GlobalType, m.Imports[i].GlobalMut
			}
			n++
		}
	}
	g := m.Globals[idx-n]
	return g.Type, g.Mut
}

// NumGlobals is the size of the global index space.
func (m *Module) NumGlobals() int { return m.ImportedGlobals() + len(m.Globals) }

// Walk calls f for every instruction of body in pre-order (block, then its
// bodies).
func Walk(body []Instr, f func(in *Instr)) {
	for i := range body {
		f(&body[i])
		Walk(body[i].Then, f)
		Walk(body[i].Else, f)
	}
}
