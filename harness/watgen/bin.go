package watgen

import (
	"encoding/binary"
	"fmt"
)

// Bin is the canonical section model of a binary module: what the spec's
// binary-format chapter says a .wasm file contains, with instruction
// immediates resolved.  It is produced by Decode (from bytes) and by
// (*Module).Lower (from the model) and compared with Diff.
type Bin struct {
	Types     []FuncType
	Imports   []BinImport
	Funcs     []uint32 // type index per defined function
	Tables    []BinTable
	Mems      []BinMem
	Globals   []BinGlobal
	Exports   []BinExport
	Start     *uint32
	Elems     []BinElem
	DataCount *uint32
	Code      []BinCode
	Data      []BinData
	Names     *BinNames   // decoded "name" custom section (nil if absent)
	Customs   []BinCustom // other custom sections
}

type BinImport struct {
	Module, Field string
	Kind          byte
	TypeIdx       uint32 // func
	Table         BinTable
	Mem           BinMem
	GlobalType    ValType
	GlobalMut     bool
}

type BinTable struct {
	Elem ValType
	Lim  Limits
}

type BinMem struct {
	Lim  Limits
	Is64 bool
}

type BinGlobal struct {
	Type ValType
	Mut  bool
	Init []Instr // without the terminating end
}

type BinExport struct {
	Name  string
	Kind  byte
	Index uint32
}

// BinElem is an element segment.  Flag is the binary prefix (0..7); only
// Flag 0 (active, table 0, function indices) is in the Wa subset.
type BinElem struct {
	Flag    uint32
	Table   uint32
	Offset  []Instr
	RefType ValType // flags 5..7 and elemkind 0 (=funcref) for 1..3
	Funcs   []uint32
	Exprs   [][]Instr // flags 4..7
}

// BinData is a data segment (Flag 0 active mem 0, 1 passive, 2 active+memidx).
type BinData struct {
	Flag   uint32
	Mem    uint32
	Offset []Instr
	Bytes  []byte
}

// BinCode is one code entry; Locals is the expanded local list and Body the
// flat instruction list *without* the final end of the function.
type BinCode struct {
	Locals []ValType
	Body   []Instr
}

// NameAssoc is one (index, name) pair of a name map.
type NameAssoc struct {
	Index uint32
	Name  string
}

// LocalNames is one entry of the indirect name map of subsection 2.
type LocalNames struct {
	Func  uint32
	Names []NameAssoc
}

// BinNames is the decoded name section.  Entry order is preserved exactly as
// in the file so that ordering rules can be checked.
type BinNames struct {
	HasModule bool
	Module    string
	HasFuncs  bool
	Funcs     []NameAssoc
	HasLocals bool
	Locals    []LocalNames
	// Other subsections (id → raw content), and ids in file order.
	Other map[byte][]byte
	Order []byte
}

type BinCustom struct {
	Name string
	Data []byte
}

// Section ids.
const (
	secCustom    = 0
	secType      = 1
	secImport    = 2
	secFunction  = 3
	secTable     = 4
	secMemory    = 5
	secGlobal    = 6
	secExport    = 7
	secStart     = 8
	secElement   = 9
	secCode      = 10
	secData      = 11
	secDataCount = 12
)

// ---------------------------------------------------------------- encoder

type wbuf struct{ b []byte }

func (w *wbuf) byte(b byte)       { w.b = append(w.b, b) }
func (w *wbuf) bytes(p []byte)    { w.b = append(w.b, p...) }
func (w *wbuf) u32(v uint32)      { w.b = append(w.b, EncodeU(uint64(v))...) }
func (w *wbuf) u64(v uint64)      { w.b = append(w.b, EncodeU(v)...) }
func (w *wbuf) s33(v int64)       { w.b = append(w.b, EncodeS(v)...) }
func (w *wbuf) name(s string)     { w.u32(uint32(len(s))); w.b = append(w.b, s...) }
func (w *wbuf) vec(n int)         { w.u32(uint32(n)) }
func (w *wbuf) valtype(t ValType) { w.byte(byte(t)) }

func (w *wbuf) limits(l Limits, is64 bool) {
	flag := byte(0)
	if l.HasMax {
		flag = 1
	}
	if is64 {
		flag |= 4
	}
	w.byte(flag)
	w.u32(l.Min)
	if l.HasMax {
		w.u32(l.Max)
	}
}

func (w *wbuf) section(id byte, body []byte) {
	w.byte(id)
	w.u32(uint32(len(body)))
	w.bytes(body)
}

// EncodeInstr appends the binary encoding of one flat instruction.
func EncodeInstr(w []byte, in *Instr) []byte {
	b := wbuf{w}
	if in.Op >= 0xfc00 {
		b.byte(0xfc)
		b.u32(uint32(in.Op & 0xff))
	} else {
		b.byte(byte(in.Op))
	}
	info := in.Op.Info()
	imm := ImmNone
	if info != nil {
		imm = info.Imm
	}
	switch imm {
	case ImmBlock:
		switch {
		case in.BT.HasIndex:
			b.s33(int64(in.BT.Index))
		case len(in.BT.Results) == 0:
			b.byte(0x40)
		case len(in.BT.Results) == 1:
			b.valtype(in.BT.Results[0])
		default:
			panic("watgen: unresolved multi-value block type in flat code")
		}
	case ImmLabel, ImmFunc, ImmLocal, ImmGlobal, ImmTable, ImmDataIdx:
		b.u32(in.X)
	case ImmBrTable:
		b.vec(len(in.Targets) - 1)
		for _, t := range in.Targets {
			b.u32(t)
		}
	case ImmCallInd:
		b.u32(in.X)
		b.u32(in.Y)
	case ImmMem:
		b.u32(in.Align)
		b.u64(in.Offset)
	case ImmMemIdx:
		b.byte(0)
	case ImmMemCopy:
		b.byte(0)
		b.byte(0)
	case ImmMemInit:
		b.u32(in.X)
		b.byte(0)
	case ImmTableInit, ImmTableCopy:
		b.u32(in.X)
		b.u32(in.Y)
	case ImmI32:
		b.bytes(EncodeS(int64(int32(in.I))))
	case ImmI64:
		b.bytes(EncodeS(in.I))
	case ImmF32:
		var p [4]byte
		binary.LittleEndian.PutUint32(p[:], uint32(in.F))
		b.bytes(p[:])
	case ImmF64:
		var p [8]byte
		binary.LittleEndian.PutUint64(p[:], in.F)
		b.bytes(p[:])
	case ImmSelectT:
		b.vec(len(in.SelT))
		for _, t := range in.SelT {
			b.valtype(t)
		}
	case ImmRefNull:
		b.byte(byte(FuncRef))
	}
	return b.b
}

func encodeExpr(w *wbuf, code []Instr) {
	for i := range code {
		w.b = EncodeInstr(w.b, &code[i])
	}
	w.byte(byte(OpEnd))
}

// EncodeOptions tune Encode.
type EncodeOptions struct {
	// Names: emit the name section (module / function / local subsections in
	// WABT's layout: a local-names entry for every function, named entries only).
	Names bool
}

// Encode writes the module in the binary format: sections in id order, every
// size and index as a minimal LEB128, locals run-length grouped — the layout
// WABT 1.0.29 produces (checked against the stored testdata binaries by the
// calibration tests of C04).
func (m *Bin) Encode(opt EncodeOptions) []byte {
	out := wbuf{[]byte{0, 'a', 's', 'm', 1, 0, 0, 0}}
	if len(m.Types) > 0 {
		var s wbuf
		s.vec(len(m.Types))
		for _, t := range m.Types {
			s.byte(0x60)
			s.vec(len(t.Params))
			for _, p := range t.Params {
				s.valtype(p)
			}
			s.vec(len(t.Results))
			for _, p := range t.Results {
				s.valtype(p)
			}
		}
		out.section(secType, s.b)
	}
	if len(m.Imports) > 0 {
		var s wbuf
		s.vec(len(m.Imports))
		for _, im := range m.Imports {
			s.name(im.Module)
			s.name(im.Field)
			s.byte(im.Kind)
			switch im.Kind {
			case ExternFunc:
				s.u32(im.TypeIdx)
			case ExternTable:
				s.valtype(im.Table.Elem)
				s.limits(im.Table.Lim, false)
			case ExternMemory:
				s.limits(im.Mem.Lim, im.Mem.Is64)
			case ExternGlobal:
				s.valtype(im.GlobalType)
				if im.GlobalMut {
					s.byte(1)
				} else {
					s.byte(0)
				}
			}
		}
		out.section(secImport, s.b)
	}
	if len(m.Funcs) > 0 {
		var s wbuf
		s.vec(len(m.Funcs))
		for _, t := range m.Funcs {
			s.u32(t)
		}
		out.section(secFunction, s.b)
	}
	if len(m.Tables) > 0 {
		var s wbuf
		s.vec(len(m.Tables))
		for _, t := range m.Tables {
			s.valtype(t.Elem)
			s.limits(t.Lim, false)
		}
		out.section(secTable, s.b)
	}
	if len(m.Mems) > 0 {
		var s wbuf
		s.vec(len(m.Mems))
		for _, t := range m.Mems {
			s.limits(t.Lim, t.Is64)
		}
		out.section(secMemory, s.b)
	}
	if len(m.Globals) > 0 {
		var s wbuf
		s.vec(len(m.Globals))
		for _, g := range m.Globals {
			s.valtype(g.Type)
			if g.Mut {
				s.byte(1)
			} else {
				s.byte(0)
			}
			encodeExpr(&s, g.Init)
		}
		out.section(secGlobal, s.b)
	}
	if len(m.Exports) > 0 {
		var s wbuf
		s.vec(len(m.Exports))
		for _, e := range m.Exports {
			s.name(e.Name)
			s.byte(e.Kind)
			s.u32(e.Index)
		}
		out.section(secExport, s.b)
	}
	if m.Start != nil {
		var s wbuf
		s.u32(*m.Start)
		out.section(secStart, s.b)
	}
	if len(m.Elems) > 0 {
		var s wbuf
		s.vec(len(m.Elems))
		for _, e := range m.Elems {
			s.u32(e.Flag)
			switch e.Flag {
			case 0:
				encodeExpr(&s, e.Offset)
			case 2:
				s.u32(e.Table)
				encodeExpr(&s, e.Offset)
				s.byte(0)
			case 1, 3:
				s.byte(0)
			default:
				panic("watgen: element segment form outside the reference encoder's subset")
			}
			s.vec(len(e.Funcs))
			for _, f := range e.Funcs {
				s.u32(f)
			}
		}
		out.section(secElement, s.b)
	}
	if m.DataCount != nil {
		var s wbuf
		s.u32(*m.DataCount)
		out.section(secDataCount, s.b)
	}
	if len(m.Code) > 0 {
		var s wbuf
		s.vec(len(m.Code))
		for _, c := range m.Code {
			var f wbuf
			// run-length groups of consecutive equal types
			var groups [][2]uint32
			for _, t := range c.Locals {
				if n := len(groups); n > 0 && groups[n-1][1] == uint32(t) {
					groups[n-1][0]++
				} else {
					groups = append(groups, [2]uint32{1, uint32(t)})
				}
			}
			f.vec(len(groups))
			for _, g := range groups {
				f.u32(g[0])
				f.byte(byte(g[1]))
			}
			encodeExpr(&f, c.Body)
			s.u32(uint32(len(f.b)))
			s.bytes(f.b)
		}
		out.section(secCode, s.b)
	}
	if len(m.Data) > 0 {
		var s wbuf
		s.vec(len(m.Data))
		for _, d := range m.Data {
			s.u32(d.Flag)
			switch d.Flag {
			case 0:
				encodeExpr(&s, d.Offset)
			case 2:
				s.u32(d.Mem)
				encodeExpr(&s, d.Offset)
			}
			s.u32(uint32(len(d.Bytes)))
			s.bytes(d.Bytes)
		}
		out.section(secData, s.b)
	}
	if opt.Names && m.Names != nil {
		var s wbuf
		s.name("name")
		sub := func(id byte, body []byte) {
			s.byte(id)
			s.u32(uint32(len(body)))
			s.bytes(body)
		}
		n := m.Names
		if n.HasModule {
			var b wbuf
			b.name(n.Module)
			sub(0, b.b)
		}
		if n.HasFuncs {
			var b wbuf
			b.vec(len(n.Funcs))
			for _, a := range n.Funcs {
				b.u32(a.Index)
				b.name(a.Name)
			}
			sub(1, b.b)
		}
		if n.HasLocals {
			var b wbuf
			b.vec(len(n.Locals))
			for _, l := range n.Locals {
				b.u32(l.Func)
				b.vec(len(l.Names))
				for _, a := range l.Names {
					b.u32(a.Index)
					b.name(a.Name)
				}
			}
			sub(2, b.b)
		}
		out.section(secCustom, s.b)
	}
	for _, c := range m.Customs {
		var s wbuf
		s.name(c.Name)
		s.bytes(c.Data)
		out.section(secCustom, s.b)
	}
	return out.b
}

func (m *Bin) String() string {
	return fmt.Sprintf("Bin{types:%d imports:%d funcs:%d tables:%d mems:%d globals:%d exports:%d elems:%d data:%d}",
		len(m.Types), len(m.Imports), len(m.Funcs), len(m.Tables), len(m.Mems), len(m.Globals), len(m.Exports), len(m.Elems), len(m.Data))
}
