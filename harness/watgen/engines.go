package watgen

import (
	"bufio"
	"context"
	"crypto/sha256"
	"encoding/base64"
	"encoding/hex"
	"encoding/json"
	"fmt"
	"io"
	"os/exec"
	"strings"
	"sync"

	"wa-lang.org/wa/internal/3rdparty/wazero"
	"wa-lang.org/wa/internal/3rdparty/wazero/api"
)

// ---------------------------------------------------------------- V8 (node)

const nodeScript = `
const rl = require('readline').createInterface({input: process.stdin, terminal: false});
rl.on('line', (line) => {
  let out;
  try {
    const rq = JSON.parse(line);
    const bytes = Buffer.from(rq.wasm, 'base64');
    try {
      new WebAssembly.Module(bytes);
      out = {id: rq.id, valid: true};
    } catch (e) {
      out = {id: rq.id, valid: false, err: String(e && e.message || e)};
    }
  } catch (e) {
    out = {id: -1, valid: false, err: 'protocol: ' + e};
  }
  process.stdout.write(JSON.stringify(out) + '\n');
});
`

// Node is a persistent node (V8) child process validating modules with
// new WebAssembly.Module(bytes); one process serves any number of modules.
type Node struct {
	mu   sync.Mutex
	cmd  *exec.Cmd
	in   io.WriteCloser
	out  *bufio.Reader
	seq  int
	Path string // node binary; default "node"
}

// NewNode returns a lazily started validator.
func NewNode() *Node { return &Node{} }

func (n *Node) start() error {
	path := n.Path
	if path == "" {
		path = "node"
	}
	cmd := exec.Command(path, "-e", nodeScript)
	in, err := cmd.StdinPipe()
	if err != nil {
		return err
	}
	out, err := cmd.StdoutPipe()
	if err != nil {
		return err
	}
	if err := cmd.Start(); err != nil {
		return err
	}
	n.cmd, n.in, n.out = cmd, in, bufio.NewReaderSize(out, 1<<20)
	return nil
}

// Validate reports whether V8 accepts the module; err is a harness problem
// (node missing, protocol error) and must be treated as inconclusive.
func (n *Node) Validate(wasm []byte) (valid bool, msg string, err error) {
	n.mu.Lock()
	defer n.mu.Unlock()
	for attempt := 0; attempt < 2; attempt++ {
		if n.cmd == nil {
			if err = n.start(); err != nil {
				return false, "", fmt.Errorf("cannot start node: %w", err)
			}
		}
		n.seq++
		rq, _ := json.Marshal(map[string]interface{}{"id": n.seq, "wasm": base64.StdEncoding.EncodeToString(wasm)})
		if _, err = n.in.Write(append(rq, '\n')); err == nil {
			var line []byte
			line, err = n.out.ReadBytes('\n')
			if err == nil {
				var rp struct {
					ID    int    `json:"id"`
					Valid bool   `json:"valid"`
					Err   string `json:"err"`
				}
				if err = json.Unmarshal(line, &rp); err == nil && rp.ID == n.seq {
					return rp.Valid, rp.Err, nil
				}
				err = fmt.Errorf("node protocol error: %q", line)
			}
		}
		n.closeLocked()
	}
	return false, "", err
}

func (n *Node) closeLocked() {
	if n.cmd != nil {
		n.in.Close()
		n.cmd.Process.Kill()
		n.cmd.Wait()
		n.cmd = nil
	}
}

// Close terminates the child.
func (n *Node) Close() {
	n.mu.Lock()
	defer n.mu.Unlock()
	n.closeLocked()
}

// ---------------------------------------------------------------- wazero

var (
	wzOnce sync.Once
	wzRT   wazero.Runtime
	wzMu   sync.Mutex
)

// WazeroCompile validates the module with the vendored wazero
// (Runtime.CompileModule, interpreter configuration).  nil = accepted.
func WazeroCompile(wasm []byte) error {
	wzOnce.Do(func() {
		wzRT = wazero.NewRuntimeWithConfig(context.Background(), wazero.NewRuntimeConfigInterpreter())
	})
	wzMu.Lock()
	defer wzMu.Unlock()
	cm, err := wzRT.CompileModule(context.Background(), wasm)
	if err != nil {
		return err
	}
	cm.Close(context.Background())
	return nil
}

// CallResult is the outcome of one script step.
type CallResult struct {
	Results []Value `json:"results,omitempty"`
	Trap    string  `json:"trap,omitempty"` // trap class ("" = returned normally)
	Missing bool    `json:"missing,omitempty"`
}

// Trace is everything observable about one execution of a script.
type Trace struct {
	InstErr   string       `json:"inst_err,omitempty"` // instantiation failed (incl. start function trap)
	Calls     []CallResult `json:"calls"`
	HostCalls []string     `json:"host_calls"` // "field(args…)" in call order (start function included)
	MemHash   string       `json:"mem_hash"`   // sha256 of the exported memory "mem" ("" if none)
	MemPages  uint32       `json:"mem_pages"`
}

// TrapClass maps an engine error message to one of the designated trap
// classes: div0 overflow badconv oob unreachable table sig exhaustion other.
func TrapClass(msg string) string {
	switch {
	case strings.Contains(msg, "integer divide by zero") || strings.Contains(msg, "divide by zero"):
		return "div0"
	case strings.Contains(msg, "integer overflow"):
		return "overflow"
	case strings.Contains(msg, "invalid conversion to integer"):
		return "badconv"
	case strings.Contains(msg, "out of bounds memory access"):
		return "oob"
	case strings.Contains(msg, "unreachable"):
		return "unreachable"
	case strings.Contains(msg, "invalid table access"):
		return "table"
	case strings.Contains(msg, "indirect call type mismatch"):
		return "sig"
	case strings.Contains(msg, "stack overflow"):
		return "exhaustion"
	}
	return "other:" + msg
}

// ExpectedTrapClass maps a designated trap kind (Trap.Kind) to the class
// TrapClass reports.
func ExpectedTrapClass(kind string) string {
	switch kind {
	case "div0":
		return "div0"
	case "divOverflow", "truncRange":
		return "overflow"
	case "truncNaN":
		return "badconv"
	case "oobLoad", "oobStore":
		return "oob"
	case "unreachable":
		return "unreachable"
	case "indirectNull", "indirectOOB":
		return "table"
	case "indirectSig":
		return "sig"
	}
	return ""
}

func apiType(t ValType) api.ValueType {
	switch t {
	case I32:
		return api.ValueTypeI32
	case I64:
		return api.ValueTypeI64
	case F32:
		return api.ValueTypeF32
	}
	return api.ValueTypeF64
}

// RunWazero instantiates wasm on a fresh vendored-wazero interpreter runtime,
// providing the imports model declares ("host" functions with the
// HostFuncResult semantics, "genv" globals through GenvModule), runs the
// script and returns the trace.  model is the module the text was generated
// from (its import list decides what the host offers; a stripped module may
// import a subset).  exports lists result types per export name.
func RunWazero(wasm []byte, model *Module, script []Call) (tr *Trace, err error) {
	ctx := context.Background()
	rt := wazero.NewRuntimeWithConfig(ctx, wazero.NewRuntimeConfigInterpreter())
	defer rt.Close(ctx)
	tr = &Trace{}
	// host functions, grouped by module name
	byMod := map[string]wazero.HostModuleBuilder{}
	var modOrder []string
	for i := range model.Imports {
		im := model.Imports[i]
		if im.Kind != ExternFunc {
			continue
		}
		b, ok := byMod[im.Module]
		if !ok {
			b = rt.NewHostModuleBuilder(im.Module)
			byMod[im.Module] = b
			modOrder = append(modOrder, im.Module)
		}
		ft := im.Type
		field := im.Field
		var ps, rs []api.ValueType
		for _, p := range ft.Params {
			ps = append(ps, apiType(p))
		}
		for _, p := range ft.Results {
			rs = append(rs, apiType(p))
		}
		fn := api.GoFunc(func(ctx context.Context, stack []uint64) {
			args := make([]Value, len(ft.Params))
			for k, p := range ft.Params {
				v := stack[k]
				if p == I32 || p == F32 {
					v &= 0xffffffff
				}
				args[k] = Value{p, v}
			}
			var sb strings.Builder
			sb.WriteString(field + "(")
			for k, a := range args {
				if k > 0 {
					sb.WriteByte(',')
				}
				fmt.Fprintf(&sb, "%x", a.Bits)
			}
			sb.WriteByte(')')
			tr.HostCalls = append(tr.HostCalls, sb.String())
			for k, r := range HostFuncResult(field, args, ft.Results) {
				stack[k] = r.Bits
			}
		})
		b.NewFunctionBuilder().WithGoFunction(fn, ps, rs).Export(field)
	}
	for _, name := range modOrder {
		if _, e := byMod[name].Instantiate(ctx, rt); e != nil {
			return nil, fmt.Errorf("host module %s: %w", name, e)
		}
	}
	if gb := GenvModule(model); gb != nil {
		cm, e := rt.CompileModule(ctx, gb)
		if e != nil {
			return nil, fmt.Errorf("genv module: %w", e)
		}
		if _, e := rt.InstantiateModule(ctx, cm, wazero.NewModuleConfig().WithName("genv")); e != nil {
			return nil, fmt.Errorf("genv module: %w", e)
		}
	}
	cm, e := rt.CompileModule(ctx, wasm)
	if e != nil {
		return nil, fmt.Errorf("compile: %w", e)
	}
	mod, e := rt.InstantiateModule(ctx, cm, wazero.NewModuleConfig().WithName("m").WithStartFunctions())
	if e != nil {
		tr.InstErr = TrapClass(e.Error())
		return tr, nil
	}
	defs := cm.ExportedFunctions()
	for _, c := range script {
		fn := mod.ExportedFunction(c.Export)
		def := defs[c.Export]
		if fn == nil || def == nil {
			tr.Calls = append(tr.Calls, CallResult{Missing: true})
			continue
		}
		args := make([]uint64, len(c.Args))
		for k, a := range c.Args {
			args[k] = a.Bits
		}
		res, e := fn.Call(ctx, args...)
		if e != nil {
			tr.Calls = append(tr.Calls, CallResult{Trap: TrapClass(e.Error())})
			continue
		}
		cr := CallResult{}
		for k, rt := range def.ResultTypes() {
			var t ValType
			switch rt {
			case api.ValueTypeI32:
				t = I32
			case api.ValueTypeI64:
				t = I64
			case api.ValueTypeF32:
				t = F32
			default:
				t = F64
			}
			v := res[k]
			if t == I32 || t == F32 {
				v &= 0xffffffff
			}
			cr.Results = append(cr.Results, Value{t, v})
		}
		tr.Calls = append(tr.Calls, cr)
	}
	if mem := mod.ExportedMemory("mem"); mem != nil {
		size := mem.Size(ctx)
		tr.MemPages = size / 65536
		if buf, ok := mem.Read(ctx, 0, size); ok {
			h := sha256.Sum256(buf)
			tr.MemHash = hex.EncodeToString(h[:8])
		}
	}
	return tr, nil
}

// GetterCalls returns the calls reading every global through the exported
// getters Exec mode generates (append them to a script to observe globals).
func GetterCalls(m *Module) []Call {
	var out []Call
	for _, e := range m.Exports {
		if e.Kind == ExternFunc && strings.HasPrefix(e.Name, "get_g") {
			out = append(out, Call{Export: e.Name})
		}
	}
	return out
}
