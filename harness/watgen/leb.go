package watgen

// LEB128 codec written from the WebAssembly binary-format chapter ("Values /
// Integers").  Independent of wa-lang.org/wa/internal/wasm/leb128 (same code
// as harness/c19/ref.go, which is property C19's reference).

// EncodeU is the minimal unsigned LEB128 encoding.
func EncodeU(v uint64) []byte {
	var out []byte
	for {
		b := byte(v & 0x7f)
		v >>= 7
		if v == 0 {
			return append(out, b)
		}
		out = append(out, b|0x80)
	}
}

// EncodeS is the minimal signed LEB128 encoding.
func EncodeS(v int64) []byte {
	var out []byte
	for {
		b := byte(v & 0x7f)
		v >>= 7 // arithmetic
		if (v == 0 && b&0x40 == 0) || (v == -1 && b&0x40 != 0) {
			return append(out, b)
		}
		out = append(out, b|0x80)
	}
}

// DecodeU implements uN: at most ceil(N/7) bytes, unused bits of the last
// permitted byte must be zero.
func DecodeU(n uint, p []byte) (val uint64, used int, ok bool) {
	maxLen := int((n + 6) / 7)
	for i := 0; ; i++ {
		if i >= maxLen || i >= len(p) {
			return 0, 0, false
		}
		b := p[i]
		rem := n - uint(7*i)
		if b&0x80 == 0 {
			if rem < 7 && uint(b) >= 1<<rem {
				return 0, 0, false
			}
			return val | uint64(b)<<(7*uint(i)), i + 1, true
		}
		if rem <= 7 {
			return 0, 0, false
		}
		val |= uint64(b&0x7f) << (7 * uint(i))
	}
}

// DecodeS implements sN: at most ceil(N/7) bytes, unused bits of the last
// permitted byte must equal the sign bit.
func DecodeS(n uint, p []byte) (val int64, used int, ok bool) {
	maxLen := int((n + 6) / 7)
	var acc uint64
	for i := 0; ; i++ {
		if i >= maxLen || i >= len(p) {
			return 0, 0, false
		}
		b := p[i]
		rem := n - uint(7*i)
		if b&0x80 == 0 {
			if rem < 7 {
				lim := uint(1) << (rem - 1)
				if !(uint(b) < lim || uint(b) >= 128-lim) {
					return 0, 0, false
				}
			}
			acc |= uint64(b) << (7 * uint(i))
			shift := 7 * uint(i+1)
			if b&0x40 != 0 && shift < 64 {
				acc |= ^uint64(0) << shift
			}
			return int64(acc), i + 1, true
		}
		if rem <= 7 {
			return 0, 0, false
		}
		acc |= uint64(b&0x7f) << (7 * uint(i))
	}
}
