package watgen

import (
	"fmt"
	"math"
	"strconv"
	"strings"
)

// Print renders the model as text in the style internal/wat/readme.md
// documents: flat instructions, one per line, comments only on their own
// lines.  Every spelling choice (identifier vs index, inline vs separate
// export, literal spelling, grouping of params, layout of fields …) is read
// from the model, so Print is a pure function of m.
func Print(m *Module) string {
	p := &printer{m: m, ind: m.Indent}
	if p.ind == "" {
		p.ind = "\t"
	}
	p.module()
	return p.sb.String()
}

type printer struct {
	m   *Module
	sb  strings.Builder
	ind string
}

func (p *printer) f(format string, a ...interface{}) { fmt.Fprintf(&p.sb, format, a...) }

// QuoteString writes a WAT string literal using raw printable ASCII, the five
// escapes the Wa readme documents and \hh for everything else.
func QuoteString(b []byte, hexAll bool) string {
	var sb strings.Builder
	sb.WriteByte('"')
	const hexd = "0123456789abcdef"
	for _, c := range b {
		switch {
		case hexAll:
			sb.WriteByte('\\')
			sb.WriteByte(hexd[c>>4])
			sb.WriteByte(hexd[c&15])
		case c == '\n':
			sb.WriteString(`\n`)
		case c == '\t':
			sb.WriteString(`\t`)
		case c == '\r':
			sb.WriteString(`\r`)
		case c == '"':
			sb.WriteString(`\"`)
		case c == '\\':
			sb.WriteString(`\\`)
		case c >= 0x20 && c < 0x7f:
			sb.WriteByte(c)
		default:
			sb.WriteByte('\\')
			sb.WriteByte(hexd[c>>4])
			sb.WriteByte(hexd[c&15])
		}
	}
	sb.WriteByte('"')
	return sb.String()
}

func (p *printer) comment(indent, c string) {
	if c == "" {
		return
	}
	for _, l := range strings.Split(c, "\n") {
		if strings.HasPrefix(l, "(;") {
			p.f("%s%s\n", indent, l)
		} else {
			p.f("%s;; %s\n", indent, l)
		}
	}
}

var defaultLayout = []string{"types", "imports", "memory", "table", "globals", "funcs", "exports", "start", "elems", "data"}

func (p *printer) module() {
	m := p.m
	p.comment("", m.HeaderComment)
	p.sb.WriteString("(module")
	if m.Name != "" {
		p.f(" $%s", m.Name)
	}
	p.sb.WriteString("\n")
	layout := m.Layout
	if len(layout) == 0 {
		layout = defaultLayout
	}
	for _, g := range layout {
		switch g {
		case "types":
			for i := range m.Types {
				p.typeDef(&m.Types[i])
			}
		case "imports":
			for i := range m.Imports {
				p.imp(&m.Imports[i])
			}
		case "memory":
			if m.Memory != nil {
				p.f("%s(memory", p.ind)
				if m.Memory.Name != "" {
					p.f(" $%s", m.Memory.Name)
				}
				p.limits(m.Memory.Lim)
				p.sb.WriteString(")\n")
			}
		case "table":
			if m.Table != nil {
				p.f("%s(table", p.ind)
				if m.Table.Name != "" {
					p.f(" $%s", m.Table.Name)
				}
				p.limits(m.Table.Lim)
				p.sb.WriteString(" funcref)\n")
			}
		case "globals":
			for i := range m.Globals {
				p.global(i)
			}
		case "funcs":
			for i := range m.Funcs {
				p.fn(i)
			}
		case "exports":
			for i := range m.Exports {
				if !m.Exports[i].Inline {
					p.export(&m.Exports[i])
				}
			}
		case "start":
			if m.Start != nil {
				p.f("%s(start %s)\n", p.ind, p.funcRef(*m.Start, true))
			}
		case "elems":
			for _, e := range m.Elems {
				p.f("%s(elem (i32.const %d)", p.ind, e.Offset)
				for k, fi := range e.Funcs {
					p.f(" %s", p.funcRef(fi, k < len(e.ByName) && e.ByName[k]))
				}
				p.sb.WriteString(")\n")
			}
		case "data":
			for _, d := range m.Data {
				p.f("%s(data", p.ind)
				if d.Name != "" {
					p.f(" $%s", d.Name)
				}
				p.f(" (i32.const %d) %s)\n", d.Offset, QuoteString(d.Bytes, d.HexAll))
			}
		}
	}
	p.sb.WriteString(")\n")
}

func (p *printer) limits(l Limits) {
	p.f(" %d", l.Min)
	if l.HasMax {
		p.f(" %d", l.Max)
	}
}

func (p *printer) sig(ft FuncType, names []string, group, split bool) {
	anyName := false
	for _, n := range names {
		if n != "" {
			anyName = true
		}
	}
	if group && !anyName && len(ft.Params) > 0 {
		p.sb.WriteString(" (param")
		for _, t := range ft.Params {
			p.f(" %v", t)
		}
		p.sb.WriteString(")")
	} else {
		for i, t := range ft.Params {
			if i < len(names) && names[i] != "" {
				p.f(" (param $%s %v)", names[i], t)
			} else {
				p.f(" (param %v)", t)
			}
		}
	}
	if len(ft.Results) > 0 {
		if split {
			for _, t := range ft.Results {
				p.f(" (result %v)", t)
			}
		} else {
			p.sb.WriteString(" (result")
			for _, t := range ft.Results {
				p.f(" %v", t)
			}
			p.sb.WriteString(")")
		}
	}
}

func (p *printer) typeDef(t *TypeDef) {
	p.f("%s(type", p.ind)
	if t.Name != "" {
		p.f(" $%s", t.Name)
	}
	p.sb.WriteString(" (func")
	p.sig(t.Type, t.ParamNames, false, false)
	p.sb.WriteString("))\n")
}

func (p *printer) imp(im *Import) {
	p.f("%s(import %s %s (", p.ind, QuoteString([]byte(im.Module), false), QuoteString([]byte(im.Field), false))
	switch im.Kind {
	case ExternFunc:
		p.sb.WriteString("func")
		if im.Name != "" {
			p.f(" $%s", im.Name)
		}
		if im.HasTypeUse {
			p.f(" (type %d)", im.TypeUse)
		} else {
			p.sig(im.Type, im.ParamNames, false, false)
		}
	case ExternGlobal:
		p.sb.WriteString("global")
		if im.Name != "" {
			p.f(" $%s", im.Name)
		}
		if im.GlobalMut {
			p.f(" (mut %v)", im.GlobalType)
		} else {
			p.f(" %v", im.GlobalType)
		}
	case ExternMemory:
		p.sb.WriteString("memory")
		if im.Name != "" {
			p.f(" $%s", im.Name)
		}
		p.limits(im.Lim)
	case ExternTable:
		p.sb.WriteString("table")
		if im.Name != "" {
			p.f(" $%s", im.Name)
		}
		p.limits(im.Lim)
		p.sb.WriteString(" funcref")
	}
	p.sb.WriteString("))\n")
}

func (p *printer) funcRef(idx uint32, byName bool) string {
	if n := p.m.FuncName(idx); byName && n != "" {
		return "$" + n
	}
	return strconv.FormatUint(uint64(idx), 10)
}

func (p *printer) export(e *Export) {
	var kind, ref string
	switch e.Kind {
	case ExternFunc:
		kind, ref = "func", p.funcRef(e.Index, e.ByName)
	case ExternGlobal:
		kind = "global"
		ref = strconv.FormatUint(uint64(e.Index), 10)
		if n := p.m.GlobalName(e.Index); e.ByName && n != "" {
			ref = "$" + n
		}
	case ExternMemory:
		kind = "memory"
		ref = strconv.FormatUint(uint64(e.Index), 10)
		if e.ByName && p.m.Memory != nil && p.m.Memory.Name != "" && p.m.countImports(ExternMemory) == 0 {
			ref = "$" + p.m.Memory.Name
		}
	case ExternTable:
		kind = "table"
		ref = strconv.FormatUint(uint64(e.Index), 10)
		if e.ByName && p.m.Table != nil && p.m.Table.Name != "" && p.m.countImports(ExternTable) == 0 {
			ref = "$" + p.m.Table.Name
		}
	}
	p.f("%s(export %s (%s %s))\n", p.ind, QuoteString([]byte(e.Name), false), kind, ref)
}

func (p *printer) global(i int) {
	g := &p.m.Globals[i]
	idx := uint32(p.m.ImportedGlobals() + i)
	p.f("%s(global", p.ind)
	if g.Name != "" {
		p.f(" $%s", g.Name)
	}
	for _, e := range p.m.Exports {
		if e.Inline && e.Kind == ExternGlobal && e.Index == idx {
			p.f(" (export %s)", QuoteString([]byte(e.Name), false))
		}
	}
	if g.Mut {
		p.f(" (mut %v)", g.Type)
	} else {
		p.f(" %v", g.Type)
	}
	p.f(" (%s))\n", p.instrText(nil, &g.Init))
}

func (p *printer) fn(i int) {
	f := &p.m.Funcs[i]
	idx := uint32(p.m.ImportedFuncs() + i)
	p.comment(p.ind, f.Comment)
	p.f("%s(func", p.ind)
	if f.Name != "" {
		p.f(" $%s", f.Name)
	}
	for _, e := range p.m.Exports {
		if e.Inline && e.Kind == ExternFunc && e.Index == idx {
			p.f(" (export %s)", QuoteString([]byte(e.Name), false))
		}
	}
	if f.HasTypeUse {
		p.f(" (type %d)", f.TypeUse)
	}
	p.sig(f.Type, f.ParamNames, f.GroupParams, f.SplitResults)
	p.sb.WriteString("\n")
	in2 := p.ind + p.ind
	for k, t := range f.Locals {
		if k < len(f.LocalNames) && f.LocalNames[k] != "" {
			p.f("%s(local $%s %v)\n", in2, f.LocalNames[k], t)
		} else {
			p.f("%s(local %v)\n", in2, t)
		}
	}
	p.body(f, f.Body, in2, nil)
	p.f("%s)\n", p.ind)
}

// localName returns the identifier of local index x in f ("" if anonymous).
func localName(f *Func, x uint32) string {
	if int(x) < len(f.Type.Params) {
		if int(x) < len(f.ParamNames) {
			return f.ParamNames[x]
		}
		return ""
	}
	k := int(x) - len(f.Type.Params)
	if k < len(f.LocalNames) {
		return f.LocalNames[k]
	}
	return ""
}

func (p *printer) body(f *Func, body []Instr, indent string, labels []string) {
	for i := range body {
		in := &body[i]
		p.comment(indent, in.Sp.Comment)
		switch in.Op {
		case OpBlock, OpLoop, OpIf:
			p.f("%s%s", indent, in.Op)
			if in.Label != "" {
				p.f(" $%s", in.Label)
			}
			if len(in.BT.Results) > 0 {
				p.sb.WriteString(" (result")
				for _, t := range in.BT.Results {
					p.f(" %v", t)
				}
				p.sb.WriteString(")")
			}
			p.sb.WriteString("\n")
			inner := append(append([]string{}, labels...), in.Label)
			p.body(f, in.Then, indent+p.ind, inner)
			if in.Op == OpIf && (in.HasElse || len(in.Else) > 0) {
				p.f("%selse\n", indent)
				p.body(f, in.Else, indent+p.ind, inner)
			}
			p.f("%send\n", indent)
		default:
			p.f("%s%s\n", indent, p.instrTextL(f, in, labels))
		}
	}
}

func (p *printer) labelRef(depth uint32, byName bool, labels []string) string {
	if byName && int(depth) < len(labels) {
		if n := labels[len(labels)-1-int(depth)]; n != "" {
			// the name must not be shadowed by an inner block with the same label
			shadowed := false
			for d := 0; d < int(depth); d++ {
				if labels[len(labels)-1-d] == n {
					shadowed = true
				}
			}
			if !shadowed {
				return "$" + n
			}
		}
	}
	return strconv.FormatUint(uint64(depth), 10)
}

func (p *printer) instrText(f *Func, in *Instr) string { return p.instrTextL(f, in, nil) }

func (p *printer) instrTextL(f *Func, in *Instr, labels []string) string {
	info := in.Op.Info()
	name := in.Op.String()
	switch info.Imm {
	case ImmLabel:
		return name + " " + p.labelRef(in.X, in.Sp.ByName, labels)
	case ImmBrTable:
		s := name
		for k, t := range in.Targets {
			s += " " + p.labelRef(t, k < len(in.Sp.TargetsByName) && in.Sp.TargetsByName[k], labels)
		}
		return s
	case ImmFunc:
		return name + " " + p.funcRef(in.X, in.Sp.ByName)
	case ImmCallInd:
		s := name
		if !in.Sp.OmitTable {
			if in.Sp.ByName && p.m.Table != nil && p.m.Table.Name != "" {
				s += " $" + p.m.Table.Name
			} else {
				s += " " + strconv.FormatUint(uint64(in.Y), 10)
			}
		}
		if in.Sp.TypeByName && int(in.X) < len(p.m.Types) && p.m.Types[in.X].Name != "" {
			return s + " (type $" + p.m.Types[in.X].Name + ")"
		}
		return s + " (type " + strconv.FormatUint(uint64(in.X), 10) + ")"
	case ImmLocal:
		if f != nil && in.Sp.ByName {
			if n := localName(f, in.X); n != "" {
				return name + " $" + n
			}
		}
		return name + " " + strconv.FormatUint(uint64(in.X), 10)
	case ImmGlobal:
		if n := p.m.GlobalName(in.X); in.Sp.ByName && n != "" {
			return name + " $" + n
		}
		return name + " " + strconv.FormatUint(uint64(in.X), 10)
	case ImmTable:
		if in.Sp.OmitTable {
			return name
		}
		if in.Sp.ByName && p.m.Table != nil && p.m.Table.Name != "" {
			return name + " $" + p.m.Table.Name
		}
		return name + " " + strconv.FormatUint(uint64(in.X), 10)
	case ImmMem:
		s := name
		if in.Offset != 0 {
			if in.Sp.OffsetHex {
				s += " offset=0x" + strconv.FormatUint(in.Offset, 16)
			} else {
				s += " offset=" + strconv.FormatUint(in.Offset, 10)
			}
		}
		if in.Sp.AlignExplicit || in.Align != natAlign(info.Width) {
			s += " align=" + strconv.FormatUint(1<<in.Align, 10)
		}
		return s
	case ImmMemInit, ImmDataIdx:
		return name + " " + strconv.FormatUint(uint64(in.X), 10)
	case ImmI32:
		if in.Sp.Lit != "" {
			return name + " " + in.Sp.Lit
		}
		return name + " " + strconv.FormatInt(int64(int32(in.I)), 10)
	case ImmI64:
		if in.Sp.Lit != "" {
			return name + " " + in.Sp.Lit
		}
		return name + " " + strconv.FormatInt(in.I, 10)
	case ImmF32:
		if in.Sp.Lit != "" {
			return name + " " + in.Sp.Lit
		}
		return name + " " + FloatLit(in.F, 32)
	case ImmF64:
		if in.Sp.Lit != "" {
			return name + " " + in.Sp.Lit
		}
		return name + " " + FloatLit(in.F, 64)
	case ImmSelectT:
		s := "select (result"
		for _, t := range in.SelT {
			s += " " + t.String()
		}
		return s + ")"
	}
	return name
}

// FloatLit is the canonical exact spelling of a float bit pattern: a hex float
// with a p exponent for finite values (accepted by both WABT and the Wa
// parser), inf / nan / nan:0x… otherwise (standard WAT; the Wa parser has no
// token for them).
func FloatLit(bits uint64, width int) string {
	var v float64
	var neg, isNaN bool
	var payload uint64
	if width == 32 {
		b := uint32(bits)
		neg = b>>31 != 0
		f := math.Float32frombits(b)
		isNaN = f != f
		payload = uint64(b & 0x7fffff)
		v = float64(f)
	} else {
		neg = bits>>63 != 0
		v = math.Float64frombits(bits)
		isNaN = v != v
		payload = bits & (1<<52 - 1)
	}
	sign := ""
	if neg {
		sign = "-"
	}
	switch {
	case isNaN:
		canon := uint64(1) << 22
		if width == 64 {
			canon = 1 << 51
		}
		if payload == canon {
			return sign + "nan"
		}
		return sign + "nan:0x" + strconv.FormatUint(payload, 16)
	case math.IsInf(v, 0):
		return sign + "inf"
	}
	return strconv.FormatFloat(v, 'x', -1, width)
}
