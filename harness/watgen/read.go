package watgen

import (
	"fmt"
	"math"
	"math/big"
	"strconv"
	"strings"
	"unicode/utf8"
)

// ReadWAT is the harness's own strict reader for the *standard* text format,
// restricted to flat (unfolded) instruction sequences — the subset the Wa
// tool chain writes.  It follows the text-format chapter of the spec: nested
// (; ;) comments, the full identifier alphabet, string escapes
// \t \n \r \" \' \\ \hh \u{…}, all integer / float literal spellings (sign,
// '_', hex, inf, nan, nan:0x…, hex floats), (type) uses on functions and
// imports, inline exports.  It resolves every identifier to an index and
// returns the model; ReadWAT(x).Lower().Encode() is the reference assembler
// used where WABT's output is not stored (checked against the 30 stored WABT
// binaries by C04's calibration).
//
// Anything outside that subset (folded instructions, inline import/export
// abbreviations on memories and tables, passive segments, reference types,
// block parameters, multiple memories …) is an error, never a guess.
func ReadWAT(src []byte) (m *Module, err error) {
	defer func() {
		if r := recover(); r != nil {
			if e, ok := r.(*readErr); ok {
				m, err = nil, e
				return
			}
			panic(r)
		}
	}()
	toks := lex(src)
	p := &sparser{toks: toks}
	root := p.parseOne()
	if p.i != len(toks) {
		rfail(toks[p.i].pos, "text after the module")
	}
	rd := &reader{}
	return rd.module(root), nil
}

type readErr struct{ msg string }

func (e *readErr) Error() string { return e.msg }

func rfail(pos int, format string, a ...interface{}) {
	panic(&readErr{fmt.Sprintf("wat read @%d: ", pos) + fmt.Sprintf(format, a...)})
}

// ---------------------------------------------------------------- lexer

type tokKind uint8

const (
	tLParen tokKind = iota
	tRParen
	tAtom
	tString
)

type tok struct {
	kind tokKind
	text string // atom text / decoded string bytes
	pos  int
}

func isIdChar(c byte) bool {
	switch {
	case c >= '0' && c <= '9', c >= 'a' && c <= 'z', c >= 'A' && c <= 'Z':
		return true
	}
	return strings.IndexByte("!#$%&'*+-./:<=>?@\\^_`|~", c) >= 0
}

func lex(src []byte) []tok {
	var out []tok
	i := 0
	for i < len(src) {
		c := src[i]
		switch {
		case c == ' ' || c == '\t' || c == '\n' || c == '\r':
			i++
		case c == ';' && i+1 < len(src) && src[i+1] == ';':
			for i < len(src) && src[i] != '\n' {
				i++
			}
		case c == '(' && i+1 < len(src) && src[i+1] == ';':
			depth, start := 0, i
			for {
				if i+1 >= len(src) {
					rfail(start, "unterminated block comment")
				}
				if src[i] == '(' && src[i+1] == ';' {
					depth++
					i += 2
				} else if src[i] == ';' && src[i+1] == ')' {
					depth--
					i += 2
					if depth == 0 {
						break
					}
				} else {
					i++
				}
			}
		case c == '(':
			out = append(out, tok{tLParen, "(", i})
			i++
		case c == ')':
			out = append(out, tok{tRParen, ")", i})
			i++
		case c == '"':
			start := i
			i++
			var sb []byte
			for {
				if i >= len(src) {
					rfail(start, "unterminated string")
				}
				ch := src[i]
				if ch == '"' {
					i++
					break
				}
				if ch == '\n' || ch < 0x20 || ch == 0x7f {
					rfail(i, "control character in string")
				}
				if ch != '\\' {
					sb = append(sb, ch)
					i++
					continue
				}
				i++
				if i >= len(src) {
					rfail(start, "unterminated string")
				}
				switch e := src[i]; e {
				case 't':
					sb = append(sb, '\t')
					i++
				case 'n':
					sb = append(sb, '\n')
					i++
				case 'r':
					sb = append(sb, '\r')
					i++
				case '"':
					sb = append(sb, '"')
					i++
				case '\'':
					sb = append(sb, '\'')
					i++
				case '\\':
					sb = append(sb, '\\')
					i++
				case 'u':
					if i+1 >= len(src) || src[i+1] != '{' {
						rfail(i, "bad \\u escape")
					}
					j := i + 2
					for j < len(src) && src[j] != '}' {
						j++
					}
					if j >= len(src) {
						rfail(i, "bad \\u escape")
					}
					v, err := strconv.ParseUint(strings.ReplaceAll(string(src[i+2:j]), "_", ""), 16, 32)
					if err != nil || v > 0x10ffff || (v >= 0xd800 && v < 0xe000) {
						rfail(i, "bad \\u escape")
					}
					var b [4]byte
					n := utf8.EncodeRune(b[:], rune(v))
					sb = append(sb, b[:n]...)
					i = j + 1
				default:
					if i+1 < len(src) && isHexDigit(src[i]) && isHexDigit(src[i+1]) {
						v, _ := strconv.ParseUint(string(src[i:i+2]), 16, 8)
						sb = append(sb, byte(v))
						i += 2
					} else {
						rfail(i, "unknown escape \\%c", e)
					}
				}
			}
			out = append(out, tok{tString, string(sb), start})
		case isIdChar(c):
			start := i
			for i < len(src) && isIdChar(src[i]) {
				i++
			}
			out = append(out, tok{tAtom, string(src[start:i]), start})
		default:
			rfail(i, "illegal character %q", c)
		}
	}
	return out
}

func isHexDigit(c byte) bool {
	return c >= '0' && c <= '9' || c >= 'a' && c <= 'f' || c >= 'A' && c <= 'F'
}

// ---------------------------------------------------------------- s-expressions

type node struct {
	list  []*node // non-nil for lists (possibly empty slice → use isList)
	isLst bool
	tok   tok
}

func (n *node) head() string {
	if n.isLst && len(n.list) > 0 && !n.list[0].isLst && n.list[0].tok.kind == tAtom {
		return n.list[0].tok.text
	}
	return ""
}

func (n *node) isAtom() bool { return !n.isLst && n.tok.kind == tAtom }
func (n *node) isStr() bool  { return !n.isLst && n.tok.kind == tString }
func (n *node) isID() bool {
	return n.isAtom() && strings.HasPrefix(n.tok.text, "$") && len(n.tok.text) > 1
}

type sparser struct {
	toks []tok
	i    int
}

func (p *sparser) parseOne() *node {
	if p.i >= len(p.toks) {
		rfail(0, "unexpected end of text")
	}
	t := p.toks[p.i]
	p.i++
	switch t.kind {
	case tLParen:
		n := &node{isLst: true, tok: t}
		for {
			if p.i >= len(p.toks) {
				rfail(t.pos, "unbalanced parenthesis")
			}
			if p.toks[p.i].kind == tRParen {
				p.i++
				return n
			}
			n.list = append(n.list, p.parseOne())
		}
	case tRParen:
		rfail(t.pos, "unexpected )")
	}
	return &node{tok: t}
}

// ---------------------------------------------------------------- literals

func cleanNum(pos int, s string) string {
	if strings.HasPrefix(s, "_") || strings.HasSuffix(s, "_") || strings.Contains(s, "__") {
		rfail(pos, "bad '_' in number %q", s)
	}
	return strings.ReplaceAll(s, "_", "")
}

// parseInt parses an iN literal (N = 32 or 64) and returns its two's
// complement value sign-extended to 64 bits.
func parseInt(pos int, s string, bits uint) int64 {
	orig := s
	neg := false
	if strings.HasPrefix(s, "+") {
		s = s[1:]
	} else if strings.HasPrefix(s, "-") {
		neg, s = true, s[1:]
	}
	base := 10
	if strings.HasPrefix(s, "0x") {
		base, s = 16, s[2:]
	}
	if s == "" {
		rfail(pos, "bad integer %q", orig)
	}
	for i := 0; i < len(s); i++ {
		c := s[i]
		ok := c == '_' || c >= '0' && c <= '9' || base == 16 && isHexDigit(c)
		if !ok {
			rfail(pos, "bad integer %q", orig)
		}
	}
	s = cleanNum(pos, s)
	v, ok := new(big.Int).SetString(s, base)
	if !ok {
		rfail(pos, "bad integer %q", orig)
	}
	limU := new(big.Int).Lsh(big.NewInt(1), bits)   // 2^N
	limS := new(big.Int).Lsh(big.NewInt(1), bits-1) // 2^(N-1)
	if neg {
		if v.Cmp(limS) > 0 {
			rfail(pos, "integer %q out of range", orig)
		}
		v.Neg(v)
	} else if v.Cmp(limU) >= 0 {
		rfail(pos, "integer %q out of range", orig)
	}
	if v.Sign() < 0 {
		v.Add(v, limU)
	}
	u := v.Uint64()
	if bits == 32 {
		return int64(int32(uint32(u)))
	}
	return int64(u)
}

func parseU(pos int, s string, bits uint) uint64 {
	if strings.HasPrefix(s, "-") || strings.HasPrefix(s, "+") {
		rfail(pos, "unsigned integer expected, got %q", s)
	}
	v := parseInt(pos, s, bits)
	if bits == 32 {
		return uint64(uint32(v))
	}
	return uint64(v)
}

// parseFloat parses an fN literal and returns its bit pattern.
func parseFloat(pos int, s string, bits int) uint64 {
	orig := s
	neg := false
	if strings.HasPrefix(s, "+") {
		s = s[1:]
	} else if strings.HasPrefix(s, "-") {
		neg, s = true, s[1:]
	}
	signBit := uint64(0)
	if neg {
		signBit = 1 << uint(bits-1)
	}
	mantBits := uint(23)
	expMask := uint64(0x7f800000)
	if bits == 64 {
		mantBits, expMask = 52, 0x7ff0000000000000
	}
	switch {
	case s == "inf":
		return signBit | expMask
	case s == "nan":
		return signBit | expMask | 1<<(mantBits-1)
	case strings.HasPrefix(s, "nan:0x"):
		pl, err := strconv.ParseUint(cleanNum(pos, s[6:]), 16, 64)
		if err != nil || pl == 0 || pl >= 1<<mantBits {
			rfail(pos, "bad nan payload %q", orig)
		}
		return signBit | expMask | pl
	}
	if s == "" {
		rfail(pos, "bad float %q", orig)
	}
	hex := strings.HasPrefix(s, "0x")
	for i := 0; i < len(s); i++ {
		c := s[i]
		ok := c == '_' || c == '.' || c == '+' || c == '-' || c >= '0' && c <= '9' ||
			hex && (isHexDigit(c) || c == 'x' || c == 'p' || c == 'P') || !hex && (c == 'e' || c == 'E')
		if !ok {
			rfail(pos, "bad float %q", orig)
		}
	}
	s = strings.ReplaceAll(s, "_", "")
	if hex && !strings.ContainsAny(s, "pP") {
		s += "p0"
	}
	f, err := strconv.ParseFloat(s, bits)
	if err != nil {
		if ne, ok := err.(*strconv.NumError); ok && ne.Err == strconv.ErrRange && !math.IsInf(f, 0) {
			// underflow to zero/denormal is fine
		} else {
			rfail(pos, "bad float %q: %v", orig, err)
		}
	}
	if bits == 32 {
		return signBit | uint64(math.Float32bits(float32(f)))
	}
	return signBit | math.Float64bits(f)
}

// ---------------------------------------------------------------- module reader

type reader struct {
	m         *Module
	typeIDs   map[string]uint32
	funcIDs   map[string]uint32
	globalIDs map[string]uint32
	tableIDs  map[string]uint32
	memIDs    map[string]uint32
	dataIDs   map[string]uint32
}

func idName(n *node) string { return n.tok.text[1:] }

func valtypeOf(n *node) ValType {
	if n.isAtom() {
		switch n.tok.text {
		case "i32":
			return I32
		case "i64":
			return I64
		case "f32":
			return F32
		case "f64":
			return F64
		}
	}
	rfail(n.tok.pos, "value type expected")
	return 0
}

// typeUse parses (type x)? (param …)* (result …)* starting at items[i];
// returns the signature, param names and the index after the last consumed
// item.
type typeUse struct {
	hasType bool
	typeRef *node
	ft      FuncType
	names   []string
	inline  bool
}

func parseTypeUse(items []*node, i int, allowNames bool) (typeUse, int) {
	var tu typeUse
	if i < len(items) && items[i].head() == "type" {
		if len(items[i].list) != 2 {
			rfail(items[i].tok.pos, "bad (type) use")
		}
		tu.hasType, tu.typeRef = true, items[i].list[1]
		i++
	}
	for i < len(items) && items[i].head() == "param" {
		l := items[i].list[1:]
		tu.inline = true
		if len(l) == 2 && l[0].isID() {
			if !allowNames {
				rfail(l[0].tok.pos, "parameter identifier not allowed here")
			}
			tu.ft.Params = append(tu.ft.Params, valtypeOf(l[1]))
			tu.names = append(tu.names, idName(l[0]))
		} else {
			for _, t := range l {
				tu.ft.Params = append(tu.ft.Params, valtypeOf(t))
				tu.names = append(tu.names, "")
			}
		}
		i++
	}
	for i < len(items) && items[i].head() == "result" {
		tu.inline = true
		for _, t := range items[i].list[1:] {
			tu.ft.Results = append(tu.ft.Results, valtypeOf(t))
		}
		i++
	}
	if i < len(items) && items[i].head() == "param" {
		rfail(items[i].tok.pos, "(param) after (result)")
	}
	return tu, i
}

func (r *reader) module(root *node) *Module {
	if root.head() != "module" {
		rfail(root.tok.pos, "(module …) expected")
	}
	m := &Module{}
	r.m = m
	r.typeIDs, r.funcIDs, r.globalIDs = map[string]uint32{}, map[string]uint32{}, map[string]uint32{}
	r.tableIDs, r.memIDs, r.dataIDs = map[string]uint32{}, map[string]uint32{}, map[string]uint32{}
	fields := root.list[1:]
	if len(fields) > 0 && fields[0].isID() {
		m.Name = idName(fields[0])
		fields = fields[1:]
	}
	bind := func(tbl map[string]uint32, n *node, idx int, what string) string {
		name := idName(n)
		if _, dup := tbl[name]; dup {
			rfail(n.tok.pos, "duplicate %s identifier $%s", what, name)
		}
		tbl[name] = uint32(idx)
		return name
	}
	// pass 1: index spaces and identifiers
	type pending struct {
		n     *node
		items []*node // after keyword and optional id
	}
	var funcs, globals []pending
	var later []*node // export, start, elem, data
	exportSlot := map[*node]int{}
	nfunc, nglobal, ntable, nmem := 0, 0, 0, 0
	definedSeen := false
	for _, f := range fields {
		if !f.isLst {
			rfail(f.tok.pos, "module field expected")
		}
		items := f.list[1:]
		switch f.head() {
		case "type":
			td := TypeDef{}
			if len(items) > 0 && items[0].isID() {
				td.Name = bind(r.typeIDs, items[0], len(m.Types), "type")
				items = items[1:]
			}
			if len(items) != 1 || items[0].head() != "func" {
				rfail(f.tok.pos, "(type (func …)) expected")
			}
			tu, end := parseTypeUse(items[0].list, 1, true)
			if tu.hasType || end != len(items[0].list) {
				rfail(f.tok.pos, "bad function type")
			}
			td.Type, td.ParamNames = tu.ft, tu.names
			m.Types = append(m.Types, td)
		case "import":
			if definedSeen {
				rfail(f.tok.pos, "import after a definition")
			}
			if len(items) != 3 || !items[0].isStr() || !items[1].isStr() || !items[2].isLst {
				rfail(f.tok.pos, "bad import")
			}
			im := Import{Module: items[0].tok.text, Field: items[1].tok.text}
			if !utf8.ValidString(im.Module) || !utf8.ValidString(im.Field) {
				rfail(f.tok.pos, "import name is not UTF-8")
			}
			d := items[2]
			di := d.list[1:]
			switch d.head() {
			case "func":
				im.Kind = ExternFunc
				if len(di) > 0 && di[0].isID() {
					im.Name = bind(r.funcIDs, di[0], nfunc, "function")
					di = di[1:]
				}
				nfunc++
			case "global":
				im.Kind = ExternGlobal
				if len(di) > 0 && di[0].isID() {
					im.Name = bind(r.globalIDs, di[0], nglobal, "global")
					di = di[1:]
				}
				if len(di) != 1 {
					rfail(d.tok.pos, "bad global type")
				}
				if di[0].head() == "mut" {
					im.GlobalMut = true
					im.GlobalType = valtypeOf(di[0].list[1])
				} else {
					im.GlobalType = valtypeOf(di[0])
				}
				nglobal++
			case "memory":
				im.Kind = ExternMemory
				if len(di) > 0 && di[0].isID() {
					im.Name = bind(r.memIDs, di[0], nmem, "memory")
					di = di[1:]
				}
				im.Lim = readLimits(d, di)
				nmem++
			case "table":
				im.Kind = ExternTable
				if len(di) > 0 && di[0].isID() {
					im.Name = bind(r.tableIDs, di[0], ntable, "table")
					di = di[1:]
				}
				if len(di) < 2 || !di[len(di)-1].isAtom() || di[len(di)-1].tok.text != "funcref" {
					rfail(d.tok.pos, "only funcref tables are in the subset")
				}
				im.Lim = readLimits(d, di[:len(di)-1])
				ntable++
			default:
				rfail(d.tok.pos, "bad import descriptor")
			}
			m.Imports = append(m.Imports, im)
		case "func":
			definedSeen = true
			fn := Func{}
			if len(items) > 0 && items[0].isID() {
				fn.Name = bind(r.funcIDs, items[0], nfunc, "function")
				items = items[1:]
			}
			for len(items) > 0 && items[0].head() == "export" {
				e := items[0]
				if len(e.list) != 2 || !e.list[1].isStr() {
					rfail(e.tok.pos, "bad inline export")
				}
				m.Exports = append(m.Exports, Export{Name: e.list[1].tok.text, Kind: ExternFunc, Index: uint32(nfunc), Inline: true})
				items = items[1:]
			}
			if len(items) > 0 && items[0].head() == "import" {
				rfail(items[0].tok.pos, "inline import abbreviation is outside the subset")
			}
			m.Funcs = append(m.Funcs, fn)
			funcs = append(funcs, pending{f, items})
			nfunc++
		case "global":
			definedSeen = true
			g := Global{}
			if len(items) > 0 && items[0].isID() {
				g.Name = bind(r.globalIDs, items[0], nglobal, "global")
				items = items[1:]
			}
			for len(items) > 0 && items[0].head() == "export" {
				e := items[0]
				if len(e.list) != 2 || !e.list[1].isStr() {
					rfail(e.tok.pos, "bad inline export")
				}
				g.Export = e.list[1].tok.text
				m.Exports = append(m.Exports, Export{Name: g.Export, Kind: ExternGlobal, Index: uint32(nglobal), Inline: true})
				items = items[1:]
			}
			m.Globals = append(m.Globals, g)
			globals = append(globals, pending{f, items})
			nglobal++
		case "memory":
			definedSeen = true
			if nmem > 0 {
				rfail(f.tok.pos, "multiple memories")
			}
			mem := &Memory{}
			if len(items) > 0 && items[0].isID() {
				mem.Name = bind(r.memIDs, items[0], nmem, "memory")
				items = items[1:]
			}
			mem.Lim = readLimits(f, items)
			m.Memory = mem
			nmem++
		case "table":
			definedSeen = true
			if ntable > 0 {
				rfail(f.tok.pos, "multiple tables")
			}
			t := &Table{}
			if len(items) > 0 && items[0].isID() {
				t.Name = bind(r.tableIDs, items[0], ntable, "table")
				items = items[1:]
			}
			if len(items) < 2 || !items[len(items)-1].isAtom() || items[len(items)-1].tok.text != "funcref" {
				rfail(f.tok.pos, "only (table min max? funcref) is in the subset")
			}
			t.Lim = readLimits(f, items[:len(items)-1])
			m.Table = t
			ntable++
		case "export":
			// keep text order among inline and separate exports (WABT does)
			exportSlot[f] = len(m.Exports)
			m.Exports = append(m.Exports, Export{})
			later = append(later, f)
		case "start", "elem", "data":
			later = append(later, f)
		default:
			rfail(f.tok.pos, "unknown module field %q", f.head())
		}
	}
	// pass 2: signatures (need all types)
	resolveType := func(tu typeUse, pos int) FuncType {
		if !tu.hasType {
			return tu.ft
		}
		idx := r.index(tu.typeRef, r.typeIDs, "type")
		if int(idx) >= len(m.Types) {
			rfail(pos, "type index %d out of range", idx)
		}
		if tu.inline && !tu.ft.Equal(m.Types[idx].Type) {
			rfail(pos, "inline signature does not match (type %d)", idx)
		}
		return m.Types[idx].Type
	}
	{
		k := 0
		for _, f := range fields {
			if f.head() != "import" {
				continue
			}
			im := &m.Imports[k]
			k++
			if im.Kind != ExternFunc {
				continue
			}
			d := f.list[3]
			di := d.list[1:]
			if len(di) > 0 && di[0].isID() {
				di = di[1:]
			}
			tu, end := parseTypeUse(di, 0, true)
			if end != len(di) {
				rfail(d.tok.pos, "bad import function type")
			}
			im.Type = resolveType(tu, d.tok.pos)
			im.ParamNames = tu.names
			if tu.hasType {
				im.HasTypeUse, im.TypeUse = true, r.index(tu.typeRef, r.typeIDs, "type")
				if !tu.inline {
					im.ParamNames = make([]string, len(im.Type.Params))
				}
			}
		}
	}
	type fnCtx struct {
		items []*node
		start int
	}
	ctxs := make([]fnCtx, len(funcs))
	for i, pf := range funcs {
		fn := &m.Funcs[i]
		tu, end := parseTypeUse(pf.items, 0, true)
		fn.Type = resolveType(tu, pf.n.tok.pos)
		fn.ParamNames = tu.names
		if tu.hasType {
			fn.HasTypeUse, fn.TypeUse = true, r.index(tu.typeRef, r.typeIDs, "type")
			if !tu.inline {
				fn.ParamNames = make([]string, len(fn.Type.Params))
			}
		}
		for end < len(pf.items) && pf.items[end].head() == "local" {
			l := pf.items[end].list[1:]
			if len(l) == 2 && l[0].isID() {
				fn.Locals = append(fn.Locals, valtypeOf(l[1]))
				fn.LocalNames = append(fn.LocalNames, idName(l[0]))
			} else {
				for _, t := range l {
					fn.Locals = append(fn.Locals, valtypeOf(t))
					fn.LocalNames = append(fn.LocalNames, "")
				}
			}
			end++
		}
		ctxs[i] = fnCtx{pf.items, end}
	}
	for i, pg := range globals {
		g := &m.Globals[i]
		it := pg.items
		if len(it) != 2 {
			rfail(pg.n.tok.pos, "bad global")
		}
		if it[0].head() == "mut" {
			g.Mut = true
			g.Type = valtypeOf(it[0].list[1])
		} else {
			g.Type = valtypeOf(it[0])
		}
		g.Init = r.constExpr(it[1])
	}
	// pass 3: bodies
	for i := range funcs {
		fn := &m.Funcs[i]
		br := &bodyReader{r: r, fn: fn, items: ctxs[i].items, i: ctxs[i].start}
		br.locals = map[string]uint32{}
		for k, n := range fn.ParamNames {
			if n != "" {
				if _, dup := br.locals[n]; dup {
					rfail(funcs[i].n.tok.pos, "duplicate local $%s", n)
				}
				br.locals[n] = uint32(k)
			}
		}
		for k, n := range fn.LocalNames {
			if n != "" {
				if _, dup := br.locals[n]; dup {
					rfail(funcs[i].n.tok.pos, "duplicate local $%s", n)
				}
				br.locals[n] = uint32(len(fn.ParamNames) + k)
			}
		}
		body, stop := br.seq()
		if stop != "" {
			rfail(funcs[i].n.tok.pos, "unexpected %s", stop)
		}
		fn.Body = body
	}
	// pass 4: export / start / elem / data
	for _, f := range later {
		items := f.list[1:]
		switch f.head() {
		case "export":
			if len(items) != 2 || !items[0].isStr() || !items[1].isLst || len(items[1].list) != 2 {
				rfail(f.tok.pos, "bad export")
			}
			e := Export{Name: items[0].tok.text}
			ref := items[1].list[1]
			e.ByName = ref.isID()
			switch items[1].head() {
			case "func":
				e.Kind, e.Index = ExternFunc, r.index(ref, r.funcIDs, "function")
			case "global":
				e.Kind, e.Index = ExternGlobal, r.index(ref, r.globalIDs, "global")
			case "memory":
				e.Kind, e.Index = ExternMemory, r.index(ref, r.memIDs, "memory")
			case "table":
				e.Kind, e.Index = ExternTable, r.index(ref, r.tableIDs, "table")
			default:
				rfail(f.tok.pos, "bad export descriptor")
			}
			m.Exports[exportSlot[f]] = e
		case "start":
			if len(items) != 1 {
				rfail(f.tok.pos, "bad start")
			}
			if m.Start != nil {
				rfail(f.tok.pos, "multiple start fields")
			}
			v := r.index(items[0], r.funcIDs, "function")
			m.Start = &v
		case "elem":
			if len(items) > 0 && items[0].isID() {
				items = items[1:]
			}
			if len(items) == 0 || !items[0].isLst {
				rfail(f.tok.pos, "only active element segments with an offset are in the subset")
			}
			if items[0].head() == "table" {
				if r.index(items[0].list[1], r.tableIDs, "table") != 0 {
					rfail(f.tok.pos, "table index must be 0")
				}
				items = items[1:]
			}
			off := items[0]
			if off.head() == "offset" {
				if len(off.list) != 2 {
					rfail(off.tok.pos, "bad offset")
				}
				off = off.list[1]
			}
			oi := r.constExpr(off)
			if oi.Op != OpI32Const {
				rfail(off.tok.pos, "element offset must be i32.const in the subset")
			}
			e := Elem{Offset: uint32(oi.I)}
			items = items[1:]
			if len(items) > 0 && items[0].isAtom() && items[0].tok.text == "func" {
				items = items[1:]
			}
			for _, it := range items {
				e.Funcs = append(e.Funcs, r.index(it, r.funcIDs, "function"))
				e.ByName = append(e.ByName, it.isID())
			}
			m.Elems = append(m.Elems, e)
		case "data":
			d := Data{}
			if len(items) > 0 && items[0].isID() {
				d.Name = bind(r.dataIDs, items[0], len(m.Data), "data")
				items = items[1:]
			}
			if len(items) == 0 || !items[0].isLst {
				rfail(f.tok.pos, "only active data segments with an offset are in the subset")
			}
			if items[0].head() == "memory" {
				if r.index(items[0].list[1], r.memIDs, "memory") != 0 {
					rfail(f.tok.pos, "memory index must be 0")
				}
				items = items[1:]
			}
			off := items[0]
			if off.head() == "offset" {
				if len(off.list) != 2 {
					rfail(off.tok.pos, "bad offset")
				}
				off = off.list[1]
			}
			oi := r.constExpr(off)
			if oi.Op != OpI32Const {
				rfail(off.tok.pos, "data offset must be i32.const in the subset")
			}
			d.Offset = uint32(oi.I)
			for _, it := range items[1:] {
				if !it.isStr() {
					rfail(it.tok.pos, "string expected")
				}
				d.Bytes = append(d.Bytes, it.tok.text...)
			}
			m.Data = append(m.Data, d)
		}
	}
	return m
}

func readLimits(at *node, items []*node) Limits {
	if len(items) < 1 || len(items) > 2 {
		rfail(at.tok.pos, "limits expected")
	}
	var l Limits
	if !items[0].isAtom() {
		rfail(at.tok.pos, "limits expected")
	}
	l.Min = uint32(parseU(items[0].tok.pos, items[0].tok.text, 32))
	if len(items) == 2 {
		if !items[1].isAtom() {
			rfail(at.tok.pos, "limits expected")
		}
		l.HasMax, l.Max = true, uint32(parseU(items[1].tok.pos, items[1].tok.text, 32))
	}
	return l
}

func (r *reader) index(n *node, tbl map[string]uint32, what string) uint32 {
	if !n.isAtom() {
		rfail(n.tok.pos, "%s index expected", what)
	}
	if n.isID() {
		v, ok := tbl[idName(n)]
		if !ok {
			rfail(n.tok.pos, "unknown %s %s", what, n.tok.text)
		}
		return v
	}
	return uint32(parseU(n.tok.pos, n.tok.text, 32))
}

// constExpr reads a folded single-instruction constant expression such as
// (i32.const 5) or (global.get $g).
func (r *reader) constExpr(n *node) Instr {
	if !n.isLst || len(n.list) != 2 || !n.list[1].isAtom() {
		rfail(n.tok.pos, "constant expression (op literal) expected")
	}
	lit := n.list[1]
	switch n.head() {
	case "i32.const":
		return Instr{Op: OpI32Const, I: parseInt(lit.tok.pos, lit.tok.text, 32), Sp: Spelling{Lit: lit.tok.text}}
	case "i64.const":
		return Instr{Op: OpI64Const, I: parseInt(lit.tok.pos, lit.tok.text, 64), Sp: Spelling{Lit: lit.tok.text}}
	case "f32.const":
		return Instr{Op: OpF32Const, F: parseFloat(lit.tok.pos, lit.tok.text, 32), Sp: Spelling{Lit: lit.tok.text}}
	case "f64.const":
		return Instr{Op: OpF64Const, F: parseFloat(lit.tok.pos, lit.tok.text, 64), Sp: Spelling{Lit: lit.tok.text}}
	case "global.get":
		return Instr{Op: OpGlobalGet, X: r.index(lit, r.globalIDs, "global"), Sp: Spelling{ByName: lit.isID()}}
	}
	rfail(n.tok.pos, "unsupported constant expression %q", n.head())
	return Instr{}
}

// ---------------------------------------------------------------- function bodies

type bodyReader struct {
	r      *reader
	fn     *Func
	items  []*node
	i      int
	locals map[string]uint32
	labels []string // innermost last
}

func (b *bodyReader) peekAtom() (string, bool) {
	if b.i < len(b.items) && b.items[b.i].isAtom() {
		return b.items[b.i].tok.text, true
	}
	return "", false
}

func (b *bodyReader) label(n *node) uint32 {
	if n.isID() {
		name := idName(n)
		for d := 0; d < len(b.labels); d++ {
			if b.labels[len(b.labels)-1-d] == name {
				return uint32(d)
			}
		}
		rfail(n.tok.pos, "unknown label %s", n.tok.text)
	}
	return uint32(parseU(n.tok.pos, n.tok.text, 32))
}

// seq reads instructions until "end"/"else" (returned, consumed) or the end
// of the item list ("" returned).
func (b *bodyReader) seq() ([]Instr, string) {
	var out []Instr
	for b.i < len(b.items) {
		n := b.items[b.i]
		if n.isLst {
			rfail(n.tok.pos, "folded instructions are outside the subset")
		}
		if !n.isAtom() {
			rfail(n.tok.pos, "instruction expected")
		}
		name := n.tok.text
		b.i++
		if name == "end" || name == "else" {
			// optional label repetition
			if b.i < len(b.items) && b.items[b.i].isID() {
				if len(b.labels) == 0 || idName(b.items[b.i]) != b.labels[len(b.labels)-1] {
					rfail(n.tok.pos, "label mismatch after %s", name)
				}
				b.i++
			}
			return out, name
		}
		out = append(out, b.instr(n, name))
	}
	return out, ""
}

func (b *bodyReader) next(what string, at *node) *node {
	if b.i >= len(b.items) {
		rfail(at.tok.pos, "%s expected", what)
	}
	n := b.items[b.i]
	b.i++
	return n
}

func (b *bodyReader) instr(at *node, name string) Instr {
	if name == "select" {
		in := Instr{Op: OpSelect}
		if b.i < len(b.items) && b.items[b.i].head() == "result" {
			in.Op = OpSelectT
			for _, t := range b.items[b.i].list[1:] {
				in.SelT = append(in.SelT, valtypeOf(t))
			}
			b.i++
		}
		return in
	}
	op, ok := LookupOp(name)
	if !ok || op == OpSelectT {
		rfail(at.tok.pos, "unknown instruction %q", name)
	}
	info := op.Info()
	in := Instr{Op: op}
	switch info.Imm {
	case ImmBlock:
		if b.i < len(b.items) && b.items[b.i].isID() {
			in.Label = idName(b.items[b.i])
			b.i++
		}
		tu, end := parseTypeUse(b.items, b.i, false)
		b.i = end
		if tu.hasType || len(tu.ft.Params) > 0 {
			rfail(at.tok.pos, "block type uses / block parameters are outside the subset")
		}
		in.BT.Results = tu.ft.Results
		b.labels = append(b.labels, in.Label)
		body, stop := b.seq()
		in.Then = body
		if stop == "else" {
			if op != OpIf {
				rfail(at.tok.pos, "else without if")
			}
			in.HasElse = true
			in.Else, stop = b.seq()
		}
		if stop != "end" {
			rfail(at.tok.pos, "%s without end", name)
		}
		b.labels = b.labels[:len(b.labels)-1]
	case ImmLabel:
		in.X = b.label(b.next("label", at))
		in.Sp.ByName = b.items[b.i-1].isID()
	case ImmBrTable:
		for b.i < len(b.items) && b.items[b.i].isAtom() {
			t := b.items[b.i].tok.text
			if !(b.items[b.i].isID() || t[0] >= '0' && t[0] <= '9') {
				break
			}
			in.Targets = append(in.Targets, b.label(b.items[b.i]))
			in.Sp.TargetsByName = append(in.Sp.TargetsByName, b.items[b.i].isID())
			b.i++
		}
		if len(in.Targets) == 0 {
			rfail(at.tok.pos, "br_table needs at least a default label")
		}
	case ImmFunc:
		n := b.next("function index", at)
		in.X, in.Sp.ByName = b.r.index(n, b.r.funcIDs, "function"), n.isID()
	case ImmCallInd:
		in.Sp.OmitTable = true
		if b.i < len(b.items) && b.items[b.i].isAtom() {
			n := b.items[b.i]
			in.Y, in.Sp.OmitTable = b.r.index(n, b.r.tableIDs, "table"), false
			in.Sp.ByName = n.isID()
			b.i++
		}
		tu, end := parseTypeUse(b.items, b.i, false)
		b.i = end
		if !tu.hasType {
			rfail(at.tok.pos, "call_indirect without (type x) is outside the subset")
		}
		in.X, in.Sp.TypeByName = b.r.index(tu.typeRef, b.r.typeIDs, "type"), tu.typeRef.isID()
		if int(in.X) < len(b.r.m.Types) && tu.inline && !tu.ft.Equal(b.r.m.Types[in.X].Type) {
			rfail(at.tok.pos, "inline signature does not match (type %d)", in.X)
		}
	case ImmLocal:
		n := b.next("local index", at)
		in.X, in.Sp.ByName = b.r.index(n, b.locals, "local"), n.isID()
	case ImmGlobal:
		n := b.next("global index", at)
		in.X, in.Sp.ByName = b.r.index(n, b.r.globalIDs, "global"), n.isID()
	case ImmTable:
		if t, ok := b.peekAtom(); ok && (strings.HasPrefix(t, "$") || t[0] >= '0' && t[0] <= '9') {
			n := b.next("table index", at)
			in.X, in.Sp.ByName = b.r.index(n, b.r.tableIDs, "table"), n.isID()
		} else {
			in.Sp.OmitTable = true
		}
	case ImmMem:
		in.Align = natAlign(info.Width)
		if t, ok := b.peekAtom(); ok && strings.HasPrefix(t, "offset=") {
			in.Offset = parseU(b.items[b.i].tok.pos, t[7:], 64)
			in.Sp.OffsetHex = strings.HasPrefix(t[7:], "0x")
			b.i++
		}
		if t, ok := b.peekAtom(); ok && strings.HasPrefix(t, "align=") {
			a := parseU(b.items[b.i].tok.pos, t[6:], 32)
			if a == 0 || a&(a-1) != 0 {
				rfail(b.items[b.i].tok.pos, "alignment must be a power of two")
			}
			l := uint32(0)
			for a > 1 {
				a >>= 1
				l++
			}
			in.Align, in.Sp.AlignExplicit = l, true
			b.i++
		}
	case ImmMemIdx, ImmMemCopy:
		// optional explicit memory indices "0" are not in the subset
	case ImmMemInit:
		n := b.next("data index", at)
		in.X = b.r.index(n, b.r.dataIDs, "data")
	case ImmDataIdx:
		n := b.next("index", at)
		in.X = b.r.index(n, b.r.dataIDs, "data")
	case ImmI32:
		n := b.next("i32 literal", at)
		in.I, in.Sp.Lit = parseInt(n.tok.pos, n.tok.text, 32), n.tok.text
	case ImmI64:
		n := b.next("i64 literal", at)
		in.I, in.Sp.Lit = parseInt(n.tok.pos, n.tok.text, 64), n.tok.text
	case ImmF32:
		n := b.next("f32 literal", at)
		in.F, in.Sp.Lit = parseFloat(n.tok.pos, n.tok.text, 32), n.tok.text
	case ImmF64:
		n := b.next("f64 literal", at)
		in.F, in.Sp.Lit = parseFloat(n.tok.pos, n.tok.text, 64), n.tok.text
	case ImmNone:
	default:
		rfail(at.tok.pos, "instruction %q is outside the subset", name)
	}
	return in
}

func natAlign(width uint32) uint32 {
	switch width {
	case 1:
		return 0
	case 2:
		return 1
	case 4:
		return 2
	case 8:
		return 3
	}
	return 0
}
