package watgen

import "strings"

// ValType is a WebAssembly value type in its binary encoding.
type ValType byte

const (
	I32     ValType = 0x7f
	I64     ValType = 0x7e
	F32     ValType = 0x7d
	F64     ValType = 0x7c
	FuncRef ValType = 0x70 // only as table element type / table.get result
)

// NumTypes are the four number types in a fixed order (used for draws).
var NumTypes = []ValType{I32, I64, F32, F64}

func (t ValType) String() string {
	switch t {
	case I32:
		return "i32"
	case I64:
		return "i64"
	case F32:
		return "f32"
	case F64:
		return "f64"
	case FuncRef:
		return "funcref"
	}
	return "valtype(" + hex2(byte(t)) + ")"
}

func hex2(b byte) string {
	const d = "0123456789abcdef"
	return string([]byte{'0', 'x', d[b>>4], d[b&15]})
}

// IsFloat reports f32/f64.
func (t ValType) IsFloat() bool { return t == F32 || t == F64 }

// Op identifies an instruction: the opcode byte for single-byte opcodes,
// 0xFC00|sub for the 0xFC-prefixed ("misc") instructions.
type Op uint16

// Imm is the immediate layout of an instruction.
type Imm uint8

const (
	ImmNone      Imm = iota
	ImmBlock         // block type (block, loop, if)
	ImmLabel         // label depth (br, br_if)
	ImmBrTable       // vec(label) label
	ImmFunc          // function index (call)
	ImmCallInd       // type index, table index
	ImmLocal         // local index
	ImmGlobal        // global index
	ImmTable         // table index (table.get/set)
	ImmMem           // memarg (align, offset)
	ImmMemIdx        // single 0x00 memory index (memory.size/grow/fill)
	ImmMemCopy       // two 0x00 memory indices
	ImmMemInit       // data index, 0x00
	ImmDataIdx       // data index (data.drop)
	ImmI32           // s32
	ImmI64           // s64
	ImmF32           // 4 bytes
	ImmF64           // 8 bytes
	ImmSelectT       // vec(valtype)
	ImmRefNull       // reftype
	ImmTableInit     // elem index, table index
	ImmTableCopy     // table index, table index
)

// OpInfo describes one instruction.
type OpInfo struct {
	Op   Op
	Name string
	Imm  Imm
	// In/Out are the operand types for plain numeric / memory instructions
	// (nil for control, parametric and variable instructions).
	In, Out []ValType
	// Width is the natural access width in bytes of loads/stores (0 otherwise).
	Width uint32
}

// Control and frequently used opcodes.
const (
	OpUnreachable  Op = 0x00
	OpNop          Op = 0x01
	OpBlock        Op = 0x02
	OpLoop         Op = 0x03
	OpIf           Op = 0x04
	OpElse         Op = 0x05
	OpEnd          Op = 0x0b
	OpBr           Op = 0x0c
	OpBrIf         Op = 0x0d
	OpBrTable      Op = 0x0e
	OpReturn       Op = 0x0f
	OpCall         Op = 0x10
	OpCallIndirect Op = 0x11
	OpDrop         Op = 0x1a
	OpSelect       Op = 0x1b
	OpSelectT      Op = 0x1c
	OpLocalGet     Op = 0x20
	OpLocalSet     Op = 0x21
	OpLocalTee     Op = 0x22
	OpGlobalGet    Op = 0x23
	OpGlobalSet    Op = 0x24
	OpTableGet     Op = 0x25
	OpTableSet     Op = 0x26
	OpMemorySize   Op = 0x3f
	OpMemoryGrow   Op = 0x40
	OpI32Const     Op = 0x41
	OpI64Const     Op = 0x42
	OpF32Const     Op = 0x43
	OpF64Const     Op = 0x44
	OpRefNull      Op = 0xd0
	OpRefIsNull    Op = 0xd1
	OpRefFunc      Op = 0xd2
	OpMemoryInit   Op = 0xfc08
	OpDataDrop     Op = 0xfc09
	OpMemoryCopy   Op = 0xfc0a
	OpMemoryFill   Op = 0xfc0b
	OpTableInit    Op = 0xfc0c
	OpElemDrop     Op = 0xfc0d
	OpTableCopy    Op = 0xfc0e
	OpTableGrow    Op = 0xfc0f
	OpTableSize    Op = 0xfc10
	OpTableFill    Op = 0xfc11
)

var (
	opByCode = map[Op]*OpInfo{}
	opByName = map[string]*OpInfo{}
	// AllOps lists every known instruction in opcode order.
	AllOps []*OpInfo
)

// Info returns the description of op (nil if unknown).
func (op Op) Info() *OpInfo { return opByCode[op] }

func (op Op) String() string {
	if i := opByCode[op]; i != nil {
		return i.Name
	}
	return "op(" + hex2(byte(op>>8)) + hex2(byte(op)) + ")"
}

// OpNamed looks an instruction up by its text-format name (panics if unknown:
// callers use literal names).
func OpNamed(name string) Op {
	i := opByName[name]
	if i == nil {
		panic("watgen: unknown instruction " + name)
	}
	return i.Op
}

// LookupOp is OpNamed without the panic.
func LookupOp(name string) (Op, bool) {
	i := opByName[name]
	if i == nil {
		return 0, false
	}
	return i.Op, true
}

func def(op Op, name string, imm Imm, in, out []ValType) *OpInfo {
	i := &OpInfo{Op: op, Name: name, Imm: imm, In: in, Out: out}
	opByCode[op] = i
	opByName[name] = i
	AllOps = append(AllOps, i)
	return i
}

func ts(s string) []ValType {
	var out []ValType
	for _, f := range strings.Fields(s) {
		switch f {
		case "i32":
			out = append(out, I32)
		case "i64":
			out = append(out, I64)
		case "f32":
			out = append(out, F32)
		case "f64":
			out = append(out, F64)
		}
	}
	return out
}

func init() {
	def(OpUnreachable, "unreachable", ImmNone, nil, nil)
	def(OpNop, "nop", ImmNone, nil, nil)
	def(OpBlock, "block", ImmBlock, nil, nil)
	def(OpLoop, "loop", ImmBlock, nil, nil)
	def(OpIf, "if", ImmBlock, nil, nil)
	def(OpElse, "else", ImmNone, nil, nil)
	def(OpEnd, "end", ImmNone, nil, nil)
	def(OpBr, "br", ImmLabel, nil, nil)
	def(OpBrIf, "br_if", ImmLabel, nil, nil)
	def(OpBrTable, "br_table", ImmBrTable, nil, nil)
	def(OpReturn, "return", ImmNone, nil, nil)
	def(OpCall, "call", ImmFunc, nil, nil)
	def(OpCallIndirect, "call_indirect", ImmCallInd, nil, nil)
	def(OpDrop, "drop", ImmNone, nil, nil)
	def(OpSelect, "select", ImmNone, nil, nil)
	def(OpSelectT, "select_t", ImmSelectT, nil, nil) // printed as "select (result t)"
	def(OpLocalGet, "local.get", ImmLocal, nil, nil)
	def(OpLocalSet, "local.set", ImmLocal, nil, nil)
	def(OpLocalTee, "local.tee", ImmLocal, nil, nil)
	def(OpGlobalGet, "global.get", ImmGlobal, nil, nil)
	def(OpGlobalSet, "global.set", ImmGlobal, nil, nil)
	def(OpTableGet, "table.get", ImmTable, nil, nil)
	def(OpTableSet, "table.set", ImmTable, nil, nil)

	// loads 0x28.. and stores 0x36..
	type ld struct {
		name  string
		t     ValType
		width uint32
	}
	loads := []ld{{"i32.load", I32, 4}, {"i64.load", I64, 8}, {"f32.load", F32, 4}, {"f64.load", F64, 8},
		{"i32.load8_s", I32, 1}, {"i32.load8_u", I32, 1}, {"i32.load16_s", I32, 2}, {"i32.load16_u", I32, 2},
		{"i64.load8_s", I64, 1}, {"i64.load8_u", I64, 1}, {"i64.load16_s", I64, 2}, {"i64.load16_u", I64, 2},
		{"i64.load32_s", I64, 4}, {"i64.load32_u", I64, 4}}
	for k, l := range loads {
		def(Op(0x28+k), l.name, ImmMem, []ValType{I32}, []ValType{l.t}).Width = l.width
	}
	stores := []ld{{"i32.store", I32, 4}, {"i64.store", I64, 8}, {"f32.store", F32, 4}, {"f64.store", F64, 8},
		{"i32.store8", I32, 1}, {"i32.store16", I32, 2}, {"i64.store8", I64, 1}, {"i64.store16", I64, 2}, {"i64.store32", I64, 4}}
	for k, l := range stores {
		def(Op(0x36+k), l.name, ImmMem, []ValType{I32, l.t}, nil).Width = l.width
	}
	def(OpMemorySize, "memory.size", ImmMemIdx, nil, ts("i32"))
	def(OpMemoryGrow, "memory.grow", ImmMemIdx, ts("i32"), ts("i32"))
	def(OpI32Const, "i32.const", ImmI32, nil, ts("i32"))
	def(OpI64Const, "i64.const", ImmI64, nil, ts("i64"))
	def(OpF32Const, "f32.const", ImmF32, nil, ts("f32"))
	def(OpF64Const, "f64.const", ImmF64, nil, ts("f64"))

	code := Op(0x45)
	seq := func(prefix string, names string, in, out string) {
		for _, n := range strings.Fields(names) {
			def(code, prefix+"."+n, ImmNone, ts(in), ts(out))
			code++
		}
	}
	cmpI := "eq ne lt_s lt_u gt_s gt_u le_s le_u ge_s ge_u"
	cmpF := "eq ne lt gt le ge"
	seq("i32", "eqz", "i32", "i32")
	seq("i32", cmpI, "i32 i32", "i32")
	seq("i64", "eqz", "i64", "i32")
	seq("i64", cmpI, "i64 i64", "i32")
	seq("f32", cmpF, "f32 f32", "i32")
	seq("f64", cmpF, "f64 f64", "i32")
	unI := "clz ctz popcnt"
	binI := "add sub mul div_s div_u rem_s rem_u and or xor shl shr_s shr_u rotl rotr"
	unF := "abs neg ceil floor trunc nearest sqrt"
	binF := "add sub mul div min max copysign"
	seq("i32", unI, "i32", "i32")
	seq("i32", binI, "i32 i32", "i32")
	seq("i64", unI, "i64", "i64")
	seq("i64", binI, "i64 i64", "i64")
	seq("f32", unF, "f32", "f32")
	seq("f32", binF, "f32 f32", "f32")
	seq("f64", unF, "f64", "f64")
	seq("f64", binF, "f64 f64", "f64")
	conv := []struct{ name, in, out string }{
		{"i32.wrap_i64", "i64", "i32"},
		{"i32.trunc_f32_s", "f32", "i32"}, {"i32.trunc_f32_u", "f32", "i32"},
		{"i32.trunc_f64_s", "f64", "i32"}, {"i32.trunc_f64_u", "f64", "i32"},
		{"i64.extend_i32_s", "i32", "i64"}, {"i64.extend_i32_u", "i32", "i64"},
		{"i64.trunc_f32_s", "f32", "i64"}, {"i64.trunc_f32_u", "f32", "i64"},
		{"i64.trunc_f64_s", "f64", "i64"}, {"i64.trunc_f64_u", "f64", "i64"},
		{"f32.convert_i32_s", "i32", "f32"}, {"f32.convert_i32_u", "i32", "f32"},
		{"f32.convert_i64_s", "i64", "f32"}, {"f32.convert_i64_u", "i64", "f32"},
		{"f32.demote_f64", "f64", "f32"},
		{"f64.convert_i32_s", "i32", "f64"}, {"f64.convert_i32_u", "i32", "f64"},
		{"f64.convert_i64_s", "i64", "f64"}, {"f64.convert_i64_u", "i64", "f64"},
		{"f64.promote_f32", "f32", "f64"},
		{"i32.reinterpret_f32", "f32", "i32"}, {"i64.reinterpret_f64", "f64", "i64"},
		{"f32.reinterpret_i32", "i32", "f32"}, {"f64.reinterpret_i64", "i64", "f64"},
		// sign-extension operators (not in internal/wat/token; decoded only)
		{"i32.extend8_s", "i32", "i32"}, {"i32.extend16_s", "i32", "i32"},
		{"i64.extend8_s", "i64", "i64"}, {"i64.extend16_s", "i64", "i64"}, {"i64.extend32_s", "i64", "i64"},
	}
	for _, c := range conv {
		def(code, c.name, ImmNone, ts(c.in), ts(c.out))
		code++
	}
	if code != 0xc5 {
		panic("watgen: opcode table misnumbered")
	}
	def(OpRefNull, "ref.null", ImmRefNull, nil, nil)
	def(OpRefIsNull, "ref.is_null", ImmNone, nil, nil)
	def(OpRefFunc, "ref.func", ImmFunc, nil, nil)
	sat := []struct{ name, in, out string }{
		{"i32.trunc_sat_f32_s", "f32", "i32"}, {"i32.trunc_sat_f32_u", "f32", "i32"},
		{"i32.trunc_sat_f64_s", "f64", "i32"}, {"i32.trunc_sat_f64_u", "f64", "i32"},
		{"i64.trunc_sat_f32_s", "f32", "i64"}, {"i64.trunc_sat_f32_u", "f32", "i64"},
		{"i64.trunc_sat_f64_s", "f64", "i64"}, {"i64.trunc_sat_f64_u", "f64", "i64"},
	}
	for k, c := range sat {
		def(Op(0xfc00+k), c.name, ImmNone, ts(c.in), ts(c.out))
	}
	def(OpMemoryInit, "memory.init", ImmMemInit, ts("i32 i32 i32"), nil)
	def(OpDataDrop, "data.drop", ImmDataIdx, nil, nil)
	def(OpMemoryCopy, "memory.copy", ImmMemCopy, ts("i32 i32 i32"), nil)
	def(OpMemoryFill, "memory.fill", ImmMemIdx, ts("i32 i32 i32"), nil)
	def(OpTableInit, "table.init", ImmTableInit, nil, nil)
	def(OpElemDrop, "elem.drop", ImmDataIdx, nil, nil)
	def(OpTableCopy, "table.copy", ImmTableCopy, nil, nil)
	def(OpTableGrow, "table.grow", ImmTable, nil, nil)
	def(OpTableSize, "table.size", ImmTable, nil, nil)
	def(OpTableFill, "table.fill", ImmTable, nil, nil)
	buildOpClasses()
}

// WaSupports reports whether internal/wat/token has a token for the
// instruction (the set the Wa WAT parser accepts).  Everything else is known
// to the decoder only.
func WaSupports(op Op) bool {
	switch {
	case op == OpSelectT:
		return true // "select (result t)"
	case op >= 0xc0 && op <= 0xc4, op >= 0xd0 && op <= 0xd2:
		return false
	case op >= 0xfc00:
		return op == OpMemoryInit || op == OpMemoryCopy || op == OpMemoryFill
	}
	return opByCode[op] != nil
}
