package watgen

import (
	"fmt"
	"os"
	"sort"
	"strings"
	"testing"

	"pgregory.net/rapid"
	"wa-lang.org/wa/internal/wat/watutil"
)

// The generator's own validation: every module must (1) print to text the
// strict reader maps back to the same canonical model, (2) be accepted by V8
// and wazero when assembled by the reference encoder.  What Wa's assembler
// does with the text is only *reported* here (the verdicts belong to C04).
func TestGenSelf(t *testing.T) {
	node := NewNode()
	defer node.Close()
	feat := map[string]int{}
	waIssues := map[string]int{}
	n := 0
	exec := os.Getenv("WATGEN_EXEC") != ""
	rapid.Check(t, func(rt *rapid.T) {
		dis := map[string]bool{}
		for _, d := range strings.Split(os.Getenv("DISABLE"), ",") {
			dis[d] = true
		}
		c := Gen(rt, Options{Exec: exec, Trampolines: exec, Trap: "any", Disable: dis})
		n++
		for k, v := range c.Features {
			if v > 0 {
				feat[k]++
			}
		}
		want := c.M.Lower()
		back, err := ReadWAT([]byte(c.Text))
		if err != nil {
			rt.Fatalf("strict reader rejects generated text: %v\n%s", err, c.Text)
		}
		if d := Diff(want, back.Lower(), DiffOptions{Names: true, ExportOrder: false}); len(d) > 0 {
			rt.Fatalf("print/read round trip differs: %v\n%s", d, c.Text)
		}
		ref := want.Encode(EncodeOptions{Names: true})
		if _, err := Decode(ref); err != nil {
			rt.Fatalf("own decoder rejects own encoding: %v", err)
		}
		ok, msg, err := node.Validate(ref)
		if err != nil {
			t.Skipf("node unavailable: %v", err)
		}
		werr := WazeroCompile(ref)
		if !ok || werr != nil {
			rt.Fatalf("GENERATOR BUG: reference encoding rejected: v8=%v %s wazero=%v\n%s", ok, msg, werr, c.Text)
		}
		if exec {
			tr, err := RunWazero(ref, c.M, append(c.Script, GetterCalls(c.M)...))
			if err != nil {
				rt.Fatalf("RunWazero: %v\n%s", err, c.Text)
			}
			if tr.InstErr != "" {
				rt.Fatalf("GENERATOR BUG: instantiation trapped: %s\n%s", tr.InstErr, c.Text)
			}
			for i, call := range c.Script {
				got := tr.Calls[i]
				if got.Missing {
					rt.Fatalf("export %q missing", call.Export)
				}
				want := ExpectedTrapClass(call.ExpectTrap)
				if got.Trap != want {
					rt.Fatalf("GENERATOR BUG: call %d %s%v: trap %q, designated %q (%s)\n%s", i, call.Export, call.Args, got.Trap, want, call.ExpectTrap, c.Text)
				}
			}
		}
		// Wa's view (informational)
		func() {
			defer func() {
				if r := recover(); r != nil {
					waIssues[fmt.Sprintf("panic: %v", r)]++
				}
			}()
			wa, err := watutil.Wat2Wasm("g.wat", []byte(c.Text))
			if err != nil {
				e := err.Error()
				if i := strings.Index(e, ": "); i > 0 && strings.HasPrefix(e, "g.wat") {
					e = e[i+2:]
				}
				if len(e) > 60 {
					e = e[len(e)-60:]
				}
				waIssues["error: "+e]++
				return
			}
			wb, err := Decode(wa)
			if err != nil {
				waIssues["undecodable"]++
				return
			}
			for _, d := range Diff(want, wb, DiffOptions{Names: true}) {
				waIssues["diff: "+d.Section]++
			}
			for _, d := range CheckNameOrder(wb.Names) {
				waIssues["order: "+d.Section]++
			}
		}()
	})
	var ks []string
	for k := range feat {
		ks = append(ks, k)
	}
	sort.Strings(ks)
	for _, k := range ks {
		t.Logf("feature %-32s %5d / %d", k, feat[k], n)
	}
	ks = ks[:0]
	for k := range waIssues {
		ks = append(ks, k)
	}
	sort.Strings(ks)
	for _, k := range ks {
		t.Logf("wa: %5d  %s", waIssues[k], k)
	}
}
