// Package watgen generates WebAssembly text modules that are valid by
// construction and restricted to what the Wa WAT parser (internal/wat) accepts,
// together with a harness-side reference assembler (strict WAT reader + binary
// encoder) and a binary decoder written from the spec.  It is shared by the
// wasm-level checks (C04 C05 C06, and C03 C31 C02).
//
// # Generating
//
//	c := watgen.Gen(t, watgen.Options{Exec: true, ExportAll: true, Trap: "any"})   // t *rapid.T — all randomness is rapid draws
//	c.M        *Module         the model (index-resolved + identifiers + spelling choices)
//	c.Text     string          Print(c.M): flat, one instruction per line, what `wa` parses
//	c.Script   []Call          Exec only: 3..8 calls of exported functions, boundary-biased args
//	c.Trap     Trap            designated trapping function ("" kind = trap-free)
//	c.Features map[string]int  construct histogram (keys = Feat* constants) — feed to c.Class()
//	watgen.Generator(opt)      the same as a *rapid.Generator[*Case]
//
// Options.Disable[Feat…] switches a construct class off; use it for classes
// listed in known_findings.jsonl.  Classes the current tree is known to
// mishandle (see C04–C06 entries): FeatNumericIdent ($1 identifiers),
// FeatLimitsMaxZero, FeatMultiInlineExport, FeatEmptyExportName; for anything
// that goes through the printer (wa fmt, watstrip) also FeatHardExportName, and
// for watstrip FeatNumericFuncRef, FeatAnonFunc, FeatAnonInlineExport.
// Disable exactly the keys your property's known findings name.
//
// Other options: MaxFuncs/MaxBody (size), Trampolines, MemoryInit (opt-in:
// `memory.init` with length 0 — Wa's assembler currently rejects it),
// InlineFuncExportsOnly.
//
// Guarantees of every generated module (checked by selftest_test.go against V8
// and the vendored wazero, 0 rejections):
//
//   - valid; only instructions of internal/wat/token; only literal spellings
//     the Wa parser documents (no nan/inf tokens exist there — NaNs are made with
//     reinterpret, see below).
//   - terminates quickly: loops own a fuel local, calls only go to higher
//     function indices, and a static worst-case cost (loops multiplied out,
//     callees included) is kept below ~4000 abstract steps per call.
//   - trap-free unless Trap is requested: divisors are forced into
//     [1,0x7fff], trunc operands are exact floats of magnitude < 2^20,
//     addresses are (e & mask)+offset inside the first page, call_indirect uses
//     constant slots whose function type equals the explicit (type).  With
//     Trap "one"/"any" exactly one function (Trap.Func, exported as
//     Trap.Export, never called or put in the table) starts with an
//     unconditional trap of Trap.Kind; Script calls it exactly once and sets
//     Call.ExpectTrap.  Trampoline calls carry ExpectTrap too (slot map is
//     static).  ExpectedTrapClass/TrapClass map kinds to engine messages.
//   - NaN discipline: every float that is stored, reinterpreted to an integer,
//     returned from a function, written to a global or passed to an import
//     first goes through select(canonical_nan, x, x != x); copysign takes its
//     sign from a never-NaN operand.  Script arguments contain only the
//     canonical NaN.  Results are therefore bit-identical across engines.
//
// # Exec mode (Options.Exec)
//
// Imports are functions of module "host" (semantics: HostFuncResult — a fixed
// mixing function of field name and argument bits; bind it in any engine) and
// immutable globals of module "genv" (values: GenvValue; GenvModule(m) is a
// ready-made binary exporting them).  The memory is exported as "mem"; every
// global has an exported getter "get_g<i>" (GetterCalls(m) returns the calls);
// ExportAll exports every function as "f<index>"; Trampolines adds
// "tramp<typeidx>"(slot, args…) forwarding to call_indirect so table slots are
// callable.  RunWazero(wasm, model, script) runs a script on the vendored
// wazero (interpreter) and returns a Trace (results, trap classes, host-call
// trace, memory hash).
//
// # Reference assembler, decoder, comparison
//
//	m, err := watgen.ReadWAT(text)   strict reader for standard flat WAT → model
//	b := m.Lower()                   canonical section model (*Bin) WABT would produce
//	                                 (type-section order: explicit types, then first use)
//	bytes := b.Encode(opts)          reference binary encoder (byte-identical to WABT 1.0.29
//	                                 --no-debug-names output on all 30 stored testdata files)
//	b2, err := watgen.Decode(bytes)  strict structural decoder → *Bin
//	watgen.Diff(want, got, opts)     section-wise differences (exports compared as a set by
//	                                 default; empty else branches normalised)
//	watgen.DiffNames / CheckNameOrder   name-section maps and ordering rules
//
// # Engines
//
//	n := watgen.NewNode(); ok, msg, err := n.Validate(wasm)   persistent node (V8) child
//	err := watgen.WazeroCompile(wasm)                          vendored wazero CompileModule
//
// # Call graph
//
//	watgen.Reachable(m)   function indices reachable from exports, start and elem
package watgen
