package watgen

import (
	"os"
	"strings"
	"testing"

	"pgregory.net/rapid"
	"wa-lang.org/wa/internal/wat/watutil"
)

func TestProbe(t *testing.T) {
	want := os.Getenv("PROBE")
	dis := map[string]bool{}
	for _, d := range strings.Split(os.Getenv("DISABLE"), ",") {
		dis[d] = true
	}
	found := 0
	rapid.Check(t, func(rt *rapid.T) {
		c := Gen(rt, Options{Disable: dis, MaxFuncs: 3, MaxBody: 8})
		var msg string
		func() {
			defer func() {
				if r := recover(); r != nil {
					msg = "panic"
				}
			}()
			wa, err := watutil.Wat2Wasm("g.wat", []byte(c.Text))
			if err != nil {
				msg = err.Error()
				return
			}
			wb, err := Decode(wa)
			if err != nil {
				msg = "undecodable " + err.Error()
				return
			}
			for _, d := range Diff(c.M.Lower(), wb, DiffOptions{Names: os.Getenv("NAMES") != ""}) {
				msg += "DIFF " + d.String() + "\n"
			}
		}()
		if strings.Contains(msg, want) && found < 1 && len(c.Text) < 1500 {
			found++
			t.Logf("%s\n%s", msg, c.Text)
		}
	})
}
