package watgen

import "sort"

// Callees returns, per function index (imports included, with no callees), the
// set of functions it references directly: call targets anywhere in the body
// (nested blocks included).  call_indirect contributes nothing here — its
// possible targets are the table contents, which are roots of Reachable.
func Callees(m *Module) [][]uint32 {
	nimp := m.ImportedFuncs()
	out := make([][]uint32, m.NumFuncs())
	for i := range m.Funcs {
		seen := map[uint32]bool{}
		Walk(m.Funcs[i].Body, func(in *Instr) {
			if in.Op == OpCall || in.Op == OpRefFunc {
				seen[in.X] = true
			}
		})
		var l []uint32
		for k := range seen {
			l = append(l, k)
		}
		sort.Slice(l, func(a, b int) bool { return l[a] < l[b] })
		out[nimp+i] = l
	}
	return out
}

// Roots returns the function indices that are alive without any caller:
// exported functions, the start function and every function in an element
// segment, each with the reason(s).
func Roots(m *Module) map[uint32][]string {
	r := map[uint32][]string{}
	for _, e := range m.Exports {
		if e.Kind == ExternFunc {
			r[e.Index] = append(r[e.Index], "export")
		}
	}
	if m.Start != nil {
		r[*m.Start] = append(r[*m.Start], "start")
	}
	for _, e := range m.Elems {
		for _, f := range e.Funcs {
			r[f] = append(r[f], "elem")
		}
	}
	return r
}

// Reachable computes the set of function indices reachable from Roots through
// direct calls (the harness's own call graph; independent of watstrip).
func Reachable(m *Module) map[uint32]bool {
	callees := Callees(m)
	live := map[uint32]bool{}
	var stack []uint32
	for f := range Roots(m) {
		if !live[f] {
			live[f] = true
			stack = append(stack, f)
		}
	}
	for len(stack) > 0 {
		f := stack[len(stack)-1]
		stack = stack[:len(stack)-1]
		if int(f) >= len(callees) {
			continue
		}
		for _, c := range callees[f] {
			if !live[c] {
				live[c] = true
				stack = append(stack, c)
			}
		}
	}
	return live
}
