package watgen

import (
	"fmt"
	"sort"

	"pgregory.net/rapid"
)

// Options configure Gen.
type Options struct {
	// Exec makes the module runnable by a harness: imports are restricted to
	// functions of host module "host" (see HostFuncResult) and immutable
	// globals of module "genv" (see GenvModule), the memory (if any) is
	// exported as "mem", every global has an exported getter "get_g<i>", and a
	// call script over the exported functions is generated.
	Exec bool
	// ExportAll additionally exports every defined function as "f<index>".
	ExportAll bool
	// Trampolines adds, per explicit function type used by the table, an
	// exported function "tramp<k>" (param $slot i32, params…) that forwards to
	// call_indirect (type k) — every table slot becomes callable from outside.
	Trampolines bool
	// Trap: "none" (default; trap-free by construction), "one" (exactly one
	// designated trapping function of a drawn kind), "any" (drawn).
	Trap string
	// MaxFuncs bounds the number of defined functions (default 6), MaxBody the
	// approximate number of instructions per function (default 40).
	MaxFuncs int
	MaxBody  int
	// MemoryInit additionally generates `memory.init k` (length 0, so it never
	// traps on the dropped active segment).  Off by default: the current Wa
	// assembler rejects every module using it (C04 known finding).
	MemoryInit bool
	// InlineFuncExportsOnly prints every function export inline (no separate
	// (export "x" (func …)) fields); anonymous functions are then not exported.
	InlineFuncExportsOnly bool
	// Disable switches construct classes off (keys = Feature* constants).
	// Checks use it to exclude classes listed as known findings.
	Disable map[string]bool
}

// Feature names: keys of Options.Disable and of Case.Features.
const (
	FeatNop               = "nop"
	FeatSelectT           = "select_t"
	FeatAnonFunc          = "anon_func"
	FeatAnonInlineExport  = "anon_func_inline_export"
	FeatMultiInlineExport = "multi_inline_export"
	FeatTableSet          = "table.set"
	FeatTableGet          = "table.get"
	FeatNumericFuncRef    = "numeric_func_ref" // elem / export referring to a function by index
	FeatNumericIdent      = "numeric_ident"    // identifiers made of digits only ($1)
	FeatHardExportName    = "export_name_hard" // export names with space, quote, backslash, non-ASCII
	FeatEmptyExportName   = "export_name_empty"
	FeatDupExplicitType   = "dup_explicit_type"
	FeatF64Global         = "f64_global"
	FeatLimitsMaxZero     = "limits_max_zero" // (memory 0 0) / (table 0 0 funcref)
	FeatImportMemory      = "import_memory"
	FeatImportMemoryMax   = "import_memory_max"
	FeatImportGlobal      = "import_global"
	FeatImportFunc        = "import_func"
	FeatImportParamNames  = "import_param_names"
	FeatTypeParamNames    = "type_param_names"
	FeatStart             = "start"
	FeatStartNonFirst     = "start_non_first"
	FeatDataName          = "data_name"
	FeatBlockComment      = "block_comment"
	FeatMemoryInit        = "memory.init"
	FeatMemoryGrow        = "memory.grow"
	FeatBulkMemory        = "memory.copy/fill"
	FeatCallIndirect      = "call_indirect"
	FeatBrTable           = "br_table"
	FeatLoop              = "loop"
	FeatMultiValueBlock   = "multi_value_block"
	FeatMultiResultFunc   = "multi_result_func"
	FeatNestedLabels      = "nested_labelled_blocks"
	FeatBrByName          = "br_by_name"
	FeatBrFuncLevel       = "br_to_function_label"
	FeatDeadCode          = "dead_code_after_terminator"
	FeatNamedLocals       = "named_locals"
	FeatNamedParams       = "named_params"
	FeatAnonLocals        = "anon_locals"
	FeatLocalByIndex      = "named_local_by_index"
	FeatSeparateType      = "separate_type_decl"
	FeatSeparateExport    = "separate_export"
	FeatInlineExport      = "inline_export"
	FeatElem              = "elem"
	FeatData              = "data"
	FeatDataEscapes       = "data_escapes"
	FeatFloatHex          = "float_hex_literal"
	FeatFloatExp          = "float_exp_literal"
	FeatFloatInt          = "float_int_literal"
	FeatIntHex            = "int_hex_literal"
	FeatIntUnsigned       = "int_unsigned_literal"
	FeatMemargOffset      = "memarg_offset"
	FeatMemargAlign       = "memarg_align"
	FeatUnusedImport      = "unused_import"
	FeatDeadFunc          = "dead_func"
	FeatLiveViaStart      = "live_via_start_only"
	FeatLiveViaElem       = "live_via_elem_only"
	FeatLiveViaCall       = "live_via_call_only"
	FeatCallInNested      = "call_inside_nested_block"
	FeatGroupedParams     = "grouped_params"
	FeatSplitResults      = "split_results"
	FeatTypesAfterImports = "types_after_imports"
	FeatGlobalExportInl   = "global_inline_export"
	FeatMutGlobal         = "mut_global"
	FeatMemMax            = "memory_max"
	FeatTableMax          = "table_max"
	FeatTrap              = "trap"
)

// Trap describes the designated trapping site (Kind "" = none).
type Trap struct {
	Kind   string // div0 divOverflow truncRange truncNaN oobLoad oobStore unreachable indirectNull indirectSig indirectOOB
	Func   uint32 // function index of the trapping function
	Export string // export name to call it with
}

// TrapKinds lists the designated trap kinds.
var TrapKinds = []string{"div0", "divOverflow", "truncRange", "truncNaN", "oobLoad", "oobStore", "unreachable", "indirectNull", "indirectSig", "indirectOOB"}

// Case is one generated module with everything derived from it.
type Case struct {
	M        *Module
	Text     string         // Print(M)
	Script   []Call         // Exec only
	Trap     Trap           //
	Features map[string]int // construct histogram of this module
}

// Gen draws one module.  All randomness comes from t.
func Gen(t *rapid.T, opt Options) *Case {
	g := &gen{t: t, opt: opt, feat: map[string]int{}}
	if g.opt.MaxFuncs <= 0 {
		g.opt.MaxFuncs = 6
	}
	if g.opt.MaxBody <= 0 {
		g.opt.MaxBody = 40
	}
	g.module()
	c := &Case{M: g.m, Trap: g.trap, Features: g.feat}
	c.Text = Print(g.m)
	if opt.Exec {
		c.Script = g.script()
	}
	return c
}

// Generator returns Gen as a rapid generator.
func Generator(opt Options) *rapid.Generator[*Case] {
	return rapid.Custom(func(t *rapid.T) *Case { return Gen(t, opt) })
}

type gen struct {
	t    *rapid.T
	opt  Options
	m    *Module
	feat map[string]int
	trap Trap

	usedNames map[string]bool
	nImpF     int
	cost      []int  // static worst-case cost of defined function i
	callable  []bool // defined function i may be the target of call (named, not the trap function)
	trapFn    int    // defined-function position of the trapping function (-1 none)
	// table slots: function index per slot (-1 = null), and slots reserved as always-null
	slots    []int64
	tableTyp map[uint32]uint32 // function index -> explicit type index usable for call_indirect
	memPages uint32
	usesGrow bool
}

func (g *gen) on(f string) bool { return !g.opt.Disable[f] }
func (g *gen) hit(f string)     { g.feat[f]++ }

func (g *gen) intn(label string, lo, hi int) int {
	if hi <= lo {
		return lo
	}
	return rapid.IntRange(lo, hi).Draw(g.t, label)
}

var percent = func() []int {
	p := make([]int, 100)
	for i := range p {
		p[i] = i
	}
	return p
}()

// chance is true with probability pct/100 (SampledFrom draws uniformly, unlike
// IntRange which is biased towards small values; shrinking moves towards
// false).
func (g *gen) chance(label string, pct int) bool {
	return rapid.SampledFrom(percent).Draw(g.t, label) >= 100-pct
}

func (g *gen) pickType(label string) ValType {
	return NumTypes[g.intn(label, 0, 3)]
}

const idFirst = "abcdefghijklmnopqrstuvwxyzABCDEFGHIJKLMNOPQRSTUVWXYZ_$."
const idRest = "abcdefghijklmnopqrstuvwxyz0123456789_.$#"
const idOdd = "!%*+-/:<=>?@\\^~'|`"

// ident draws a fresh identifier (without the leading '$').
func (g *gen) ident(label, hint string) string {
	for try := 0; ; try++ {
		var s string
		switch k := g.intn(label+"/kind", 0, 9); {
		case k < 5: // readable: hint + number
			s = hint + fmt.Sprint(g.intn(label+"/n", 0, 99))
		case k < 8:
			n := g.intn(label+"/len", 1, 8)
			b := make([]byte, n)
			b[0] = idFirst[g.intn(label+"/c0", 0, len(idFirst)-1)]
			for i := 1; i < n; i++ {
				b[i] = idRest[g.intn(label+"/c", 0, len(idRest)-1)]
			}
			s = string(b)
		case k < 9: // compiler-like: $pkg.Type.method / $$x
			s = []string{"$", "runtime.", "$wa.", "main.", "T."}[g.intn(label+"/pre", 0, 4)] + hint + []string{"", ".0", "#1", ".$$onFree", ":x"}[g.intn(label+"/suf", 0, 4)]
		default: // odd id characters
			n := g.intn(label+"/len", 1, 5)
			b := []byte{idFirst[g.intn(label+"/c0", 0, len(idFirst)-1)]}
			for i := 0; i < n; i++ {
				b = append(b, idOdd[g.intn(label+"/o", 0, len(idOdd)-1)])
			}
			s = string(b)
		}
		if g.on(FeatNumericIdent) && g.chance(label+"/digits", 1) {
			s = fmt.Sprint(g.intn(label+"/dn", 0, 9))
			g.hit(FeatNumericIdent)
		}
		if try > 20 {
			s = fmt.Sprintf("%s_%d", hint, len(g.usedNames))
		}
		if !g.usedNames[s] {
			g.usedNames[s] = true
			return s
		}
	}
}

func (g *gen) exportName(label, hint string) string {
	for try := 0; ; try++ {
		s := hint
		if g.on(FeatHardExportName) && g.chance(label+"/hard", 4) {
			s = []string{"a b", "q\"uote", "back\\slash", "café", "tab\there", "x.y/z", "new\nline"}[g.intn(label+"/hk", 0, 6)]
			g.hit(FeatHardExportName)
		}
		if g.on(FeatEmptyExportName) && try == 0 && g.chance(label+"/empty", 1) {
			s = ""
			g.hit(FeatEmptyExportName)
		}
		if try > 0 {
			s = fmt.Sprintf("%s_%d", s, try)
		}
		if !g.usedNames["export:"+s] {
			g.usedNames["export:"+s] = true
			return s
		}
	}
}

func (g *gen) sig(label string, maxP, maxR int) FuncType {
	var ft FuncType
	for i, n := 0, g.intn(label+"/np", 0, maxP); i < n; i++ {
		ft.Params = append(ft.Params, g.pickType(label+"/p"))
	}
	nr := 0
	switch k := g.intn(label+"/nr", 0, 9); {
	case k < 3:
		nr = 0
	case k < 8:
		nr = 1
	default:
		nr = maxR
	}
	if nr > maxR {
		nr = maxR
	}
	for i := 0; i < nr; i++ {
		ft.Results = append(ft.Results, g.pickType(label+"/r"))
	}
	return ft
}

func (g *gen) module() {
	m := &Module{}
	g.m = m
	g.usedNames = map[string]bool{}
	g.trapFn = -1
	if g.chance("modname", 60) {
		m.Name = g.ident("modname", "mod")
		delete(g.usedNames, m.Name) // module ids live in their own space
	}
	if g.chance("hdrcomment", 30) {
		m.HeaderComment = "generated module\nsecond line"
	}
	if g.chance("indent", 25) {
		m.Indent = []string{"  ", "    ", " "}[g.intn("indentk", 0, 2)]
	}

	// ---- memory / table presence
	hasMem := g.chance("hasmem", 75)
	importMem := hasMem && !g.opt.Exec && g.on(FeatImportMemory) && g.chance("importmem", 10)
	hasTable := g.chance("hastable", 70)

	// ---- imports
	if g.on(FeatImportFunc) {
		for i, n := 0, g.intn("nimpf", 0, 3); i < n; i++ {
			im := Import{Module: "host", Field: fmt.Sprintf("h%d", i), Kind: ExternFunc}
			if !g.opt.Exec && g.chance("impmod", 30) {
				im.Module = []string{"env", "wasi_snapshot_preview1", "syscall_js", "a.b"}[g.intn("impmodk", 0, 3)]
			}
			if g.chance("impfnamed", 85) {
				im.Name = g.ident("impfname", "imp")
			}
			im.Type = g.sig("impsig", 3, 1)
			im.ParamNames = make([]string, len(im.Type.Params))
			if g.on(FeatImportParamNames) && g.chance("impparamnames", 30) {
				for k := range im.ParamNames {
					if g.chance("impparamnamed", 70) {
						im.ParamNames[k] = g.localIdent(im.ParamNames, "a")
					}
				}
				if len(im.Type.Params) > 0 {
					g.hit(FeatImportParamNames)
				}
			}
			m.Imports = append(m.Imports, im)
			g.hit(FeatImportFunc)
		}
	}
	if g.on(FeatImportGlobal) {
		for i, n := 0, g.intn("nimpg", 0, 2); i < n; i++ {
			im := Import{Module: "genv", Field: fmt.Sprintf("g%d", i), Kind: ExternGlobal, GlobalType: g.pickType("impgt")}
			im.Name = g.ident("impgname", "ig") // the Wa parser requires an identifier here
			m.Imports = append(m.Imports, im)
			g.hit(FeatImportGlobal)
		}
	}
	if importMem {
		im := Import{Module: "env", Field: "memory", Kind: ExternMemory, Lim: Limits{Min: uint32(g.intn("impmemmin", 1, 2))}}
		if g.chance("impmemnamed", 50) {
			im.Name = g.ident("impmemname", "mem")
		}
		if g.on(FeatImportMemoryMax) && g.chance("impmemmax", 40) {
			im.Lim.HasMax, im.Lim.Max = true, im.Lim.Min+uint32(g.intn("impmemmaxd", 0, 2))
			g.hit(FeatImportMemoryMax)
		}
		g.memPages = im.Lim.Min
		m.Imports = append(m.Imports, im)
		g.hit(FeatImportMemory)
	}
	g.nImpF = m.ImportedFuncs()

	// ---- memory
	if hasMem && !importMem {
		mem := &Memory{Lim: Limits{Min: uint32(g.intn("memmin", 1, 2))}}
		if g.chance("memnamed", 60) {
			mem.Name = g.ident("memname", "memory")
		}
		if g.chance("memmax", 50) {
			mem.Lim.HasMax, mem.Lim.Max = true, mem.Lim.Min+uint32(g.intn("memmaxd", 0, 3))
			g.hit(FeatMemMax)
		}
		g.memPages = mem.Lim.Min
		m.Memory = mem
	} else if !hasMem && g.on(FeatLimitsMaxZero) && g.chance("mem00", 3) {
		m.Memory = &Memory{Lim: Limits{Min: 0, HasMax: true, Max: 0}}
		g.hit(FeatLimitsMaxZero)
	}

	// ---- function signatures and identifiers
	nf := g.intn("nfuncs", 1, g.opt.MaxFuncs)
	m.Funcs = make([]Func, nf)
	for i := range m.Funcs {
		f := &m.Funcs[i]
		f.Type = g.sig("fsig", 3, 2)
		if len(f.Type.Results) > 1 {
			g.hit(FeatMultiResultFunc)
		}
		named := true
		if g.on(FeatAnonFunc) && g.chance("fanon", 12) {
			named = false
			g.hit(FeatAnonFunc)
		}
		if named {
			f.Name = g.ident("fname", "f")
		}
	}
	// start function: ()->(), named
	startPos := -1
	if g.on(FeatStart) && g.chance("hasstart", 45) {
		var cands []int
		for i := range m.Funcs {
			if m.Funcs[i].Name != "" && len(m.Funcs[i].Type.Params) == 0 && len(m.Funcs[i].Type.Results) == 0 {
				cands = append(cands, i)
			}
		}
		if len(cands) == 0 || g.chance("startfresh", 50) {
			// make one: prefer a non-first position
			pos := g.intn("startpos", 0, nf-1)
			if nf > 1 && pos == 0 && g.chance("startnonfirst", 80) {
				pos = g.intn("startpos2", 1, nf-1)
			}
			f := &m.Funcs[pos]
			f.Type = FuncType{}
			if f.Name == "" {
				f.Name = g.ident("fname", "start")
			}
			startPos = pos
		} else {
			startPos = cands[g.intn("startpick", 0, len(cands)-1)]
		}
		v := uint32(g.nImpF + startPos)
		m.Start = &v
		g.hit(FeatStart)
		if startPos > 0 || g.nImpF > 0 {
			g.hit(FeatStartNonFirst)
		}
	}
	// trap function
	trapMode := g.opt.Trap
	if trapMode == "any" {
		trapMode = []string{"none", "one"}[g.intn("trapmode", 0, 1)]
	}
	if trapMode == "one" {
		var cands []int
		for i := range m.Funcs {
			if i != startPos {
				cands = append(cands, i)
			}
		}
		if len(cands) > 0 {
			g.trapFn = cands[g.intn("trapfn", 0, len(cands)-1)]
		}
	}

	// ---- explicit types: some equal to function signatures (so that implicit
	// uses bind to them and call_indirect can name them), some unrelated
	nt := g.intn("ntypes", 0, 3)
	if hasTable && nt == 0 && g.chance("forcetype", 80) {
		nt = 1
	}
	for i := 0; i < nt; i++ {
		td := TypeDef{}
		if g.chance("typefromfunc", 75) {
			k := g.intn("typefn", 0, g.nImpF+nf-1)
			td.Type = cloneFT(m.FuncTypeOf(uint32(k)))
		} else {
			td.Type = g.sig("typesig", 3, 2)
		}
		dup := false
		for _, o := range m.Types {
			if o.Type.Equal(td.Type) {
				dup = true
			}
		}
		if dup {
			if !g.on(FeatDupExplicitType) || !g.chance("dupok", 30) {
				continue
			}
			g.hit(FeatDupExplicitType)
		}
		if g.chance("typenamed", 70) {
			td.Name = g.ident("typename", "t")
		}
		td.ParamNames = make([]string, len(td.Type.Params))
		if g.on(FeatTypeParamNames) && len(td.Type.Params) > 0 && g.chance("typeparamnames", 25) {
			for k := range td.ParamNames {
				td.ParamNames[k] = g.localIdent(td.ParamNames, "p")
			}
			g.hit(FeatTypeParamNames)
		}
		m.Types = append(m.Types, td)
		g.hit(FeatSeparateType)
	}

	// ---- table and element segments
	g.tableTyp = map[uint32]uint32{}
	if hasTable {
		size := g.intn("tablesize", 2, 6)
		tb := &Table{Lim: Limits{Min: uint32(size)}}
		if g.chance("tablenamed", 50) {
			tb.Name = g.ident("tablename", "table")
		}
		if g.chance("tablemax", 40) {
			tb.Lim.HasMax, tb.Lim.Max = true, uint32(size+g.intn("tablemaxd", 0, 2))
			g.hit(FeatTableMax)
		}
		m.Table = tb
		g.slots = make([]int64, size)
		for i := range g.slots {
			g.slots[i] = -1
		}
		// last slot stays null forever (designated indirectNull site); others may be filled
		nseg := g.intn("nelem", 0, 2)
		if nseg == 0 && g.chance("elemforce", 70) {
			nseg = 1
		}
		for s := 0; s < nseg; s++ {
			off := g.intn("elemoff", 0, size-2)
			n := g.intn("elemlen", 1, size-1-off)
			e := Elem{Offset: uint32(off)}
			for k := 0; k < n; k++ {
				fi := uint32(g.intn("elemfn", 0, g.nImpF+nf-1))
				if g.trapFn >= 0 && int(fi) == g.nImpF+g.trapFn {
					fi = uint32(g.nImpF + (g.trapFn+1)%nf) // never reachable except through its export
					if int(fi) == g.nImpF+g.trapFn {
						continue
					}
				}
				byName := m.FuncName(fi) != ""
				if byName && g.on(FeatNumericFuncRef) && g.chance("elemnumeric", 15) {
					byName = false
				}
				if m.FuncName(fi) == "" {
					if !g.on(FeatNumericFuncRef) {
						continue
					}
				}
				if !byName {
					g.hit(FeatNumericFuncRef)
				}
				e.Funcs = append(e.Funcs, fi)
				e.ByName = append(e.ByName, byName)
				hasT := false
				for _, td := range m.Types {
					if td.Type.Equal(m.FuncTypeOf(fi)) {
						hasT = true
					}
				}
				if !hasT && len(m.Types) < 5 && g.chance("elemtype", 85) {
					td := TypeDef{Type: cloneFT(m.FuncTypeOf(fi))}
					if g.chance("typenamed", 70) {
						td.Name = g.ident("typename", "t")
					}
					td.ParamNames = make([]string, len(td.Type.Params))
					m.Types = append(m.Types, td)
					g.hit(FeatSeparateType)
				}
			}
			if len(e.Funcs) == 0 {
				continue
			}
			for k, fi := range e.Funcs {
				g.slots[off+k] = int64(fi) // later segments overwrite earlier ones
			}
			m.Elems = append(m.Elems, e)
			g.hit(FeatElem)
		}
		for _, fi := range g.slots {
			if fi < 0 {
				continue
			}
			ft := m.FuncTypeOf(uint32(fi))
			for ti, td := range m.Types {
				if td.Type.Equal(ft) {
					g.tableTyp[uint32(fi)] = uint32(ti)
					break
				}
			}
		}
	} else if g.on(FeatLimitsMaxZero) && g.chance("table00", 3) {
		m.Table = &Table{Lim: Limits{Min: 0, HasMax: true, Max: 0}}
		g.hit(FeatLimitsMaxZero)
	}

	// ---- globals
	for i, n := 0, g.intn("nglobals", 0, 4); i < n; i++ {
		gl := Global{Type: g.pickType("gtype")}
		if gl.Type == F64 && !g.on(FeatF64Global) {
			gl.Type = F32
		}
		if gl.Type == F64 {
			g.hit(FeatF64Global)
		}
		if g.chance("gnamed", 80) {
			gl.Name = g.ident("gname", "g")
		}
		gl.Mut = g.chance("gmut", 60)
		if gl.Mut {
			g.hit(FeatMutGlobal)
		}
		gl.Init = g.constInstr(gl.Type, "ginit")
		m.Globals = append(m.Globals, gl)
	}

	// ---- data segments
	if m.Memory != nil && g.memPages > 0 || importMem {
		for i, n := 0, g.intn("ndata", 0, 3); i < n; i++ {
			d := Data{Offset: uint32(g.intn("dataoff", 0, 4000))}
			if g.chance("dataoffbig", 15) {
				d.Offset = uint32(g.intn("dataoff2", 0, int(g.memPages)*65536-64))
			}
			nb := g.intn("datalen", 0, 24)
			for k := 0; k < nb; k++ {
				switch g.intn("databytek", 0, 3) {
				case 0:
					d.Bytes = append(d.Bytes, byte(g.intn("databyte", 0, 255)))
				case 1:
					d.Bytes = append(d.Bytes, "\n\t\r\\\"'\x00\x7f"[g.intn("dataesc", 0, 7)])
				default:
					d.Bytes = append(d.Bytes, byte(g.intn("dataascii", 0x20, 0x7e)))
				}
			}
			d.HexAll = g.chance("datahex", 25)
			if !d.HexAll {
				for _, c := range d.Bytes {
					if c < 0x20 || c >= 0x7f || c == '"' || c == '\\' {
						g.hit(FeatDataEscapes)
						break
					}
				}
			}
			if g.on(FeatDataName) && g.chance("dataname", 15) {
				d.Name = g.ident("dataname", "d")
				g.hit(FeatDataName)
			}
			m.Data = append(m.Data, d)
			g.hit(FeatData)
		}
	}

	// ---- function bodies, last to first (calls go to higher indices only)
	g.cost = make([]int, nf)
	g.callable = make([]bool, nf)
	for i := range m.Funcs {
		g.callable[i] = m.Funcs[i].Name != "" && i != g.trapFn && i != startPos
	}
	for i := nf - 1; i >= 0; i-- {
		g.body(i, i == startPos)
	}

	// ---- exec-mode helpers: getters, trampolines
	if g.opt.Exec {
		for gi := 0; gi < m.NumGlobals(); gi++ {
			t, _ := m.GlobalTypeOf(uint32(gi))
			f := Func{Name: g.ident("getter", fmt.Sprintf("get_g%d_", gi)), Type: FuncType{Results: []ValType{t}}}
			f.Body = []Instr{{Op: OpGlobalGet, X: uint32(gi), Sp: Spelling{ByName: g.chance("getterbyname", 50)}}}
			if t.IsFloat() {
				f.Body = g.canonNaN(&f, f.Body, t)
			}
			m.Funcs = append(m.Funcs, f)
			m.Exports = append(m.Exports, Export{Name: fmt.Sprintf("get_g%d", gi), Kind: ExternFunc, Index: uint32(m.NumFuncs() - 1), Inline: g.chance("getterinline", 50) || g.opt.InlineFuncExportsOnly, ByName: true})
			g.usedNames[fmt.Sprintf("export:get_g%d", gi)] = true
		}
	}
	if g.opt.Trampolines && m.Table != nil {
		seen := map[uint32]bool{}
		var tis []uint32
		for _, ti := range g.tableTyp {
			if !seen[ti] {
				seen[ti] = true
				tis = append(tis, ti)
			}
		}
		sort.Slice(tis, func(i, j int) bool { return tis[i] < tis[j] })
		for _, ti := range tis {
			ft := m.Types[ti].Type
			f := Func{Name: g.ident("tramp", fmt.Sprintf("tramp%d_", ti))}
			f.Type = FuncType{Params: append([]ValType{I32}, ft.Params...), Results: append([]ValType{}, ft.Results...)}
			f.ParamNames = make([]string, len(f.Type.Params))
			f.ParamNames[0] = "slot"
			for k := range ft.Params {
				f.Body = append(f.Body, Instr{Op: OpLocalGet, X: uint32(k + 1)})
			}
			f.Body = append(f.Body, Instr{Op: OpLocalGet, X: 0, Sp: Spelling{ByName: true}})
			f.Body = append(f.Body, Instr{Op: OpCallIndirect, X: ti, Sp: Spelling{OmitTable: g.chance("trampomit", 50), TypeByName: true, ByName: true}})
			// float results cross the boundary: canonicalise NaNs
			if len(ft.Results) == 1 && ft.Results[0].IsFloat() {
				f.Body = g.canonNaN(&f, f.Body, ft.Results[0])
			}
			m.Funcs = append(m.Funcs, f)
			m.Exports = append(m.Exports, Export{Name: fmt.Sprintf("tramp%d", ti), Kind: ExternFunc, Index: uint32(m.NumFuncs() - 1), Inline: g.chance("trampinline", 50) || g.opt.InlineFuncExportsOnly, ByName: true})
			g.usedNames[fmt.Sprintf("export:tramp%d", ti)] = true
			g.hit(FeatCallIndirect)
		}
	}

	// ---- exports
	g.exports(nf, startPos)

	// ---- layout
	g.layout()
	for i := range m.Funcs {
		f := &m.Funcs[i]
		if g.chance("fcomment", 20) {
			f.Comment = "func " + fmt.Sprint(i)
			if g.on(FeatBlockComment) && g.chance("blockcomment", 30) {
				f.Comment = "(; block comment ;)"
				g.hit(FeatBlockComment)
			}
		}
	}
}

func (g *gen) localIdent(existing []string, hint string) string {
	for try := 0; ; try++ {
		s := fmt.Sprintf("%s%d", hint, g.intn("localid", 0, 30))
		if g.chance("localidodd", 20) {
			s = []string{"$t0", "$block_selector", "x.y", "ptr", "$$ptr", "i", "len#1"}[g.intn("localidk", 0, 6)]
		}
		if try > 10 {
			s = fmt.Sprintf("%s_%d", hint, try)
		}
		ok := true
		for _, e := range existing {
			if e == s {
				ok = false
			}
		}
		if ok {
			return s
		}
	}
}

func (g *gen) exports(nf, startPos int) {
	m := g.m
	addFuncExport := func(idx uint32, name string) {
		e := Export{Name: name, Kind: ExternFunc, Index: idx}
		fname := m.FuncName(idx)
		e.Inline = g.chance("exinline", 50) || g.opt.InlineFuncExportsOnly
		if e.Inline && fname == "" && !g.on(FeatAnonInlineExport) {
			e.Inline = false
		}
		if !e.Inline && g.opt.InlineFuncExportsOnly {
			return
		}
		if !e.Inline {
			e.ByName = fname != ""
			if fname == "" || (g.on(FeatNumericFuncRef) && g.chance("exnumeric", 15)) {
				if !g.on(FeatNumericFuncRef) {
					return // cannot be referenced at all
				}
				e.ByName = false
				g.hit(FeatNumericFuncRef)
			}
			g.hit(FeatSeparateExport)
		} else {
			g.hit(FeatInlineExport)
			if fname == "" {
				g.hit(FeatAnonInlineExport)
			}
		}
		m.Exports = append(m.Exports, e)
	}
	for i := 0; i < nf; i++ {
		idx := uint32(g.nImpF + i)
		want := g.opt.ExportAll || i == g.trapFn || g.chance("exportfn", 45)
		if i == startPos && !g.opt.ExportAll {
			want = false // the start function's effects must be observed through getters only
		}
		if !want {
			continue
		}
		name := fmt.Sprintf("f%d", idx)
		if !g.opt.ExportAll && !g.opt.Exec {
			name = g.exportName("exname", name)
		} else {
			g.usedNames["export:"+name] = true
		}
		addFuncExport(idx, name)
		if i == g.trapFn {
			g.trap.Func, g.trap.Export = idx, name
		}
		if g.on(FeatMultiInlineExport) && m.Exports[len(m.Exports)-1].Inline && g.chance("exinline2", 5) {
			m.Exports = append(m.Exports, Export{Name: g.exportName("exname2", name+"_alias"), Kind: ExternFunc, Index: idx, Inline: true})
			g.hit(FeatMultiInlineExport)
		}
	}
	// an imported function may be re-exported too
	if g.nImpF > 0 && !g.opt.Exec && !g.opt.InlineFuncExportsOnly && g.chance("eximport", 15) { // (the vendored wazero cannot call a re-exported host function)
		idx := uint32(g.intn("eximportk", 0, g.nImpF-1))
		if m.FuncName(idx) != "" || g.on(FeatNumericFuncRef) {
			e := Export{Name: g.exportName("exname", fmt.Sprintf("imp%d", idx)), Kind: ExternFunc, Index: idx, ByName: m.FuncName(idx) != ""}
			if !e.ByName {
				g.hit(FeatNumericFuncRef)
			}
			m.Exports = append(m.Exports, e)
			g.hit(FeatSeparateExport)
		}
	}
	for i := range m.Globals {
		if !g.chance("exportglobal", 30) {
			continue
		}
		idx := uint32(m.ImportedGlobals() + i)
		e := Export{Name: g.exportName("gexname", fmt.Sprintf("g%d", idx)), Kind: ExternGlobal, Index: idx}
		e.Inline = g.chance("gexinline", 50)
		if e.Inline && m.Globals[i].Name == "" {
			if g.on(FeatAnonInlineExport) {
				g.hit(FeatAnonInlineExport)
			} else {
				e.Inline = false
			}
		}
		if e.Inline {
			m.Globals[i].Export = e.Name
			g.hit(FeatGlobalExportInl)
		} else {
			e.ByName = m.Globals[i].Name != "" && g.chance("gexbyname", 70)
		}
		m.Exports = append(m.Exports, e)
	}
	if m.HasMemory() && (g.opt.Exec || g.chance("exportmem", 50)) {
		name := "mem"
		if !g.opt.Exec {
			name = g.exportName("memexname", "memory")
		}
		m.Exports = append(m.Exports, Export{Name: name, Kind: ExternMemory, Index: 0, ByName: g.chance("memexbyname", 50)})
	}
	if m.Table != nil && g.chance("exporttable", 30) {
		m.Exports = append(m.Exports, Export{Name: g.exportName("tabexname", "table"), Kind: ExternTable, Index: 0, ByName: g.chance("tabexbyname", 50)})
	}
	// shuffle-ish: rotate the export list so separate exports are not always in definition order
	if n := len(m.Exports); n > 1 && g.chance("exrotate", 40) {
		k := g.intn("exrot", 1, n-1)
		m.Exports = append(append([]Export{}, m.Exports[k:]...), m.Exports[:k]...)
	}
}

func (g *gen) layout() {
	// imports must precede every definition (WABT rejects anything else); the
	// (type) fields may go anywhere; the rest in a drawn order.
	rest := []string{"memory", "table", "globals", "funcs", "exports", "start", "elems", "data"}
	for i := len(rest) - 1; i > 0; i-- {
		if g.chance("layoutswap", 35) {
			j := g.intn("layoutj", 0, i)
			rest[i], rest[j] = rest[j], rest[i]
		}
	}
	typesPos := g.intn("typespos", 0, 3)
	var out []string
	switch {
	case typesPos <= 1:
		out = append([]string{"types", "imports"}, rest...)
	case typesPos == 2:
		out = append([]string{"imports", "types"}, rest...)
		if len(g.m.Types) > 0 && len(g.m.Imports) > 0 {
			g.hit(FeatTypesAfterImports)
		}
	default:
		k := g.intn("typesidx", 0, len(rest))
		out = append([]string{"imports"}, rest[:k]...)
		out = append(out, "types")
		out = append(out, rest[k:]...)
		if len(g.m.Types) > 0 {
			g.hit(FeatTypesAfterImports)
		}
	}
	g.m.Layout = out
}
