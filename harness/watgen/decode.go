package watgen

import (
	"encoding/binary"
	"fmt"
	"unicode/utf8"
)

// Decode parses a binary module into the canonical section model.  It is a
// strict structural decoder (magic, section order, every size must match,
// every LEB128 must be well formed per the spec, names must be UTF-8); it does
// not type-check — validation is delegated to V8 and wazero.
func Decode(data []byte) (*Bin, error) {
	d := &rdr{p: data}
	m := &Bin{}
	err := d.module(m)
	if err != nil {
		return nil, err
	}
	return m, nil
}

type rdr struct {
	p   []byte
	pos int
}

type decErr struct{ msg string }

func (e *decErr) Error() string { return e.msg }

func (r *rdr) fail(format string, a ...interface{}) {
	panic(&decErr{fmt.Sprintf("wasm decode @%d: ", r.pos) + fmt.Sprintf(format, a...)})
}

func (r *rdr) eof() bool { return r.pos >= len(r.p) }

func (r *rdr) byte() byte {
	if r.pos >= len(r.p) {
		r.fail("unexpected end")
	}
	b := r.p[r.pos]
	r.pos++
	return b
}

func (r *rdr) take(n int) []byte {
	if n < 0 || r.pos+n > len(r.p) {
		r.fail("need %d bytes, have %d", n, len(r.p)-r.pos)
	}
	b := r.p[r.pos : r.pos+n]
	r.pos += n
	return b
}

func (r *rdr) u32() uint32 {
	v, n, ok := DecodeU(32, r.p[r.pos:])
	if !ok {
		r.fail("malformed u32")
	}
	r.pos += n
	return uint32(v)
}

func (r *rdr) u64() uint64 {
	v, n, ok := DecodeU(64, r.p[r.pos:])
	if !ok {
		r.fail("malformed u64")
	}
	r.pos += n
	return v
}

func (r *rdr) sN(bits uint) int64 {
	v, n, ok := DecodeS(bits, r.p[r.pos:])
	if !ok {
		r.fail("malformed s%d", bits)
	}
	r.pos += n
	return v
}

func (r *rdr) name() string {
	n := r.u32()
	b := r.take(int(n))
	if !utf8.Valid(b) {
		r.fail("name is not UTF-8")
	}
	return string(b)
}

func (r *rdr) valtype() ValType {
	b := r.byte()
	switch ValType(b) {
	case I32, I64, F32, F64, FuncRef, 0x6f, 0x7b:
		return ValType(b)
	}
	r.fail("bad value type %#x", b)
	return 0
}

func (r *rdr) limits() (Limits, bool) {
	flag := r.byte()
	if flag&^5 != 0 {
		r.fail("bad limits flag %#x", flag)
	}
	l := Limits{Min: r.u32()}
	if flag&1 != 0 {
		l.HasMax = true
		l.Max = r.u32()
	}
	return l, flag&4 != 0
}

func (r *rdr) sub(n int) *rdr {
	b := r.take(n)
	return &rdr{p: b}
}

func (r *rdr) module(m *Bin) (err error) {
	defer func() {
		if x := recover(); x != nil {
			if de, ok := x.(*decErr); ok {
				err = de
				return
			}
			panic(x)
		}
	}()
	if string(r.take(4)) != "\x00asm" {
		r.fail("bad magic")
	}
	if v := binary.LittleEndian.Uint32(r.take(4)); v != 1 {
		r.fail("bad version %d", v)
	}
	// order of non-custom sections: 1 2 3 4 5 6 7 8 9 12 10 11
	rank := map[byte]int{1: 1, 2: 2, 3: 3, 4: 4, 5: 5, 6: 6, 7: 7, 8: 8, 9: 9, 12: 10, 10: 11, 11: 12}
	last := 0
	for !r.eof() {
		id := r.byte()
		size := r.u32()
		s := r.sub(int(size))
		s.pos = 0
		if id != secCustom {
			rk, ok := rank[id]
			if !ok {
				r.fail("unknown section id %d", id)
			}
			if rk <= last {
				r.fail("section %d out of order or duplicated", id)
			}
			last = rk
		}
		switch id {
		case secCustom:
			name := s.name()
			if name == "name" {
				if m.Names != nil {
					r.fail("duplicate name section")
				}
				m.Names = s.names()
			} else {
				m.Customs = append(m.Customs, BinCustom{name, append([]byte{}, s.p[s.pos:]...)})
				s.pos = len(s.p)
			}
		case secType:
			n := s.u32()
			for i := uint32(0); i < n; i++ {
				if b := s.byte(); b != 0x60 {
					s.fail("type form %#x", b)
				}
				var ft FuncType
				for k, c := uint32(0), s.u32(); k < c; k++ {
					ft.Params = append(ft.Params, s.valtype())
				}
				for k, c := uint32(0), s.u32(); k < c; k++ {
					ft.Results = append(ft.Results, s.valtype())
				}
				m.Types = append(m.Types, ft)
			}
		case secImport:
			n := s.u32()
			for i := uint32(0); i < n; i++ {
				im := BinImport{Module: s.name(), Field: s.name(), Kind: s.byte()}
				switch im.Kind {
				case ExternFunc:
					im.TypeIdx = s.u32()
				case ExternTable:
					im.Table.Elem = s.valtype()
					im.Table.Lim, _ = s.limits()
				case ExternMemory:
					im.Mem.Lim, im.Mem.Is64 = s.limits()
				case ExternGlobal:
					im.GlobalType = s.valtype()
					im.GlobalMut = s.mut()
				default:
					s.fail("import kind %d", im.Kind)
				}
				m.Imports = append(m.Imports, im)
			}
		case secFunction:
			for i, n := uint32(0), s.u32(); i < n; i++ {
				m.Funcs = append(m.Funcs, s.u32())
			}
		case secTable:
			for i, n := uint32(0), s.u32(); i < n; i++ {
				t := BinTable{Elem: s.valtype()}
				t.Lim, _ = s.limits()
				m.Tables = append(m.Tables, t)
			}
		case secMemory:
			for i, n := uint32(0), s.u32(); i < n; i++ {
				var t BinMem
				t.Lim, t.Is64 = s.limits()
				m.Mems = append(m.Mems, t)
			}
		case secGlobal:
			for i, n := uint32(0), s.u32(); i < n; i++ {
				g := BinGlobal{Type: s.valtype(), Mut: s.mut()}
				g.Init = s.constExpr()
				m.Globals = append(m.Globals, g)
			}
		case secExport:
			for i, n := uint32(0), s.u32(); i < n; i++ {
				e := BinExport{Name: s.name(), Kind: s.byte(), Index: s.u32()}
				if e.Kind > 3 {
					s.fail("export kind %d", e.Kind)
				}
				m.Exports = append(m.Exports, e)
			}
		case secStart:
			v := s.u32()
			m.Start = &v
		case secElement:
			for i, n := uint32(0), s.u32(); i < n; i++ {
				m.Elems = append(m.Elems, s.elem())
			}
		case secDataCount:
			v := s.u32()
			m.DataCount = &v
		case secCode:
			for i, n := uint32(0), s.u32(); i < n; i++ {
				size := s.u32()
				f := s.sub(int(size))
				var c BinCode
				total := uint64(0)
				for k, g := uint32(0), f.u32(); k < g; k++ {
					cnt := f.u32()
					t := f.valtype()
					total += uint64(cnt)
					if total > 50000 {
						f.fail("too many locals")
					}
					for j := uint32(0); j < cnt; j++ {
						c.Locals = append(c.Locals, t)
					}
				}
				c.Body = f.expr()
				if !f.eof() {
					f.fail("junk after function body")
				}
				m.Code = append(m.Code, c)
			}
		case secData:
			for i, n := uint32(0), s.u32(); i < n; i++ {
				d := BinData{Flag: s.u32()}
				switch d.Flag {
				case 0:
					d.Offset = s.constExpr()
				case 1:
				case 2:
					d.Mem = s.u32()
					d.Offset = s.constExpr()
				default:
					s.fail("data segment flag %d", d.Flag)
				}
				d.Bytes = append([]byte{}, s.take(int(s.u32()))...)
				m.Data = append(m.Data, d)
			}
		}
		if !s.eof() {
			r.fail("section %d: %d bytes left over", id, len(s.p)-s.pos)
		}
	}
	if len(m.Funcs) != len(m.Code) {
		r.fail("function section has %d entries, code section %d", len(m.Funcs), len(m.Code))
	}
	if m.DataCount != nil && int(*m.DataCount) != len(m.Data) {
		r.fail("data count %d != %d segments", *m.DataCount, len(m.Data))
	}
	return nil
}

func (r *rdr) mut() bool {
	switch r.byte() {
	case 0:
		return false
	case 1:
		return true
	}
	r.fail("bad mutability")
	return false
}

func (r *rdr) elem() BinElem {
	e := BinElem{Flag: r.u32(), RefType: FuncRef}
	if e.Flag > 7 {
		r.fail("element segment flag %d", e.Flag)
	}
	active := e.Flag&1 == 0
	if active {
		if e.Flag&2 != 0 {
			e.Table = r.u32()
		}
		e.Offset = r.constExpr()
	}
	if e.Flag&3 != 0 { // elemkind / reftype present
		if e.Flag&4 == 0 {
			if k := r.byte(); k != 0 {
				r.fail("elemkind %d", k)
			}
		} else {
			e.RefType = r.valtype()
		}
	}
	n := r.u32()
	for i := uint32(0); i < n; i++ {
		if e.Flag&4 == 0 {
			e.Funcs = append(e.Funcs, r.u32())
		} else {
			e.Exprs = append(e.Exprs, r.constExpr())
		}
	}
	return e
}

// constExpr reads instructions up to and excluding the terminating end.
func (r *rdr) constExpr() []Instr {
	var out []Instr
	for {
		in := r.instr()
		if in.Op == OpEnd {
			return out
		}
		if in.Op == OpBlock || in.Op == OpLoop || in.Op == OpIf {
			r.fail("structured instruction in constant expression")
		}
		out = append(out, in)
	}
}

// expr reads a function body: flat instruction list with balanced
// block/loop/if…end, up to and excluding the final end.
func (r *rdr) expr() []Instr {
	var out []Instr
	depth := 0
	for {
		in := r.instr()
		switch in.Op {
		case OpBlock, OpLoop, OpIf:
			depth++
		case OpEnd:
			if depth == 0 {
				return out
			}
			depth--
		}
		out = append(out, in)
	}
}

func (r *rdr) instr() Instr {
	b := r.byte()
	op := Op(b)
	if b == 0xfc {
		op = 0xfc00 | Op(r.u32()&0xff)
	}
	info := op.Info()
	if info == nil {
		r.fail("unknown opcode %v", op)
	}
	in := Instr{Op: op}
	switch info.Imm {
	case ImmBlock:
		// s33: 0x40 empty, value type (negative single byte), or type index
		if r.pos >= len(r.p) {
			r.fail("unexpected end")
		}
		c := r.p[r.pos : r.pos+1]
		switch {
		case c[0] == 0x40:
			r.pos++
		case ValType(c[0]) == I32 || ValType(c[0]) == I64 || ValType(c[0]) == F32 || ValType(c[0]) == F64:
			r.pos++
			in.BT.Results = []ValType{ValType(c[0])}
		default:
			v := r.sN(33)
			if v < 0 {
				r.fail("negative block type index")
			}
			in.BT.HasIndex, in.BT.Index = true, uint32(v)
		}
	case ImmLabel, ImmFunc, ImmLocal, ImmGlobal, ImmTable, ImmDataIdx:
		in.X = r.u32()
	case ImmBrTable:
		n := r.u32()
		if n > 1<<20 {
			r.fail("br_table too long")
		}
		for i := uint32(0); i <= n; i++ {
			in.Targets = append(in.Targets, r.u32())
		}
	case ImmCallInd:
		in.X = r.u32()
		in.Y = r.u32()
	case ImmMem:
		in.Align = r.u32()
		in.Offset = r.u64() // memory64-tolerant; 32-bit memories use u32 (validated by the engines)
	case ImmMemIdx:
		if r.byte() != 0 {
			r.fail("memory index must be 0")
		}
	case ImmMemCopy:
		if r.byte() != 0 || r.byte() != 0 {
			r.fail("memory index must be 0")
		}
	case ImmMemInit:
		in.X = r.u32()
		if r.byte() != 0 {
			r.fail("memory index must be 0")
		}
	case ImmTableInit, ImmTableCopy:
		in.X = r.u32()
		in.Y = r.u32()
	case ImmI32:
		in.I = r.sN(32)
	case ImmI64:
		in.I = r.sN(64)
	case ImmF32:
		in.F = uint64(binary.LittleEndian.Uint32(r.take(4)))
	case ImmF64:
		in.F = binary.LittleEndian.Uint64(r.take(8))
	case ImmSelectT:
		for i, n := uint32(0), r.u32(); i < n; i++ {
			in.SelT = append(in.SelT, r.valtype())
		}
	case ImmRefNull:
		r.valtype()
	}
	return in
}

func (r *rdr) names() *BinNames {
	n := &BinNames{Other: map[byte][]byte{}}
	lastID := -1
	for !r.eof() {
		id := r.byte()
		size := r.u32()
		s := r.sub(int(size))
		if int(id) <= lastID {
			r.fail("name subsection %d out of order", id)
		}
		lastID = int(id)
		n.Order = append(n.Order, id)
		switch id {
		case 0:
			n.HasModule, n.Module = true, s.name()
		case 1:
			n.HasFuncs = true
			for i, c := uint32(0), s.u32(); i < c; i++ {
				n.Funcs = append(n.Funcs, NameAssoc{s.u32(), s.name()})
			}
		case 2:
			n.HasLocals = true
			for i, c := uint32(0), s.u32(); i < c; i++ {
				l := LocalNames{Func: s.u32()}
				for k, cc := uint32(0), s.u32(); k < cc; k++ {
					l.Names = append(l.Names, NameAssoc{s.u32(), s.name()})
				}
				n.Locals = append(n.Locals, l)
			}
		default:
			n.Other[id] = append([]byte{}, s.p...)
			s.pos = len(s.p)
		}
		if !s.eof() {
			r.fail("name subsection %d: bytes left over", id)
		}
	}
	return n
}
