package watgen

import (
	"fmt"
	"math"
	"strconv"
)

// Per-function worst-case execution cost limit (abstract instruction count,
// loops multiplied out, callees included).  Keeps every generated call in the
// microsecond range on any engine: termination and speed by construction.
const costLimit = 4000

type lbl struct {
	name  string
	arity []ValType // values a branch to this label carries (loop: none)
	loop  bool
}

type fctx struct {
	g        *gen
	f        *Func
	pos      int
	ltypes   []ValType       // params then locals
	reserved map[uint32]bool // fuel and scratch locals
	labels   []lbl           // innermost last
	budget   int
	cost     int
	mult     int
	scratch  map[ValType]uint32
	nest     int
}

type opClass struct {
	un, bin map[ValType][]*OpInfo // by result type (same-type operands)
	cmp     map[ValType][]*OpInfo // comparison ops by operand type (result i32)
	test    map[ValType]*OpInfo   // eqz
	conv    map[ValType][]*OpInfo // conversions by result type
	loads   map[ValType][]*OpInfo
	stores  map[ValType][]*OpInfo
}

var ops *opClass

// buildOpClasses is called at the end of the opcode table's init (ops.go).
func buildOpClasses() {
	c := &opClass{un: map[ValType][]*OpInfo{}, bin: map[ValType][]*OpInfo{}, cmp: map[ValType][]*OpInfo{},
		test: map[ValType]*OpInfo{}, conv: map[ValType][]*OpInfo{}, loads: map[ValType][]*OpInfo{}, stores: map[ValType][]*OpInfo{}}
	for _, o := range AllOps {
		if !WaSupports(o.Op) || o.Op >= 0xfc00 {
			continue
		}
		switch {
		case o.Imm == ImmMem && len(o.Out) == 1:
			c.loads[o.Out[0]] = append(c.loads[o.Out[0]], o)
		case o.Imm == ImmMem:
			c.stores[o.In[1]] = append(c.stores[o.In[1]], o)
		case o.Imm != ImmNone || len(o.Out) != 1:
		case len(o.In) == 1 && o.In[0] == o.Out[0]:
			if o.Op == 0x45 { // i32.eqz
				c.test[I32] = o
			} else {
				c.un[o.Out[0]] = append(c.un[o.Out[0]], o)
			}
		case len(o.In) == 1 && o.Op == 0x50: // i64.eqz
			c.test[I64] = o
		case len(o.In) == 1:
			c.conv[o.Out[0]] = append(c.conv[o.Out[0]], o)
		case len(o.In) == 2 && o.In[0] == o.Out[0]:
			if o.Op >= 0x46 && o.Op <= 0x4f { // i32 comparisons have i32 operands and result
				c.cmp[I32] = append(c.cmp[I32], o)
			} else {
				c.bin[o.Out[0]] = append(c.bin[o.Out[0]], o)
			}
		case len(o.In) == 2:
			c.cmp[o.In[0]] = append(c.cmp[o.In[0]], o)
		}
	}
	ops = c
}

// ---------------------------------------------------------------- literals

var i32Bound = []int64{0, 1, -1, 2, 7, 8, 63, 64, 127, 128, 255, 256, 65535, 65536, math.MaxInt32, math.MinInt32, math.MaxInt32 - 1, math.MinInt32 + 1, 0x7fffff, 0x12345678, -128, -129, 1 << 30}
var i64Bound = []int64{0, 1, -1, 2, 63, 64, 127, 128, 255, 65536, math.MaxInt32, math.MinInt32, 1 << 32, -(1 << 32), 1<<32 - 1, math.MaxInt64, math.MinInt64, math.MaxInt64 - 1, math.MinInt64 + 1, 1 << 53, 0x123456789abcdef, -(1 << 62)}
var f64Bound = []float64{0, math.Copysign(0, -1), 1, -1, 0.5, -0.5, 1.5, 2, 3.25, 1e10, -1e10, 1e-10, 123456.789, math.MaxFloat32, math.SmallestNonzeroFloat32, math.MaxFloat64, math.SmallestNonzeroFloat64,
	2147483647, 2147483648, -2147483648, -2147483649, 4294967295, 4294967296, 9223372036854775807, -9223372036854775808, 16777216, 16777217, 0.1, 1.0 / 3, 6.02214076e23}

// constInstr draws a *.const of type t with a drawn spelling the Wa parser
// documents: decimal (signed, or unsigned for i32), hex (non-negative below
// 2^(N-1)); floats as decimal / exponent / integer / hex-float-with-p.
func (g *gen) constInstr(t ValType, label string) Instr {
	switch t {
	case I32:
		var v int64
		if g.chance(label+"/bound", 55) {
			v = i32Bound[g.intn(label+"/bi", 0, len(i32Bound)-1)]
		} else {
			v = int64(int32(rapid32(g, label)))
		}
		in := Instr{Op: OpI32Const, I: v}
		switch k := g.intn(label+"/sp", 0, 9); {
		case k < 2 && v >= 0:
			in.Sp.Lit = "0x" + strconv.FormatInt(v, 16)
			if g.chance(label+"/upper", 30) {
				in.Sp.Lit = "0x" + fmt.Sprintf("%X", v)
			}
			g.hit(FeatIntHex)
		case k < 4 && v < 0:
			in.Sp.Lit = strconv.FormatUint(uint64(uint32(v)), 10)
			g.hit(FeatIntUnsigned)
		}
		return in
	case I64:
		var v int64
		if g.chance(label+"/bound", 55) {
			v = i64Bound[g.intn(label+"/bi", 0, len(i64Bound)-1)]
		} else {
			v = int64(uint64(rapid32(g, label+"/hi"))<<32 | uint64(rapid32(g, label+"/lo")))
		}
		in := Instr{Op: OpI64Const, I: v}
		if g.intn(label+"/sp", 0, 9) < 2 && v >= 0 {
			in.Sp.Lit = "0x" + strconv.FormatInt(v, 16)
			g.hit(FeatIntHex)
		}
		return in
	}
	width := 64
	if t == F32 {
		width = 32
	}
	var v float64
	if g.chance(label+"/bound", 60) {
		v = f64Bound[g.intn(label+"/bi", 0, len(f64Bound)-1)]
	} else {
		v = float64(int32(rapid32(g, label))) / float64(int64(1)<<uint(g.intn(label+"/sh", 0, 40)))
	}
	var bits uint64
	if t == F32 {
		f := float32(v)
		if math.IsInf(float64(f), 0) {
			f = math.MaxFloat32
			if v < 0 {
				f = -f
			}
		}
		bits = uint64(math.Float32bits(f))
		v = float64(f)
	} else {
		bits = math.Float64bits(v)
	}
	op := OpF64Const
	if t == F32 {
		op = OpF32Const
	}
	in := Instr{Op: op, F: bits}
	switch k := g.intn(label+"/sp", 0, 9); {
	case k < 3: // canonical hex float
		g.hit(FeatFloatHex)
	case k < 6:
		in.Sp.Lit = strconv.FormatFloat(v, 'g', -1, width)
		if in.Sp.Lit[0] == '+' {
			in.Sp.Lit = in.Sp.Lit[1:]
		}
		in.Sp.Lit = stripExpPlus(in.Sp.Lit)
		if containsAny(in.Sp.Lit, "eE") {
			g.hit(FeatFloatExp)
		}
	case k < 8:
		in.Sp.Lit = stripExpPlus(strconv.FormatFloat(v, 'e', -1, width))
		if g.chance(label+"/E", 30) {
			in.Sp.Lit = upperE(in.Sp.Lit)
		}
		g.hit(FeatFloatExp)
	default:
		if v == math.Trunc(v) && math.Abs(v) < 1e15 && !(v == 0 && math.Signbit(v)) {
			in.Sp.Lit = strconv.FormatFloat(v, 'f', 0, 64)
			g.hit(FeatFloatInt)
		} else {
			in.Sp.Lit = strconv.FormatFloat(v, 'f', -1, width)
		}
	}
	return in
}

func rapid32(g *gen, label string) uint32 {
	return uint32(g.intn(label+"/u16a", 0, 0xffff))<<16 | uint32(g.intn(label+"/u16b", 0, 0xffff))
}

func containsAny(s, set string) bool {
	for i := 0; i < len(s); i++ {
		for j := 0; j < len(set); j++ {
			if s[i] == set[j] {
				return true
			}
		}
	}
	return false
}

// stripExpPlus keeps "1e+10" (both parsers accept it) — identity; kept as a
// hook so the spelling stays within the documented subset.
func stripExpPlus(s string) string { return s }

func upperE(s string) string {
	b := []byte(s)
	for i := range b {
		if b[i] == 'e' {
			b[i] = 'E'
		}
	}
	return string(b)
}

func i32c(v int64) Instr { return Instr{Op: OpI32Const, I: int64(int32(v))} }

// ---------------------------------------------------------------- function body

func (g *gen) body(pos int, isStart bool) {
	f := &g.m.Funcs[pos]
	c := &fctx{g: g, f: f, pos: pos, reserved: map[uint32]bool{}, mult: 1, scratch: map[ValType]uint32{}}
	c.budget = g.intn("bodybudget", 3, g.opt.MaxBody)
	// parameter identifiers
	f.ParamNames = make([]string, len(f.Type.Params))
	pstyle := g.intn("paramstyle", 0, 3) // 0 all named, 1 all anonymous grouped, 2 anonymous separate, 3 mixed
	for i := range f.ParamNames {
		if pstyle == 0 || pstyle == 3 && g.chance("paramnamed", 50) {
			f.ParamNames[i] = g.localIdent(f.ParamNames, "p")
			g.hit(FeatNamedParams)
		}
	}
	if pstyle == 1 && len(f.Type.Params) > 1 {
		f.GroupParams = true
		g.hit(FeatGroupedParams)
	}
	if len(f.Type.Results) > 1 && g.chance("splitresults", 25) {
		f.SplitResults = true
		g.hit(FeatSplitResults)
	}
	c.ltypes = append(c.ltypes, f.Type.Params...)
	for i, n := 0, g.intn("nlocals", 0, 4); i < n; i++ {
		c.newLocal(g.pickType("localtype"), "l")
	}

	var body []Instr
	if pos == g.trapFn {
		body = append(body, c.trapSite()...)
	}
	if isStart {
		// visible effects: write globals / memory so that getters and the memory hash observe the start function
		for gi := 0; gi < g.m.NumGlobals(); gi++ {
			if t, mut := g.m.GlobalTypeOf(uint32(gi)); mut {
				body = append(body, c.setGlobal(uint32(gi), t, 1)...)
			}
		}
		if g.m.HasMemory() {
			body = append(body, c.store(1)...)
		}
	}
	for c.budget > 0 {
		body = append(body, c.stmt(3)...)
	}
	// results
	body = append(body, c.values(f.Type.Results, 2, true)...)
	if g.chance("finalreturn", 25) {
		body = append(body, Instr{Op: OpReturn})
	}
	f.Body = body
	g.cost[pos] = c.cost + 5
	for _, n := range f.LocalNames {
		if n != "" {
			g.hit(FeatNamedLocals)
		} else {
			g.hit(FeatAnonLocals)
		}
	}
}

func (c *fctx) newLocal(t ValType, hint string) uint32 {
	c.ltypes = append(c.ltypes, t)
	c.f.Locals = append(c.f.Locals, t)
	name := ""
	if c.g.chance("localnamed", 65) {
		all := append(append([]string{}, c.f.ParamNames...), c.f.LocalNames...)
		name = c.g.localIdent(all, hint)
	}
	c.f.LocalNames = append(c.f.LocalNames, name)
	return uint32(len(c.ltypes) - 1)
}

func (c *fctx) scratchLocal(t ValType) uint32 {
	if x, ok := c.scratch[t]; ok {
		return x
	}
	x := c.newLocal(t, "nan")
	c.reserved[x] = true
	c.scratch[t] = x
	return x
}

func (c *fctx) localRef(x uint32) Spelling {
	sp := Spelling{ByName: true}
	if localName(c.f, x) != "" && c.g.chance("localbyindex", 20) {
		sp.ByName = false
		c.g.hit(FeatLocalByIndex)
	}
	return sp
}

func (c *fctx) localsOf(t ValType) []uint32 {
	var out []uint32
	for i, lt := range c.ltypes {
		if lt == t && !c.reserved[uint32(i)] {
			out = append(out, uint32(i))
		}
	}
	return out
}

func (c *fctx) tick(n int) { c.cost += n * c.mult }

// canonNaN appends select(canonical_nan, x, x != x) for the float on top of
// the stack (see DESIGN §2.3: NaN payload/sign are engine-specific).
func (g *gen) canonNaN(f *Func, code []Instr, t ValType) []Instr {
	// scratch local appended to f
	f.Locals = append(f.Locals, t)
	f.LocalNames = append(f.LocalNames, "")
	x := uint32(len(f.Type.Params) + len(f.Locals) - 1)
	return append(code, canonSeq(t, x, Spelling{})...)
}

func canonSeq(t ValType, x uint32, sp Spelling) []Instr {
	if t == F32 {
		return []Instr{
			{Op: OpLocalSet, X: x, Sp: sp},
			i32c(0x7fc00000),
			{Op: OpNamed("f32.reinterpret_i32")},
			{Op: OpLocalGet, X: x, Sp: sp},
			{Op: OpLocalGet, X: x, Sp: sp},
			{Op: OpLocalGet, X: x, Sp: sp},
			{Op: OpNamed("f32.ne")},
			{Op: OpSelect},
		}
	}
	return []Instr{
		{Op: OpLocalSet, X: x, Sp: sp},
		{Op: OpI64Const, I: 0x7ff8000000000000},
		{Op: OpNamed("f64.reinterpret_i64")},
		{Op: OpLocalGet, X: x, Sp: sp},
		{Op: OpLocalGet, X: x, Sp: sp},
		{Op: OpLocalGet, X: x, Sp: sp},
		{Op: OpNamed("f64.ne")},
		{Op: OpSelect},
	}
}

func (c *fctx) canon(code []Instr, t ValType) []Instr {
	if !t.IsFloat() {
		return code
	}
	x := c.scratchLocal(t)
	c.tick(8)
	return append(code, canonSeq(t, x, c.localRef(x))...)
}

// ---------------------------------------------------------------- expressions

func (c *fctx) leaf(t ValType) []Instr {
	g := c.g
	c.tick(1)
	ls := c.localsOf(t)
	var gs []uint32
	for gi := 0; gi < g.m.NumGlobals(); gi++ {
		if gt, _ := g.m.GlobalTypeOf(uint32(gi)); gt == t {
			gs = append(gs, uint32(gi))
		}
	}
	switch k := g.intn("leaf", 0, 9); {
	case k < 4 && len(ls) > 0:
		x := ls[g.intn("leaflocal", 0, len(ls)-1)]
		return []Instr{{Op: OpLocalGet, X: x, Sp: c.localRef(x)}}
	case k < 6 && len(gs) > 0:
		x := gs[g.intn("leafglobal", 0, len(gs)-1)]
		return []Instr{{Op: OpGlobalGet, X: x, Sp: Spelling{ByName: g.chance("globalbyname", 75)}}}
	}
	return []Instr{g.constInstr(t, "const")}
}

// safeFloat: a float of type t that is finite, exactly representable and of
// magnitude < 2^20 — a valid operand for every trunc instruction (unsigned
// variants need nonneg) and never NaN.
func (c *fctx) safeFloat(t ValType, nonneg bool, d int) []Instr {
	code := c.expr(I32, d-1)
	code = append(code, i32c(0xfffff), Instr{Op: OpNamed("i32.and")})
	if !nonneg && c.g.chance("safeneg", 50) {
		code = append(code, i32c(0x80000), Instr{Op: OpNamed("i32.sub")})
	}
	conv := t.String() + ".convert_i32_s"
	code = append(code, Instr{Op: OpNamed(conv)})
	if c.g.chance("safefrac", 40) {
		k := Instr{Op: OpF64Const, F: math.Float64bits(0.5), Sp: Spelling{Lit: "0.5"}}
		if t == F32 {
			k = Instr{Op: OpF32Const, F: uint64(math.Float32bits(0.5)), Sp: Spelling{Lit: "0.5"}}
		}
		code = append(code, k, Instr{Op: OpNamed(t.String() + ".mul")})
	}
	c.tick(6)
	return code
}

func (c *fctx) addr(width uint32, d int) (code []Instr, in Instr) {
	g := c.g
	mask := []int64{0xff, 0xfff, 0x7fff}[g.intn("addrmask", 0, 2)]
	code = c.expr(I32, d-1)
	code = append(code, i32c(mask), Instr{Op: OpNamed("i32.and")})
	maxOff := 65536 - 8 - int(mask) - 1
	off := 0
	switch k := g.intn("offk", 0, 9); {
	case k < 4:
	case k < 8:
		off = g.intn("offsmall", 1, 64)
		g.hit(FeatMemargOffset)
	default:
		off = g.intn("offbig", 65, maxOff)
		g.hit(FeatMemargOffset)
	}
	in.Offset = uint64(off)
	in.Sp.OffsetHex = off > 0 && g.chance("offhex", 25)
	in.Align = natAlign(width)
	if g.chance("alignless", 30) {
		in.Align = uint32(g.intn("align", 0, int(natAlign(width))))
		g.hit(FeatMemargAlign)
	} else if g.chance("alignexplicit", 20) {
		in.Sp.AlignExplicit = true
		g.hit(FeatMemargAlign)
	}
	c.tick(3)
	return
}

func (c *fctx) expr(t ValType, d int) []Instr {
	g := c.g
	c.budget--
	if d <= 0 || c.budget <= 0 {
		return c.leaf(t)
	}
	hasMem := g.m.HasMemory()
	for {
		switch k := g.intn("exprkind", 0, 19); k {
		case 0, 1, 2:
			return c.leaf(t)
		case 3, 4: // unary
			us := ops.un[t]
			o := us[g.intn("unop", 0, len(us)-1)]
			c.tick(1)
			return append(c.expr(t, d-1), Instr{Op: o.Op})
		case 5, 6, 7: // binary
			bs := ops.bin[t]
			o := bs[g.intn("binop", 0, len(bs)-1)]
			a := c.expr(t, d-1)
			var b []Instr
			switch {
			case isDivRem(o.Name):
				// divisor in [1, 0x7fff]: no division by zero, no MIN/-1 overflow
				b = c.expr(t, d-1)
				if t == I32 {
					b = append(b, i32c(0x7ffe), Instr{Op: OpNamed("i32.and")}, i32c(1), Instr{Op: OpNamed("i32.or")})
				} else {
					b = append(b, Instr{Op: OpI64Const, I: 0x7ffe}, Instr{Op: OpNamed("i64.and")}, Instr{Op: OpI64Const, I: 1}, Instr{Op: OpNamed("i64.or")})
				}
				c.tick(4)
			case isCopysign(o.Name):
				b = c.safeFloat(t, false, d)
			default:
				b = c.expr(t, d-1)
			}
			c.tick(1)
			return append(append(a, b...), Instr{Op: o.Op})
		case 8: // comparison / test → i32
			if t != I32 {
				continue
			}
			s := g.pickType("cmptype")
			if tst := ops.test[s]; tst != nil && g.chance("eqz", 25) {
				c.tick(1)
				return append(c.expr(s, d-1), Instr{Op: tst.Op})
			}
			cs := ops.cmp[s]
			o := cs[g.intn("cmpop", 0, len(cs)-1)]
			c.tick(1)
			return append(append(c.expr(s, d-1), c.expr(s, d-1)...), Instr{Op: o.Op})
		case 9, 10: // conversion
			cs := ops.conv[t]
			o := cs[g.intn("convop", 0, len(cs)-1)]
			s := o.In[0]
			var a []Instr
			switch {
			case isTrunc(o.Name):
				a = c.safeFloat(s, o.Name[len(o.Name)-1] == 'u', d)
			case s.IsFloat() && !t.IsFloat(): // reinterpret float → int exposes NaN bits
				a = c.canon(c.expr(s, d-1), s)
			default:
				a = c.expr(s, d-1)
			}
			c.tick(1)
			return append(a, Instr{Op: o.Op})
		case 11: // load
			if !hasMem {
				continue
			}
			ls := ops.loads[t]
			o := ls[g.intn("loadop", 0, len(ls)-1)]
			code, in := c.addr(o.Width, d)
			in.Op = o.Op
			return append(code, in)
		case 12: // select
			a, b, cond := c.expr(t, d-1), c.expr(t, d-1), c.expr(I32, d-1)
			sel := Instr{Op: OpSelect}
			if g.on(FeatSelectT) && g.chance("selectt", 30) {
				sel = Instr{Op: OpSelectT, SelT: []ValType{t}}
				g.hit(FeatSelectT)
			}
			c.tick(1)
			return append(append(append(a, b...), cond...), sel)
		case 13: // call
			if code := c.call([]ValType{t}, d); code != nil {
				return code
			}
		case 14: // block (result t) … with a value-carrying br_if
			return c.blockExpr(t, d)
		case 15: // if (result t)
			cond := c.expr(I32, d-1)
			in := Instr{Op: OpIf, BT: BlockType{Results: []ValType{t}}, HasElse: true, Label: c.maybeLabel("if")}
			c.push(in.Label, []ValType{t}, false)
			in.Then = c.expr(t, d-1)
			in.Else = c.expr(t, d-1)
			c.pop()
			c.tick(1)
			return append(cond, in)
		case 16: // local.tee
			ls := c.localsOf(t)
			if len(ls) == 0 {
				continue
			}
			x := ls[g.intn("teelocal", 0, len(ls)-1)]
			c.tick(1)
			return append(c.expr(t, d-1), Instr{Op: OpLocalTee, X: x, Sp: c.localRef(x)})
		case 17: // memory.size / memory.grow
			if t != I32 || !hasMem {
				continue
			}
			c.tick(1)
			if g.on(FeatMemoryGrow) && c.mult == 1 && g.chance("grow", 40) && c.growOK() {
				g.hit(FeatMemoryGrow)
				g.usesGrow = true
				code := c.expr(I32, d-1)
				return append(code, i32c(1), Instr{Op: OpNamed("i32.and")}, Instr{Op: OpMemoryGrow})
			}
			return []Instr{{Op: OpMemorySize}}
		case 18: // multi-value block, extra results dropped
			t2 := g.pickType("mvtype")
			in := Instr{Op: OpBlock, BT: BlockType{Results: []ValType{t, t2}}, Label: c.maybeLabel("mv")}
			if g.chance("mvif", 30) {
				in.Op = OpIf
				in.HasElse = true
			}
			g.hit(FeatMultiValueBlock)
			var code []Instr
			if in.Op == OpIf {
				code = c.expr(I32, d-1)
			}
			c.push(in.Label, []ValType{t, t2}, false)
			in.Then = append(c.expr(t, d-1), c.expr(t2, d-1)...)
			if in.Op == OpIf {
				in.Else = append(c.expr(t, d-1), c.expr(t2, d-1)...)
			}
			c.pop()
			c.tick(2)
			return append(code, in, Instr{Op: OpDrop})
		case 19: // call_indirect
			if code := c.callIndirect([]ValType{t}, d); code != nil {
				return code
			}
		}
	}
}

func isDivRem(n string) bool {
	return len(n) > 8 && (n[4:7] == "div" || n[4:7] == "rem") && n[0] == 'i'
}
func isCopysign(n string) bool { return len(n) > 4 && n[4:] == "copysign" }
func isTrunc(n string) bool    { return len(n) > 10 && n[0] == 'i' && n[4:10] == "trunc_" }

// growOK: memory.grow is generated only when the memory declares a maximum,
// so the memory size stays bounded whatever the script does.
func (c *fctx) growOK() bool {
	m := c.g.m
	if m.Memory != nil {
		if !m.Memory.Lim.HasMax {
			m.Memory.Lim.HasMax, m.Memory.Lim.Max = true, m.Memory.Lim.Min+2
		}
		return true
	}
	return false
}

func (c *fctx) maybeLabel(hint string) string {
	g := c.g
	if !g.chance("labelled", 60) {
		return ""
	}
	// labels may shadow outer labels of the same name (legal); mostly distinct
	if len(c.labels) > 0 && g.chance("labelshadow", 8) {
		if n := c.labels[g.intn("labelshadowk", 0, len(c.labels)-1)].name; n != "" {
			return n
		}
	}
	return fmt.Sprintf("%s%d", []string{"L", "label", "$blk", hint + "."}[g.intn("labelstyle", 0, 3)], g.intn("labeln", 0, 40))
}

func (c *fctx) push(name string, arity []ValType, loop bool) {
	c.labels = append(c.labels, lbl{name, arity, loop})
	if name != "" {
		named := 0
		for _, l := range c.labels {
			if l.name != "" {
				named++
			}
		}
		if named >= 2 {
			c.g.hit(FeatNestedLabels)
		}
	}
}
func (c *fctx) pop() { c.labels = c.labels[:len(c.labels)-1] }

// branchSp decides how a label reference is printed.
func (c *fctx) branchSp(depth uint32) Spelling {
	if int(depth) < len(c.labels) && c.labels[len(c.labels)-1-int(depth)].name != "" && c.g.chance("brbyname", 70) {
		c.g.hit(FeatBrByName)
		return Spelling{ByName: true}
	}
	return Spelling{}
}

func (c *fctx) blockExpr(t ValType, d int) []Instr {
	g := c.g
	in := Instr{Op: OpBlock, BT: BlockType{Results: []ValType{t}}, Label: c.maybeLabel("b")}
	c.push(in.Label, []ValType{t}, false)
	body := c.expr(t, d-1)
	if g.chance("brifvalue", 60) {
		body = append(body, c.expr(I32, d-1)...)
		body = append(body, Instr{Op: OpBrIf, X: 0, Sp: c.branchSp(0)})
		if g.chance("brifdrop", 50) {
			body = append(body, Instr{Op: OpDrop})
			body = append(body, c.expr(t, d-1)...)
		}
	}
	body = append(body, c.stmtsIn(d-1, 1)...)
	c.pop()
	// statements after the value would disturb the stack: put them first instead
	in.Then = body
	c.tick(2)
	return []Instr{in}
}

// stmtsIn returns 0..n statements to place *before* a value (they are stack
// neutral, so callers prepend them).
func (c *fctx) stmtsIn(d, n int) []Instr { return nil }

// values generates code leaving one value per type.  atEnd marks the function
// result position (float results are NaN-canonicalised there).
func (c *fctx) values(ts []ValType, d int, atEnd bool) []Instr {
	g := c.g
	if len(ts) == 0 {
		return nil
	}
	if len(ts) >= 2 && !atEnd || len(ts) >= 2 && !hasFloat(ts) {
		switch g.intn("valuesk", 0, 4) {
		case 0: // one multi-value block
			in := Instr{Op: OpBlock, BT: BlockType{Results: ts}, Label: c.maybeLabel("mv")}
			g.hit(FeatMultiValueBlock)
			c.push(in.Label, ts, false)
			for _, t := range ts {
				in.Then = append(in.Then, c.expr(t, d)...)
			}
			c.pop()
			c.tick(1)
			return []Instr{in}
		case 1: // a call returning exactly these
			if code := c.call(ts, d); code != nil {
				return code
			}
		}
	}
	var out []Instr
	for _, t := range ts {
		e := c.expr(t, d)
		if atEnd {
			e = c.canon(e, t)
		}
		out = append(out, e...)
	}
	return out
}

func hasFloat(ts []ValType) bool {
	for _, t := range ts {
		if t.IsFloat() {
			return true
		}
	}
	return false
}

// call emits a direct call to a function returning exactly results (nil if
// none is available within the cost limit).
func (c *fctx) call(results []ValType, d int) []Instr {
	g := c.g
	m := g.m
	var cands []uint32
	n := uint32(0)
	for i := range m.Imports {
		if m.Imports[i].Kind != ExternFunc {
			continue
		}
		if m.Imports[i].Name != "" && vtsEqual(m.Imports[i].Type.Results, results) {
			cands = append(cands, n)
		}
		n++
	}
	for j := c.pos + 1; j < len(g.callable); j++ {
		if g.callable[j] && vtsEqual(m.Funcs[j].Type.Results, results) && c.cost+c.mult*(g.cost[j]+1) <= costLimit {
			cands = append(cands, uint32(g.nImpF+j))
		}
	}
	if len(cands) == 0 {
		return nil
	}
	fi := cands[g.intn("callee", 0, len(cands)-1)]
	ft := m.FuncTypeOf(fi)
	var code []Instr
	isImport := int(fi) < g.nImpF
	for _, p := range ft.Params {
		a := c.expr(p, d-1)
		if isImport {
			a = c.canon(a, p) // values handed to the host are observable
		}
		code = append(code, a...)
	}
	if isImport {
		c.tick(2)
	} else {
		c.tick(g.cost[int(fi)-g.nImpF] + 1)
	}
	if c.nest > 0 {
		g.hit(FeatCallInNested)
	}
	return append(code, Instr{Op: OpCall, X: fi, Sp: Spelling{ByName: true}})
}

func (c *fctx) callIndirect(results []ValType, d int) []Instr {
	g := c.g
	m := g.m
	if m.Table == nil || !g.on(FeatCallIndirect) {
		return nil
	}
	type cand struct {
		slot int
		fi   uint32
		ti   uint32
	}
	var cands []cand
	for s, fi := range g.slots {
		if fi < 0 {
			continue
		}
		ti, ok := g.tableTyp[uint32(fi)]
		if !ok || !vtsEqual(m.Types[ti].Type.Results, results) {
			continue
		}
		if int(fi) >= g.nImpF {
			j := int(fi) - g.nImpF
			if j <= c.pos || j >= len(g.cost) || j == g.trapFn || c.cost+c.mult*(g.cost[j]+2) > costLimit {
				continue
			}
			if g.m.Start != nil && int(*g.m.Start) == int(fi) {
				continue
			}
		}
		cands = append(cands, cand{s, uint32(fi), ti})
	}
	if len(cands) == 0 {
		return nil
	}
	k := cands[g.intn("indslot", 0, len(cands)-1)]
	ft := m.Types[k.ti].Type
	isImport := int(k.fi) < g.nImpF
	var code []Instr
	for _, p := range ft.Params {
		a := c.expr(p, d-1)
		if isImport {
			a = c.canon(a, p)
		}
		code = append(code, a...)
	}
	code = append(code, i32c(int64(k.slot)))
	if isImport {
		c.tick(3)
	} else {
		c.tick(g.cost[int(k.fi)-g.nImpF] + 2)
	}
	g.hit(FeatCallIndirect)
	sp := Spelling{OmitTable: g.chance("indomit", 50), ByName: g.chance("indtabbyname", 60), TypeByName: g.chance("indtypebyname", 70)}
	return append(code, Instr{Op: OpCallIndirect, X: k.ti, Y: 0, Sp: sp})
}

// ---------------------------------------------------------------- statements

func (c *fctx) setGlobal(gi uint32, t ValType, d int) []Instr {
	code := c.canon(c.expr(t, d), t)
	c.tick(1)
	return append(code, Instr{Op: OpGlobalSet, X: gi, Sp: Spelling{ByName: c.g.chance("gsetbyname", 75)}})
}

func (c *fctx) store(d int) []Instr {
	g := c.g
	t := g.pickType("storetype")
	ss := ops.stores[t]
	o := ss[g.intn("storeop", 0, len(ss)-1)]
	code, in := c.addr(o.Width, d)
	in.Op = o.Op
	code = append(code, c.canon(c.expr(t, d-1), t)...)
	c.tick(1)
	return append(code, in)
}

func (c *fctx) dropValues(ts []ValType) []Instr {
	g := c.g
	var out []Instr
	for i := len(ts) - 1; i >= 0; i-- {
		ls := c.localsOf(ts[i])
		if len(ls) > 0 && g.chance("dropviaset", 40) {
			x := ls[g.intn("dropset", 0, len(ls)-1)]
			out = append(out, Instr{Op: OpLocalSet, X: x, Sp: c.localRef(x)})
		} else {
			out = append(out, Instr{Op: OpDrop})
		}
	}
	c.tick(len(ts))
	return out
}

func (c *fctx) stmts(d, lo, hi int) []Instr {
	var out []Instr
	for i, n := 0, c.g.intn("nstmts", lo, hi); i < n; i++ {
		out = append(out, c.stmt(d)...)
	}
	return out
}

// deadTail is appended after an unconditional br / return / unreachable: the
// operand stack is polymorphic there, so stack-neutral statements and a few
// operand-less consumers are valid.
func (c *fctx) deadTail(d int) []Instr {
	g := c.g
	if !g.chance("deadtail", 35) {
		return nil
	}
	g.hit(FeatDeadCode)
	var out []Instr
	saveCost, saveMult := c.cost, c.mult
	switch g.intn("deadk", 0, 3) {
	case 0:
		out = append(out, Instr{Op: OpDrop})
	case 1:
		out = append(out, Instr{Op: OpNamed("i32.add")}, Instr{Op: OpDrop})
	case 2:
		out = append(out, c.leaf(I64)...)
		out = append(out, Instr{Op: OpDrop})
	default:
		if d > 0 {
			out = append(out, c.stmt(d-1)...)
		}
	}
	c.cost, c.mult = saveCost, saveMult // never executed
	return out
}

func (c *fctx) stmt(d int) []Instr {
	g := c.g
	m := g.m
	c.budget--
	hasMem := m.HasMemory()
	for {
		k := g.intn("stmtkind", 0, 21)
		if d <= 0 && k >= 8 && k <= 14 {
			k = g.intn("stmtflat", 0, 7)
		}
		switch k {
		case 0, 1: // local.set
			t := g.pickType("settype")
			ls := c.localsOf(t)
			if len(ls) == 0 {
				ls = []uint32{c.newLocal(t, "v")}
			}
			x := ls[g.intn("setlocal", 0, len(ls)-1)]
			c.tick(1)
			return append(c.expr(t, d), Instr{Op: OpLocalSet, X: x, Sp: c.localRef(x)})
		case 2: // global.set
			var gs []uint32
			for gi := 0; gi < m.NumGlobals(); gi++ {
				if _, mut := m.GlobalTypeOf(uint32(gi)); mut {
					gs = append(gs, uint32(gi))
				}
			}
			if len(gs) == 0 {
				continue
			}
			gi := gs[g.intn("gset", 0, len(gs)-1)]
			t, _ := m.GlobalTypeOf(gi)
			return c.setGlobal(gi, t, d)
		case 3, 4: // store
			if !hasMem {
				continue
			}
			return c.store(d)
		case 5: // drop
			t := g.pickType("droptype")
			c.tick(1)
			return append(c.expr(t, d), Instr{Op: OpDrop})
		case 6: // call, results discarded
			var cands [][]ValType
			seen := map[string]bool{}
			for fi := 0; fi < g.nImpF+len(g.callable); fi++ {
				rs := m.FuncTypeOf(uint32(fi)).Results
				key := fmt.Sprint(rs)
				if !seen[key] {
					seen[key] = true
					cands = append(cands, rs)
				}
			}
			rs := cands[g.intn("callres", 0, len(cands)-1)]
			var code []Instr
			if g.chance("viaindirect", 30) {
				code = c.callIndirect(rs, d)
			}
			if code == nil {
				code = c.call(rs, d)
			}
			if code == nil {
				continue
			}
			return append(code, c.dropValues(rs)...)
		case 7: // nop
			if !g.on(FeatNop) {
				continue
			}
			g.hit(FeatNop)
			c.tick(1)
			return []Instr{{Op: OpNop}}
		case 8, 9: // if / if-else
			cond := c.expr(I32, d)
			in := Instr{Op: OpIf, Label: c.maybeLabel("if")}
			c.push(in.Label, nil, false)
			c.nest++
			in.Then = c.stmts(d-1, 0, 2)
			if g.chance("earlyreturn", 12) {
				in.Then = append(in.Then, c.values(c.f.Type.Results, 1, true)...)
				if g.chance("returnviabr", 30) {
					depth := uint32(len(c.labels))
					in.Then = append(in.Then, Instr{Op: OpBr, X: depth})
					g.hit(FeatBrFuncLevel)
				} else {
					in.Then = append(in.Then, Instr{Op: OpReturn})
				}
				in.Then = append(in.Then, c.deadTail(d-1)...)
			}
			if g.chance("haselse", 50) {
				in.HasElse = true
				in.Else = c.stmts(d-1, 0, 2)
			}
			c.nest--
			c.pop()
			c.tick(1)
			return append(cond, in)
		case 10: // block with br_if / br out of it
			in := Instr{Op: OpBlock, Label: c.maybeLabel("b")}
			c.push(in.Label, nil, false)
			c.nest++
			in.Then = c.stmts(d-1, 0, 2)
			in.Then = append(in.Then, c.branch(d-1)...)
			in.Then = append(in.Then, c.stmts(d-1, 0, 1)...)
			c.nest--
			c.pop()
			c.tick(1)
			return []Instr{in}
		case 11: // bounded loop
			if c.mult > 16 {
				continue
			}
			return c.loop(d)
		case 12: // br_table
			return c.brTable(d)
		case 13: // memory.fill / memory.copy
			if !hasMem || !g.on(FeatBulkMemory) {
				continue
			}
			g.hit(FeatBulkMemory)
			dst := append(c.expr(I32, d-1), i32c(0xfff), Instr{Op: OpNamed("i32.and")})
			var mid []Instr
			op := OpMemoryFill
			if g.chance("copy", 50) {
				op = OpMemoryCopy
				mid = append(c.expr(I32, d-1), i32c(0xfff), Instr{Op: OpNamed("i32.and")})
			} else {
				mid = c.expr(I32, d-1)
			}
			n := append(c.expr(I32, d-1), i32c(0x3f), Instr{Op: OpNamed("i32.and")})
			c.tick(70)
			return append(append(append(dst, mid...), n...), Instr{Op: op})
		case 20: // memory.init with length 0 (active segments are dropped after instantiation)
			if !hasMem || !g.opt.MemoryInit || len(m.Data) == 0 {
				continue
			}
			g.hit(FeatMemoryInit)
			c.tick(4)
			dst := append(c.expr(I32, d-1), i32c(0xfff), Instr{Op: OpNamed("i32.and")})
			return append(dst, i32c(0), i32c(0), Instr{Op: OpMemoryInit, X: uint32(g.intn("initseg", 0, len(m.Data)-1))})
		case 14: // table.get / table.set: copy a slot onto itself (keeps the slot map)
			if m.Table == nil || !g.on(FeatTableSet) || !g.on(FeatTableGet) {
				continue
			}
			s := int64(g.intn("tslot", 0, len(g.slots)-1))
			g.hit(FeatTableSet)
			g.hit(FeatTableGet)
			sp := Spelling{ByName: g.chance("tabbyname", 60)}
			c.tick(4)
			return []Instr{i32c(s), i32c(s), {Op: OpTableGet, Sp: sp}, {Op: OpTableSet, Sp: sp}}
		case 15: // table.get alone
			if m.Table == nil || !g.on(FeatTableGet) {
				continue
			}
			g.hit(FeatTableGet)
			c.tick(3)
			return []Instr{i32c(int64(g.intn("tslot", 0, len(g.slots)-1))), {Op: OpTableGet, Sp: Spelling{ByName: g.chance("tabbyname", 60)}}, {Op: OpDrop}}
		case 16: // branch out of an enclosing block, guarded
			if br := c.branch(d); len(br) > 0 {
				return br
			}
		case 18, 19: // call_indirect of whatever the table offers, results discarded
			var tried bool
			for _, td := range m.Types {
				if code := c.callIndirect(td.Type.Results, d); code != nil {
					return append(code, c.dropValues(td.Type.Results)...)
				}
				tried = true
			}
			_ = tried
			continue
		case 17: // values pushed and dropped through a multi-value construct
			ts := []ValType{g.pickType("mv1"), g.pickType("mv2")}
			if g.chance("mv3", 30) {
				ts = append(ts, g.pickType("mv3t"))
			}
			code := c.values(ts, d, false)
			return append(code, c.dropValues(ts)...)
		default:
			k := g.intn("stmtflat", 0, 6)
			_ = k
			t := g.pickType("settype")
			ls := c.localsOf(t)
			if len(ls) == 0 {
				ls = []uint32{c.newLocal(t, "v")}
			}
			x := ls[g.intn("setlocal", 0, len(ls)-1)]
			c.tick(1)
			return append(c.expr(t, d), Instr{Op: OpLocalSet, X: x, Sp: c.localRef(x)})
		}
	}
}

// branch emits a conditional (or, rarely, unconditional) branch to an
// enclosing non-loop label, with the values its arity demands.
func (c *fctx) branch(d int) []Instr {
	g := c.g
	var cands []uint32
	for depth := 0; depth < len(c.labels); depth++ {
		l := c.labels[len(c.labels)-1-depth]
		if !l.loop && len(l.arity) <= 1 {
			cands = append(cands, uint32(depth))
		}
	}
	if len(c.f.Type.Results) == 0 && g.chance("brfunc", 15) {
		cands = append(cands, uint32(len(c.labels)))
	}
	if len(cands) == 0 {
		return nil
	}
	depth := cands[g.intn("brdepth", 0, len(cands)-1)]
	var arity []ValType
	if int(depth) < len(c.labels) {
		arity = c.labels[len(c.labels)-1-int(depth)].arity
	} else {
		g.hit(FeatBrFuncLevel)
	}
	var code []Instr
	for _, t := range arity {
		code = append(code, c.expr(t, d)...)
	}
	c.tick(2)
	if g.chance("uncond", 12) {
		code = append(code, Instr{Op: OpBr, X: depth, Sp: c.branchSp(depth)})
		return append(code, c.deadTail(d)...)
	}
	code = append(code, c.expr(I32, d)...)
	code = append(code, Instr{Op: OpBrIf, X: depth, Sp: c.branchSp(depth)})
	// a value-carrying br_if leaves the values on the stack when not taken
	for range arity {
		code = append(code, Instr{Op: OpDrop})
	}
	return code
}

func (c *fctx) loop(d int) []Instr {
	g := c.g
	g.hit(FeatLoop)
	fuel := c.newLocal(I32, "fuel")
	c.reserved[fuel] = true
	n := g.intn("fuel", 1, 4)
	sp := c.localRef(fuel)
	in := Instr{Op: OpLoop, Label: c.maybeLabel("loop")}
	var resT []ValType
	if g.chance("loopresult", 20) {
		resT = []ValType{g.pickType("loopres")}
		in.BT.Results = resT
	}
	// an enclosing block gives the body an exit label
	outer := Instr{Op: OpBlock, Label: c.maybeLabel("exit")}
	useOuter := g.chance("loopexit", 50)
	if useOuter {
		c.push(outer.Label, nil, false)
	}
	c.push(in.Label, nil, true)
	c.nest++
	saveMult := c.mult
	c.mult *= n
	body := c.stmts(d-1, 1, 3)
	body = append(body,
		Instr{Op: OpLocalGet, X: fuel, Sp: sp}, i32c(1), Instr{Op: OpNamed("i32.sub")},
		Instr{Op: OpLocalTee, X: fuel, Sp: sp},
		Instr{Op: OpBrIf, X: 0, Sp: c.branchSp(0)})
	c.tick(5)
	c.mult = saveMult
	for _, t := range resT {
		body = append(body, c.expr(t, d-1)...)
	}
	c.nest--
	c.pop()
	in.Then = body
	code := []Instr{i32c(int64(n)), {Op: OpLocalSet, X: fuel, Sp: sp}, in}
	for range resT {
		code = append(code, Instr{Op: OpDrop})
	}
	if useOuter {
		c.pop()
		outer.Then = code
		return []Instr{outer}
	}
	return code
}

func (c *fctx) brTable(d int) []Instr {
	g := c.g
	g.hit(FeatBrTable)
	n := g.intn("brtn", 1, 3)
	// n nested blocks; br_table in the innermost selects which block to leave
	names := make([]string, n)
	for i := range names {
		names[i] = c.maybeLabel("case")
		c.push(names[i], nil, false)
	}
	c.nest++
	idx := c.expr(I32, d-1)
	bt := Instr{Op: OpBrTable}
	for i, k := 0, g.intn("brtargets", 1, 5); i < k; i++ {
		dp := uint32(g.intn("brtdepth", 0, n-1))
		bt.Targets = append(bt.Targets, dp)
		bt.Sp.TargetsByName = append(bt.Sp.TargetsByName, c.branchSp(dp).ByName)
	}
	inner := append(idx, bt)
	inner = append(inner, c.deadTail(d-1)...)
	c.tick(3)
	// unwind: after each end, some statements
	code := inner
	for i := n - 1; i >= 0; i-- {
		c.pop()
		blk := Instr{Op: OpBlock, Label: names[i], Then: code}
		code = []Instr{blk}
		if i > 0 {
			code = append(code, c.stmts(d-1, 0, 1)...)
		}
	}
	c.nest--
	return code
}

// ---------------------------------------------------------------- designated trap

func (c *fctx) trapSite() []Instr {
	g := c.g
	m := g.m
	var kinds []string
	for _, k := range TrapKinds {
		switch k {
		case "oobLoad", "oobStore":
			if !m.HasMemory() {
				continue
			}
		case "indirectNull", "indirectOOB":
			if m.Table == nil || len(m.Types) == 0 {
				continue
			}
		case "indirectSig":
			if m.Table == nil || len(m.Types) < 2 || c.sigMismatchSlot() < 0 {
				continue
			}
		}
		kinds = append(kinds, k)
	}
	k := kinds[g.intn("trapkind", 0, len(kinds)-1)]
	g.trap.Kind = k
	g.hit(FeatTrap)
	g.feat["trap/"+k]++
	f32c := func(v float32, lit string) Instr {
		return Instr{Op: OpF32Const, F: uint64(math.Float32bits(v)), Sp: Spelling{Lit: lit}}
	}
	switch k {
	case "div0":
		return []Instr{i32c(1), i32c(0), {Op: OpNamed("i32.div_s")}, {Op: OpDrop}}
	case "divOverflow":
		return []Instr{{Op: OpI64Const, I: math.MinInt64}, {Op: OpI64Const, I: -1}, {Op: OpNamed("i64.div_s")}, {Op: OpDrop}}
	case "truncRange":
		return []Instr{f32c(3e9, "3e9"), {Op: OpNamed("i32.trunc_f32_s")}, {Op: OpDrop}}
	case "truncNaN":
		return []Instr{f32c(0, "0"), f32c(0, "0.0"), {Op: OpNamed("f32.div")}, {Op: OpNamed("i64.trunc_f32_u")}, {Op: OpDrop}}
	case "oobLoad":
		return []Instr{i32c(-1), {Op: OpNamed("i32.load"), Align: 2}, {Op: OpDrop}}
	case "oobStore":
		return []Instr{i32c(-4), {Op: OpI64Const, I: 1}, {Op: OpNamed("i64.store"), Align: 3, Offset: 8}}
	case "unreachable":
		return []Instr{{Op: OpUnreachable}}
	}
	// indirect traps: build arguments for type ti, then the slot
	ti := uint32(g.intn("traptype", 0, len(m.Types)-1))
	slot := int64(len(g.slots) - 1) // always null
	switch k {
	case "indirectOOB":
		slot = int64(len(g.slots)) + int64(g.intn("oobslot", 0, 3))
		if m.Table.Lim.HasMax {
			slot = int64(m.Table.Lim.Max) + 1
		}
	case "indirectSig":
		s := c.sigMismatchSlot()
		slot = int64(s)
		fi := uint32(g.slots[s])
		ft := m.FuncTypeOf(fi)
		for i, td := range m.Types {
			if !td.Type.Equal(ft) {
				ti = uint32(i)
				break
			}
		}
	}
	var code []Instr
	ft := m.Types[ti].Type
	for _, p := range ft.Params {
		code = append(code, g.constInstr(p, "traparg"))
	}
	code = append(code, i32c(slot), Instr{Op: OpCallIndirect, X: ti, Sp: Spelling{OmitTable: true}})
	for range ft.Results {
		code = append(code, Instr{Op: OpDrop})
	}
	return code
}

// sigMismatchSlot finds a filled slot and an explicit type different from the
// slot's function type.
func (c *fctx) sigMismatchSlot() int {
	g := c.g
	for s, fi := range g.slots {
		if fi < 0 {
			continue
		}
		ft := g.m.FuncTypeOf(uint32(fi))
		for _, td := range g.m.Types {
			if !td.Type.Equal(ft) {
				return s
			}
		}
	}
	return -1
}
