package c20

import (
	"encoding/json"
	"fmt"
	"os"
	"path/filepath"
	"testing"

	"wa-lang.org/wa/zverif/harness/core"
)

// TestMakeCorpus (development aid, only with C20_MAKE_CORPUS=<dir>): writes
// the hand-minimised reproducers of the findings as replay files, each
// evaluated against the tree the binary was built from (a file is written only
// when the case violates the property there).
func TestMakeCorpus(t *testing.T) {
	dir := os.Getenv("C20_MAKE_CORPUS")
	if dir == "" {
		t.Skip("development aid")
	}
	rv := func(name string, o rvOps, xlen int) string { return fmt.Sprintf("%08x", rvEncode(rvLookup(name), o, xlen)) }
	la := func(name string, o laOps) string { return fmt.Sprintf("%08x", laEncode(laLookup(name), o)) }
	x := func(kv ...uint64) (r [32]uint64) {
		for i := 0; i+1 < len(kv); i += 2 {
			r[kv[i]] = kv[i+1]
		}
		return
	}
	f0 := map[string]string{"0": "0"}
	const pc = 0x80000000
	const lapc = 0x120000000
	cases := []struct {
		file string
		test string
		k    kase
	}{
		{"f0-cleared-rv64-nop", "StepRV64", kase{Arch: "rv64", Word: rv("ADDI", rvOps{}, 64), PC: pc, Note: "addi x0,x0,0 with f0 = 0.5"}},
		{"f0-cleared-la64-or", "StepLA64", kase{Arch: "la64", Word: la("OR", laOps{}), PC: lapc, Note: "or $r0,$r0,$r0 with f0 = 0.5"}},
		{"rv64-bge-equal", "StepRV64", kase{Arch: "rv64", Word: rv("BGE", rvOps{rs1: 1, rs2: 2, imm: 8}, 64), PC: pc, X: x(1, 5, 2, 5), F: f0}},
		{"rv64-bgeu-equal", "StepRV64", kase{Arch: "rv64", Word: rv("BGEU", rvOps{rs1: 1, rs2: 2, imm: 8}, 64), PC: pc, X: x(1, 5, 2, 5), F: f0}},
		{"rv64-sll-rs2", "StepRV64", kase{Arch: "rv64", Word: rv("SLL", rvOps{rd: 3, rs1: 1, rs2: 2}, 64), PC: pc, X: x(1, 1, 2, 3), F: f0}},
		{"rv64-sra-rs2", "StepRV64", kase{Arch: "rv64", Word: rv("SRA", rvOps{rd: 3, rs1: 1, rs2: 2}, 64), PC: pc, X: x(1, ^uint64(7), 2, 1), F: f0}},
		{"rv64-sd-noop", "StepRV64", kase{Arch: "rv64", Word: rv("SD", rvOps{rs1: 1, rs2: 2}, 64), PC: pc, X: x(1, 0x80002000, 2, 0x1122334455667788), F: f0}},
		{"rv64-rem-int32", "StepRV64", kase{Arch: "rv64", Word: rv("REM", rvOps{rd: 3, rs1: 1, rs2: 2}, 64), PC: pc, X: x(1, 0x100000005, 2, 3), F: f0}},
		{"rv64-rem-int32-panic", "StepRV64", kase{Arch: "rv64", Word: rv("REM", rvOps{rd: 3, rs1: 1, rs2: 2}, 64), PC: pc, X: x(1, 7, 2, 0x100000000), F: f0}},
		{"rv32-slt-unsigned", "StepRV32", kase{Arch: "rv32", Word: rv("SLT", rvOps{rd: 3, rs1: 1, rs2: 2}, 32), PC: pc, X: x(1, 0x80000000, 2, 0), F: f0}},
		{"rv32-srai-logical", "StepRV32", kase{Arch: "rv32", Word: rv("SRA", rvOps{rd: 3, rs1: 1, rs2: 2}, 32), PC: pc, X: x(1, 0x80000000, 2, 4), F: f0, Note: "needs the SLL/SRL/SRA fix first"}},
		{"rv32-blt-unsigned", "StepRV32", kase{Arch: "rv32", Word: rv("BLT", rvOps{rs1: 1, rs2: 2, imm: 8}, 32), PC: pc, X: x(1, 0xffffffff, 2, 0), F: f0}},
		{"rv64-srlw", "StepRV64", kase{Arch: "rv64", Word: rv("SRLW", rvOps{rd: 3, rs1: 1, rs2: 2}, 64), PC: pc, X: x(1, 0x80000000, 2, 4), F: f0}},
		{"rv64-sraw", "StepRV64", kase{Arch: "rv64", Word: rv("SRAW", rvOps{rd: 3, rs1: 1, rs2: 2}, 64), PC: pc, X: x(1, 0x80000000, 2, 4), F: f0}},
		{"rv64-sllw", "StepRV64", kase{Arch: "rv64", Word: rv("SLLW", rvOps{rd: 3, rs1: 1, rs2: 2}, 64), PC: pc, X: x(1, 1, 2, 4), F: f0}},
		{"rv64-auipc-shift", "StepRV64", kase{Arch: "rv64", Word: rv("AUIPC", rvOps{rd: 3, imm: 0x1000}, 64), PC: pc, F: f0}},
		{"rv64-jalr-rd-eq-rs1", "StepRV64", kase{Arch: "rv64", Word: rv("JALR", rvOps{rd: 1, rs1: 1}, 64), PC: pc, X: x(1, 0x80001000), F: f0}},
		{"rv64-jalr-bit0", "StepRV64", kase{Arch: "rv64", Word: rv("JALR", rvOps{rd: 0, rs1: 1, imm: 1}, 64), PC: pc, X: x(1, 0x80001000), F: f0}},
		{"rv64-divw-low-word-zero-panic", "StepRV64", kase{Arch: "rv64", Word: rv("DIVW", rvOps{rd: 3, rs1: 1, rs2: 2}, 64), PC: pc, X: x(1, 7, 2, 0x100000000), F: f0}},
		{"rv64-divuw-sign-extend", "StepRV64", kase{Arch: "rv64", Word: rv("DIVUW", rvOps{rd: 3, rs1: 1, rs2: 2}, 64), PC: pc, X: x(1, 0xffffffff, 2, 1), F: f0}},
		{"rv64-remw-by-zero", "StepRV64", kase{Arch: "rv64", Word: rv("REMW", rvOps{rd: 3, rs1: 1, rs2: 0}, 64), PC: pc, X: x(1, 0x100000005), F: f0}},
		{"rv64-beq-backward", "StepRV64", kase{Arch: "rv64", Word: rv("BEQ", rvOps{imm: -4}, 64), PC: pc, F: f0}},
		{"rv64-srai-decoded-as-srli", "StepRV64", kase{Arch: "rv64", Word: rv("SRAI", rvOps{rd: 3, rs1: 1, imm: 1}, 64), PC: pc, X: x(1, ^uint64(7)), F: f0}},
		{"rv64-sraiw-decoded-as-srliw", "StepRV64", kase{Arch: "rv64", Word: rv("SRAIW", rvOps{rd: 3, rs1: 1, imm: 1}, 64), PC: pc, X: x(1, 0xfffffff8), F: f0}},
		{"rv64-ecall-panic", "SupportMatrix", kase{Arch: "rv64", Word: "00000073", Src: "repo:ECALL", PC: pc, F: f0}},
		{"la64-beq-compares-r0", "StepLA64", kase{Arch: "la64", Word: la("BEQ", laOps{rj: 1, rd: 2, imm: 8}), PC: lapc, X: x(1, 5, 2, 5), F: f0}},
		{"la64-blt-compares-r0", "StepLA64", kase{Arch: "la64", Word: la("BLT", laOps{rj: 1, rd: 2, imm: 8}), PC: lapc, X: x(1, 1, 2, 5), F: f0}},
		{"la64-addi-w-64bit", "StepLA64", kase{Arch: "la64", Word: la("ADDI.W", laOps{rd: 3, rj: 1, imm: 1}), PC: lapc, X: x(1, 0x7fffffff), F: f0}},
		{"la64-pcaddu12i-shift", "StepLA64", kase{Arch: "la64", Word: la("PCADDU12I", laOps{rd: 3, imm: 1}), PC: lapc, F: f0}},
		{"la64-srli-w-zero-shift", "StepLA64", kase{Arch: "la64", Word: la("SRLI.W", laOps{rd: 3, rj: 1, imm: 0}), PC: lapc, X: x(1, 0x80000000), F: f0}},
	}
	os.MkdirAll(dir, 0o755)
	for _, c := range cases {
		k := c.k
		_, key, what := evalCase(&k)
		if key == "" {
			t.Logf("%-34s holds on this tree", c.file)
			continue
		}
		raw, _ := json.Marshal(&k)
		rf := core.ReplayFile{Property: prop, Test: c.test, Key: key, What: what, Seed: 0, Case: raw}
		data, _ := json.MarshalIndent(rf, "", " ")
		os.WriteFile(filepath.Join(dir, c.file+".json"), data, 0o644)
		t.Logf("%-34s %s: %.160s", c.file, key, what)
	}
}
