package c20

// Reference single-step interpreter for the LoongArch (LA64) basic integer
// instructions and the four basic FP arithmetic instructions, written from the
// LoongArch reference manual volume 1 (v1.10): semantics from chapter 2 / 3,
// encodings from appendix B.  One function per instruction.
//
// Not modelled (the result is "any value" for some operands, or the
// instruction needs state the emulator does not expose): DIV/MOD, atomics,
// CSR/privileged, FP other than FADD/FSUB/FMUL/FDIV.

type laFmt int

const (
	la3R       laFmt = iota // rd, rj, rk
	la2R                    // rd, rj
	la2RUi5                 // rd, rj, ui5
	la2RUi6                 // rd, rj, ui6
	la2RSi12                // rd, rj, si12
	la2RUi12                // rd, rj, ui12
	la1RSi20                // rd, si20
	laBrRjRd                // rj, rd, offs16
	laBrRj                  // rj, offs21
	laBr26                  // offs26
	laJirl                  // rd, rj, offs16
	la3F                    // fd, fj, fk
	la2RSi16                // rd, rj, si16 (ADDU16I.D)
	la3RSa2                 // rd, rj, rk, sa2
)

// laOps are the decoded operand fields (register numbers, immediate already
// sign- or zero-extended as the format says; branch offsets already << 2).
type laOps struct {
	rd, rj, rk int
	imm        int64
}

type laInsn struct {
	name        string
	fmt         laFmt
	mask, value uint32
	exec        func(m *Machine, o laOps, r *StepInfo)
}

const (
	m3R   = 0xffff8000
	m2R   = 0xfffffc00
	mI12  = 0xffc00000
	mUi6  = 0xffff0000
	mI20  = 0xfe000000
	mOp6  = 0xfc000000
	mSa2  = 0xfffe0000
	mSa2b = 0xfffe0000
)

var laTable = []laInsn{
	{"ADD.W", la3R, m3R, 0x00100000, laADDW},
	{"ADD.D", la3R, m3R, 0x00108000, laADDD},
	{"SUB.W", la3R, m3R, 0x00110000, laSUBW},
	{"SUB.D", la3R, m3R, 0x00118000, laSUBD},
	{"SLT", la3R, m3R, 0x00120000, laSLT},
	{"SLTU", la3R, m3R, 0x00128000, laSLTU},
	{"MASKEQZ", la3R, m3R, 0x00130000, laMASKEQZ},
	{"MASKNEZ", la3R, m3R, 0x00138000, laMASKNEZ},
	{"NOR", la3R, m3R, 0x00140000, laNOR},
	{"AND", la3R, m3R, 0x00148000, laAND},
	{"OR", la3R, m3R, 0x00150000, laOR},
	{"XOR", la3R, m3R, 0x00158000, laXOR},
	{"ORN", la3R, m3R, 0x00160000, laORN},
	{"ANDN", la3R, m3R, 0x00168000, laANDN},
	{"SLL.W", la3R, m3R, 0x00170000, laSLLW},
	{"SRL.W", la3R, m3R, 0x00178000, laSRLW},
	{"SRA.W", la3R, m3R, 0x00180000, laSRAW},
	{"SLL.D", la3R, m3R, 0x00188000, laSLLD},
	{"SRL.D", la3R, m3R, 0x00190000, laSRLD},
	{"SRA.D", la3R, m3R, 0x00198000, laSRAD},
	{"ROTR.W", la3R, m3R, 0x001b0000, laROTRW},
	{"ROTR.D", la3R, m3R, 0x001b8000, laROTRD},
	{"MUL.W", la3R, m3R, 0x001c0000, laMULW},
	{"MULH.W", la3R, m3R, 0x001c8000, laMULHW},
	{"MULH.WU", la3R, m3R, 0x001d0000, laMULHWU},
	{"MUL.D", la3R, m3R, 0x001d8000, laMULD},
	{"MULH.D", la3R, m3R, 0x001e0000, laMULHD},
	{"MULH.DU", la3R, m3R, 0x001e8000, laMULHDU},
	{"MULW.D.W", la3R, m3R, 0x001f0000, laMULWDW},
	{"MULW.D.WU", la3R, m3R, 0x001f8000, laMULWDWU},
	{"ALSL.W", la3RSa2, mSa2, 0x00040000, laALSLW},
	{"ALSL.WU", la3RSa2, mSa2, 0x00060000, laALSLWU},
	{"ALSL.D", la3RSa2, mSa2, 0x002c0000, laALSLD},
	{"EXT.W.H", la2R, m2R, 0x00005800, laEXTWH},
	{"EXT.W.B", la2R, m2R, 0x00005c00, laEXTWB},

	{"SLLI.W", la2RUi5, m3R, 0x00408000, laSLLIW},
	{"SLLI.D", la2RUi6, mUi6, 0x00410000, laSLLID},
	{"SRLI.W", la2RUi5, m3R, 0x00448000, laSRLIW},
	{"SRLI.D", la2RUi6, mUi6, 0x00450000, laSRLID},
	{"SRAI.W", la2RUi5, m3R, 0x00488000, laSRAIW},
	{"SRAI.D", la2RUi6, mUi6, 0x00490000, laSRAID},
	{"ROTRI.W", la2RUi5, m3R, 0x004c8000, laROTRIW},
	{"ROTRI.D", la2RUi6, mUi6, 0x004d0000, laROTRID},

	{"SLTI", la2RSi12, mI12, 0x02000000, laSLTI},
	{"SLTUI", la2RSi12, mI12, 0x02400000, laSLTUI},
	{"ADDI.W", la2RSi12, mI12, 0x02800000, laADDIW},
	{"ADDI.D", la2RSi12, mI12, 0x02c00000, laADDID},
	{"LU52I.D", la2RSi12, mI12, 0x03000000, laLU52ID},
	{"ANDI", la2RUi12, mI12, 0x03400000, laANDI},
	{"ORI", la2RUi12, mI12, 0x03800000, laORI},
	{"XORI", la2RUi12, mI12, 0x03c00000, laXORI},
	{"ADDU16I.D", la2RSi16, mOp6, 0x10000000, laADDU16ID},

	{"LU12I.W", la1RSi20, mI20, 0x14000000, laLU12IW},
	{"LU32I.D", la1RSi20, mI20, 0x16000000, laLU32ID},
	{"PCADDI", la1RSi20, mI20, 0x18000000, laPCADDI},
	{"PCALAU12I", la1RSi20, mI20, 0x1a000000, laPCALAU12I},
	{"PCADDU12I", la1RSi20, mI20, 0x1c000000, laPCADDU12I},
	{"PCADDU18I", la1RSi20, mI20, 0x1e000000, laPCADDU18I},

	{"LD.B", la2RSi12, mI12, 0x28000000, laLDB},
	{"LD.H", la2RSi12, mI12, 0x28400000, laLDH},
	{"LD.W", la2RSi12, mI12, 0x28800000, laLDW},
	{"LD.D", la2RSi12, mI12, 0x28c00000, laLDD},
	{"ST.B", la2RSi12, mI12, 0x29000000, laSTB},
	{"ST.H", la2RSi12, mI12, 0x29400000, laSTH},
	{"ST.W", la2RSi12, mI12, 0x29800000, laSTW},
	{"ST.D", la2RSi12, mI12, 0x29c00000, laSTD},
	{"LD.BU", la2RSi12, mI12, 0x2a000000, laLDBU},
	{"LD.HU", la2RSi12, mI12, 0x2a400000, laLDHU},
	{"LD.WU", la2RSi12, mI12, 0x2a800000, laLDWU},

	{"BEQZ", laBrRj, mOp6, 0x40000000, laBEQZ},
	{"BNEZ", laBrRj, mOp6, 0x44000000, laBNEZ},
	{"JIRL", laJirl, mOp6, 0x4c000000, laJIRL},
	{"B", laBr26, mOp6, 0x50000000, laB},
	{"BL", laBr26, mOp6, 0x54000000, laBL},
	{"BEQ", laBrRjRd, mOp6, 0x58000000, laBEQ},
	{"BNE", laBrRjRd, mOp6, 0x5c000000, laBNE},
	{"BLT", laBrRjRd, mOp6, 0x60000000, laBLT},
	{"BGE", laBrRjRd, mOp6, 0x64000000, laBGE},
	{"BLTU", laBrRjRd, mOp6, 0x68000000, laBLTU},
	{"BGEU", laBrRjRd, mOp6, 0x6c000000, laBGEU},

	{"FADD.S", la3F, m3R, 0x01008000, laFADDS},
	{"FADD.D", la3F, m3R, 0x01010000, laFADDD},
	{"FSUB.S", la3F, m3R, 0x01028000, laFSUBS},
	{"FSUB.D", la3F, m3R, 0x01030000, laFSUBD},
	{"FMUL.S", la3F, m3R, 0x01048000, laFMULS},
	{"FMUL.D", la3F, m3R, 0x01050000, laFMULD},
	{"FDIV.S", la3F, m3R, 0x01068000, laFDIVS},
	{"FDIV.D", la3F, m3R, 0x01070000, laFDIVD},
}

func laLookup(name string) *laInsn {
	for i := range laTable {
		if laTable[i].name == name {
			return &laTable[i]
		}
	}
	return nil
}

// laDecode decodes one word.  Words outside the table are reported as
// Unmodelled (the reference does not know the complete LoongArch opcode map,
// so it cannot tell reserved from valid-but-unmodelled).
func laDecode(w uint32) (*laInsn, laOps, Outcome) {
	var o laOps
	for i := range laTable {
		in := &laTable[i]
		if w&in.mask != in.value {
			continue
		}
		o.rd = int(bitsOf(w, 4, 0))
		o.rj = int(bitsOf(w, 9, 5))
		o.rk = int(bitsOf(w, 14, 10))
		switch in.fmt {
		case la2RUi5:
			o.imm = int64(bitsOf(w, 14, 10))
		case la2RUi6:
			o.imm = int64(bitsOf(w, 15, 10))
		case la2RSi12:
			o.imm = int64(sext(uint64(bitsOf(w, 21, 10)), 12))
		case la2RUi12:
			o.imm = int64(bitsOf(w, 21, 10))
		case la2RSi16:
			o.imm = int64(sext(uint64(bitsOf(w, 25, 10)), 16))
		case la1RSi20:
			o.imm = int64(sext(uint64(bitsOf(w, 24, 5)), 20))
		case laBrRjRd, laJirl:
			o.imm = int64(sext(uint64(bitsOf(w, 25, 10)), 16)) << 2
		case laBrRj:
			o.imm = int64(sext(uint64(bitsOf(w, 4, 0)<<16|bitsOf(w, 25, 10)), 21)) << 2
		case laBr26:
			o.imm = int64(sext(uint64(bitsOf(w, 9, 0)<<16|bitsOf(w, 25, 10)), 26)) << 2
		case la3RSa2:
			o.imm = int64(bitsOf(w, 16, 15))
		}
		return in, o, OK
	}
	return nil, o, Unmodelled
}

// laEncode is the inverse of laDecode.
func laEncode(in *laInsn, o laOps) uint32 {
	rd, rj, rk := uint32(o.rd)&31, uint32(o.rj)&31, uint32(o.rk)&31
	imm := uint32(o.imm)
	w := in.value
	switch in.fmt {
	case la3R, la3F:
		return w | rk<<10 | rj<<5 | rd
	case la2R:
		return w | rj<<5 | rd
	case la2RUi5:
		return w | (imm&31)<<10 | rj<<5 | rd
	case la2RUi6:
		return w | (imm&63)<<10 | rj<<5 | rd
	case la2RSi12, la2RUi12:
		return w | (imm&0xfff)<<10 | rj<<5 | rd
	case la2RSi16:
		return w | (imm&0xffff)<<10 | rj<<5 | rd
	case la1RSi20:
		return w | (imm&0xfffff)<<5 | rd
	case laBrRjRd, laJirl:
		return w | ((imm>>2)&0xffff)<<10 | rj<<5 | rd
	case laBrRj:
		off := imm >> 2
		return w | (off&0xffff)<<10 | rj<<5 | (off>>16)&31
	case laBr26:
		off := imm >> 2
		return w | (off&0xffff)<<10 | (off>>16)&0x3ff
	case la3RSa2:
		return w | (imm&3)<<15 | rk<<10 | rj<<5 | rd
	}
	panic("laEncode: bad format")
}

// StepLA executes one instruction word on m (XLen must be 64).
func (m *Machine) StepLA(w uint32) StepInfo {
	info := StepInfo{WroteX: -1}
	in, o, st := laDecode(w)
	if in == nil {
		info.Outcome, info.Why = st, "not in the reference model"
		return info
	}
	info.Mn = in.name
	m.next = m.PC + 4
	in.exec(m, o, &info)
	if info.Outcome == OK {
		m.PC = m.next
	}
	return info
}

// ---- arithmetic

func laADDW(m *Machine, o laOps, r *StepInfo) {
	m.tagNeg(r, sext32(m.rx(o.rj)), sext32(m.rx(o.rk)))
	m.wx(o.rd, sext32(m.rx(o.rj)+m.rx(o.rk)), r)
}
func laADDD(m *Machine, o laOps, r *StepInfo) {
	m.tagNeg(r, m.rx(o.rj), m.rx(o.rk))
	m.wx(o.rd, m.rx(o.rj)+m.rx(o.rk), r)
}
func laSUBW(m *Machine, o laOps, r *StepInfo) {
	m.tagNeg(r, sext32(m.rx(o.rj)), sext32(m.rx(o.rk)))
	m.wx(o.rd, sext32(m.rx(o.rj)-m.rx(o.rk)), r)
}
func laSUBD(m *Machine, o laOps, r *StepInfo) {
	m.tagNeg(r, m.rx(o.rj), m.rx(o.rk))
	m.wx(o.rd, m.rx(o.rj)-m.rx(o.rk), r)
}
func laSLT(m *Machine, o laOps, r *StepInfo) {
	m.tagNeg(r, m.rx(o.rj), m.rx(o.rk))
	m.wx(o.rd, b2u(int64(m.rx(o.rj)) < int64(m.rx(o.rk))), r)
}
func laSLTU(m *Machine, o laOps, r *StepInfo) {
	m.tagNeg(r, m.rx(o.rj), m.rx(o.rk))
	m.wx(o.rd, b2u(m.rx(o.rj) < m.rx(o.rk)), r)
}
func laMASKEQZ(m *Machine, o laOps, r *StepInfo) {
	v := m.rx(o.rj)
	if m.rx(o.rk) == 0 {
		v = 0
	}
	m.wx(o.rd, v, r)
}
func laMASKNEZ(m *Machine, o laOps, r *StepInfo) {
	v := m.rx(o.rj)
	if m.rx(o.rk) != 0 {
		v = 0
	}
	m.wx(o.rd, v, r)
}
func laNOR(m *Machine, o laOps, r *StepInfo)  { m.wx(o.rd, ^(m.rx(o.rj) | m.rx(o.rk)), r) }
func laAND(m *Machine, o laOps, r *StepInfo)  { m.wx(o.rd, m.rx(o.rj)&m.rx(o.rk), r) }
func laOR(m *Machine, o laOps, r *StepInfo)   { m.wx(o.rd, m.rx(o.rj)|m.rx(o.rk), r) }
func laXOR(m *Machine, o laOps, r *StepInfo)  { m.wx(o.rd, m.rx(o.rj)^m.rx(o.rk), r) }
func laORN(m *Machine, o laOps, r *StepInfo)  { m.wx(o.rd, m.rx(o.rj)|^m.rx(o.rk), r) }
func laANDN(m *Machine, o laOps, r *StepInfo) { m.wx(o.rd, m.rx(o.rj)&^m.rx(o.rk), r) }

func (m *Machine) laShamt(o laOps, width uint, r *StepInfo) uint {
	v := m.rx(o.rk)
	if v >= uint64(width) {
		r.tag("shamt-high-bits")
	}
	return uint(v & uint64(width-1))
}

func laSLLW(m *Machine, o laOps, r *StepInfo) {
	m.wx(o.rd, sext32(uint64(uint32(m.rx(o.rj))<<m.laShamt(o, 32, r))), r)
}
func laSRLW(m *Machine, o laOps, r *StepInfo) {
	m.tagNeg(r, sext32(m.rx(o.rj)))
	m.wx(o.rd, sext32(uint64(uint32(m.rx(o.rj))>>m.laShamt(o, 32, r))), r)
}
func laSRAW(m *Machine, o laOps, r *StepInfo) {
	m.tagNeg(r, sext32(m.rx(o.rj)))
	m.wx(o.rd, uint64(int64(int32(uint32(m.rx(o.rj)))>>m.laShamt(o, 32, r))), r)
}
func laSLLD(m *Machine, o laOps, r *StepInfo) { m.wx(o.rd, m.rx(o.rj)<<m.laShamt(o, 64, r), r) }
func laSRLD(m *Machine, o laOps, r *StepInfo) {
	m.tagNeg(r, m.rx(o.rj))
	m.wx(o.rd, m.rx(o.rj)>>m.laShamt(o, 64, r), r)
}
func laSRAD(m *Machine, o laOps, r *StepInfo) {
	m.tagNeg(r, m.rx(o.rj))
	m.wx(o.rd, uint64(int64(m.rx(o.rj))>>m.laShamt(o, 64, r)), r)
}

func rotr32(v uint32, n uint) uint32 { n &= 31; return v>>n | v<<((32-n)&31) }
func rotr64(v uint64, n uint) uint64 { n &= 63; return v>>n | v<<((64-n)&63) }

func laROTRW(m *Machine, o laOps, r *StepInfo) {
	m.wx(o.rd, sext32(uint64(rotr32(uint32(m.rx(o.rj)), m.laShamt(o, 32, r)))), r)
}
func laROTRD(m *Machine, o laOps, r *StepInfo) {
	m.wx(o.rd, rotr64(m.rx(o.rj), m.laShamt(o, 64, r)), r)
}

func laMULW(m *Machine, o laOps, r *StepInfo) {
	a, b := int64(int32(uint32(m.rx(o.rj)))), int64(int32(uint32(m.rx(o.rk))))
	m.tagNeg(r, uint64(a), uint64(b))
	m.wx(o.rd, sext32(mulHigh(bigS(a), bigS(b), 0)), r)
}
func laMULHW(m *Machine, o laOps, r *StepInfo) {
	a, b := int64(int32(uint32(m.rx(o.rj)))), int64(int32(uint32(m.rx(o.rk))))
	m.tagNeg(r, uint64(a), uint64(b))
	m.wx(o.rd, sext32(mulHigh(bigS(a), bigS(b), 32)), r)
}
func laMULHWU(m *Machine, o laOps, r *StepInfo) {
	a, b := uint64(uint32(m.rx(o.rj))), uint64(uint32(m.rx(o.rk)))
	m.wx(o.rd, sext32(mulHigh(bigU(a), bigU(b), 32)), r)
}
func laMULD(m *Machine, o laOps, r *StepInfo) {
	m.tagNeg(r, m.rx(o.rj), m.rx(o.rk))
	m.wx(o.rd, mulHigh(bigS(int64(m.rx(o.rj))), bigS(int64(m.rx(o.rk))), 0), r)
}
func laMULHD(m *Machine, o laOps, r *StepInfo) {
	m.tagNeg(r, m.rx(o.rj), m.rx(o.rk))
	m.wx(o.rd, mulHigh(bigS(int64(m.rx(o.rj))), bigS(int64(m.rx(o.rk))), 64), r)
}
func laMULHDU(m *Machine, o laOps, r *StepInfo) {
	m.wx(o.rd, mulHigh(bigU(m.rx(o.rj)), bigU(m.rx(o.rk)), 64), r)
}
func laMULWDW(m *Machine, o laOps, r *StepInfo) {
	a, b := int64(int32(uint32(m.rx(o.rj)))), int64(int32(uint32(m.rx(o.rk))))
	m.tagNeg(r, uint64(a), uint64(b))
	m.wx(o.rd, mulHigh(bigS(a), bigS(b), 0), r)
}
func laMULWDWU(m *Machine, o laOps, r *StepInfo) {
	a, b := uint64(uint32(m.rx(o.rj))), uint64(uint32(m.rx(o.rk)))
	m.wx(o.rd, mulHigh(bigU(a), bigU(b), 0), r)
}

// ALSL: (rj << (sa2+1)) + rk
func laALSLW(m *Machine, o laOps, r *StepInfo) {
	m.wx(o.rd, sext32(m.rx(o.rj)<<uint(o.imm+1)+m.rx(o.rk)), r)
}
func laALSLWU(m *Machine, o laOps, r *StepInfo) {
	m.wx(o.rd, uint64(uint32(m.rx(o.rj)<<uint(o.imm+1)+m.rx(o.rk))), r)
}
func laALSLD(m *Machine, o laOps, r *StepInfo) {
	m.wx(o.rd, m.rx(o.rj)<<uint(o.imm+1)+m.rx(o.rk), r)
}
func laEXTWH(m *Machine, o laOps, r *StepInfo) { m.wx(o.rd, sext(m.rx(o.rj), 16), r) }
func laEXTWB(m *Machine, o laOps, r *StepInfo) { m.wx(o.rd, sext(m.rx(o.rj), 8), r) }

// ---- immediates

func laSLLIW(m *Machine, o laOps, r *StepInfo) {
	m.wx(o.rd, sext32(uint64(uint32(m.rx(o.rj))<<uint(o.imm))), r)
}
func laSRLIW(m *Machine, o laOps, r *StepInfo) {
	m.tagNeg(r, sext32(m.rx(o.rj)))
	m.wx(o.rd, sext32(uint64(uint32(m.rx(o.rj))>>uint(o.imm))), r)
}
func laSRAIW(m *Machine, o laOps, r *StepInfo) {
	m.tagNeg(r, sext32(m.rx(o.rj)))
	m.wx(o.rd, uint64(int64(int32(uint32(m.rx(o.rj)))>>uint(o.imm))), r)
}
func laROTRIW(m *Machine, o laOps, r *StepInfo) {
	m.wx(o.rd, sext32(uint64(rotr32(uint32(m.rx(o.rj)), uint(o.imm)))), r)
}
func laSLLID(m *Machine, o laOps, r *StepInfo) { m.wx(o.rd, m.rx(o.rj)<<uint(o.imm), r) }
func laSRLID(m *Machine, o laOps, r *StepInfo) {
	m.tagNeg(r, m.rx(o.rj))
	m.wx(o.rd, m.rx(o.rj)>>uint(o.imm), r)
}
func laSRAID(m *Machine, o laOps, r *StepInfo) {
	m.tagNeg(r, m.rx(o.rj))
	m.wx(o.rd, uint64(int64(m.rx(o.rj))>>uint(o.imm)), r)
}
func laROTRID(m *Machine, o laOps, r *StepInfo) { m.wx(o.rd, rotr64(m.rx(o.rj), uint(o.imm)), r) }

func laSLTI(m *Machine, o laOps, r *StepInfo) {
	m.tagNeg(r, m.rx(o.rj), uint64(o.imm))
	m.wx(o.rd, b2u(int64(m.rx(o.rj)) < o.imm), r)
}
func laSLTUI(m *Machine, o laOps, r *StepInfo) {
	m.tagNeg(r, m.rx(o.rj), uint64(o.imm))
	m.wx(o.rd, b2u(m.rx(o.rj) < uint64(o.imm)), r)
}
func laADDIW(m *Machine, o laOps, r *StepInfo) {
	m.tagNeg(r, sext32(m.rx(o.rj)), uint64(o.imm))
	m.wx(o.rd, sext32(m.rx(o.rj)+uint64(o.imm)), r)
}
func laADDID(m *Machine, o laOps, r *StepInfo) {
	m.tagNeg(r, m.rx(o.rj), uint64(o.imm))
	m.wx(o.rd, m.rx(o.rj)+uint64(o.imm), r)
}
func laLU52ID(m *Machine, o laOps, r *StepInfo) {
	m.wx(o.rd, uint64(o.imm)<<52|m.rx(o.rj)&(1<<52-1), r)
}
func laANDI(m *Machine, o laOps, r *StepInfo) { m.wx(o.rd, m.rx(o.rj)&uint64(o.imm), r) }
func laORI(m *Machine, o laOps, r *StepInfo)  { m.wx(o.rd, m.rx(o.rj)|uint64(o.imm), r) }
func laXORI(m *Machine, o laOps, r *StepInfo) { m.wx(o.rd, m.rx(o.rj)^uint64(o.imm), r) }
func laADDU16ID(m *Machine, o laOps, r *StepInfo) {
	m.tagNeg(r, uint64(o.imm))
	m.wx(o.rd, m.rx(o.rj)+uint64(o.imm<<16), r)
}

func laLU12IW(m *Machine, o laOps, r *StepInfo) {
	m.tagNeg(r, uint64(o.imm))
	m.wx(o.rd, sext32(uint64(o.imm)<<12), r)
}
func laLU32ID(m *Machine, o laOps, r *StepInfo) {
	m.tagNeg(r, uint64(o.imm))
	m.wx(o.rd, uint64(o.imm)<<32|m.rx(o.rd)&0xffffffff, r)
}
func laPCADDI(m *Machine, o laOps, r *StepInfo) {
	m.tagNeg(r, uint64(o.imm))
	m.wx(o.rd, m.PC+uint64(o.imm<<2), r)
}
func laPCALAU12I(m *Machine, o laOps, r *StepInfo) {
	m.tagNeg(r, uint64(o.imm))
	m.wx(o.rd, (m.PC+uint64(o.imm<<12))&^0xfff, r)
}
func laPCADDU12I(m *Machine, o laOps, r *StepInfo) {
	m.tagNeg(r, uint64(o.imm))
	m.wx(o.rd, m.PC+uint64(o.imm<<12), r)
}
func laPCADDU18I(m *Machine, o laOps, r *StepInfo) {
	m.tagNeg(r, uint64(o.imm))
	m.wx(o.rd, m.PC+uint64(o.imm<<18), r)
}

// ---- memory

func (m *Machine) laLoad(o laOps, size int, signed bool, r *StepInfo) {
	ea := m.rx(o.rj) + uint64(o.imm)
	v, ok := m.load(ea, size, r)
	if !ok {
		return
	}
	if signed {
		v = sext(v, uint(8*size))
		if int64(v) < 0 {
			r.tag("neg")
		}
	}
	m.wx(o.rd, v, r)
}
func laLDB(m *Machine, o laOps, r *StepInfo)  { m.laLoad(o, 1, true, r) }
func laLDH(m *Machine, o laOps, r *StepInfo)  { m.laLoad(o, 2, true, r) }
func laLDW(m *Machine, o laOps, r *StepInfo)  { m.laLoad(o, 4, true, r) }
func laLDD(m *Machine, o laOps, r *StepInfo)  { m.laLoad(o, 8, false, r) }
func laLDBU(m *Machine, o laOps, r *StepInfo) { m.laLoad(o, 1, false, r) }
func laLDHU(m *Machine, o laOps, r *StepInfo) { m.laLoad(o, 2, false, r) }
func laLDWU(m *Machine, o laOps, r *StepInfo) { m.laLoad(o, 4, false, r) }

func (m *Machine) laStore(o laOps, size int, r *StepInfo) {
	m.store(m.rx(o.rj)+uint64(o.imm), size, m.rx(o.rd), r)
}
func laSTB(m *Machine, o laOps, r *StepInfo) { m.laStore(o, 1, r) }
func laSTH(m *Machine, o laOps, r *StepInfo) { m.laStore(o, 2, r) }
func laSTW(m *Machine, o laOps, r *StepInfo) { m.laStore(o, 4, r) }
func laSTD(m *Machine, o laOps, r *StepInfo) { m.laStore(o, 8, r) }

// ---- control transfer

func (m *Machine) laBranch(cond bool, a, b uint64, o laOps, r *StepInfo) {
	m.tagNeg(r, a, b)
	if a == b {
		r.tag("equal")
	}
	if o.imm < 0 {
		r.tag("backward")
	}
	if cond {
		r.tag("taken")
		m.next = m.PC + uint64(o.imm)
	} else {
		r.tag("not-taken")
	}
}
func laBEQZ(m *Machine, o laOps, r *StepInfo) { m.laBranch(m.rx(o.rj) == 0, m.rx(o.rj), 0, o, r) }
func laBNEZ(m *Machine, o laOps, r *StepInfo) { m.laBranch(m.rx(o.rj) != 0, m.rx(o.rj), 0, o, r) }
func laBEQ(m *Machine, o laOps, r *StepInfo) {
	m.laBranch(m.rx(o.rj) == m.rx(o.rd), m.rx(o.rj), m.rx(o.rd), o, r)
}
func laBNE(m *Machine, o laOps, r *StepInfo) {
	m.laBranch(m.rx(o.rj) != m.rx(o.rd), m.rx(o.rj), m.rx(o.rd), o, r)
}
func laBLT(m *Machine, o laOps, r *StepInfo) {
	m.laBranch(int64(m.rx(o.rj)) < int64(m.rx(o.rd)), m.rx(o.rj), m.rx(o.rd), o, r)
}
func laBGE(m *Machine, o laOps, r *StepInfo) {
	m.laBranch(int64(m.rx(o.rj)) >= int64(m.rx(o.rd)), m.rx(o.rj), m.rx(o.rd), o, r)
}
func laBLTU(m *Machine, o laOps, r *StepInfo) {
	m.laBranch(m.rx(o.rj) < m.rx(o.rd), m.rx(o.rj), m.rx(o.rd), o, r)
}
func laBGEU(m *Machine, o laOps, r *StepInfo) {
	m.laBranch(m.rx(o.rj) >= m.rx(o.rd), m.rx(o.rj), m.rx(o.rd), o, r)
}
func laB(m *Machine, o laOps, r *StepInfo) {
	if o.imm < 0 {
		r.tag("backward")
	}
	m.next = m.PC + uint64(o.imm)
}
func laBL(m *Machine, o laOps, r *StepInfo) {
	if o.imm < 0 {
		r.tag("backward")
	}
	m.wx(1, m.PC+4, r)
	m.next = m.PC + uint64(o.imm)
}
func laJIRL(m *Machine, o laOps, r *StepInfo) {
	t := m.rx(o.rj) + uint64(o.imm)
	if t%4 != 0 {
		r.Outcome, r.Why = EnvDefined, "JIRL target not 4-byte aligned (address error exception on fetch)"
		return
	}
	m.wx(o.rd, m.PC+4, r)
	m.next = t
}

// ---- floating point (round to nearest even, the reset value of FCSR.RM)

func laFADDS(m *Machine, o laOps, r *StepInfo) {
	m.wf(o.rd, float64(float32(m.F[o.rj])+float32(m.F[o.rk])), 32, r)
}
func laFSUBS(m *Machine, o laOps, r *StepInfo) {
	m.wf(o.rd, float64(float32(m.F[o.rj])-float32(m.F[o.rk])), 32, r)
}
func laFMULS(m *Machine, o laOps, r *StepInfo) {
	m.wf(o.rd, float64(float32(m.F[o.rj])*float32(m.F[o.rk])), 32, r)
}
func laFDIVS(m *Machine, o laOps, r *StepInfo) {
	m.wf(o.rd, float64(float32(m.F[o.rj])/float32(m.F[o.rk])), 32, r)
}
func laFADDD(m *Machine, o laOps, r *StepInfo) { m.wf(o.rd, m.F[o.rj]+m.F[o.rk], 64, r) }
func laFSUBD(m *Machine, o laOps, r *StepInfo) { m.wf(o.rd, m.F[o.rj]-m.F[o.rk], 64, r) }
func laFMULD(m *Machine, o laOps, r *StepInfo) { m.wf(o.rd, m.F[o.rj]*m.F[o.rk], 64, r) }
func laFDIVD(m *Machine, o laOps, r *StepInfo) { m.wf(o.rd, m.F[o.rj]/m.F[o.rk], 64, r) }
