package c20

// Reference single-step interpreter for RV32I / RV64I + M, written from the
// RISC-V unprivileged ISA manual.  One function per instruction.

import "fmt"

type rvFmt int

const (
	rvR     rvFmt = iota // rd, rs1, rs2           opcode funct3 funct7
	rvI                  // rd, rs1, imm12         opcode funct3
	rvSh                 // rd, rs1, shamt (XLEN)  opcode funct3 funct6/funct7
	rvShW                // rd, rs1, shamt5 (*W)   opcode funct3 funct7
	rvS                  // rs1, rs2, imm12
	rvB                  // rs1, rs2, imm13
	rvU                  // rd, imm20
	rvJ                  // rd, imm21
	rvFence              // fm/pred/succ in imm, rd/rs1 ignored
)

// rvOps are the decoded operand fields.
type rvOps struct {
	rd, rs1, rs2 int
	imm          int64 // sign-extended immediate (U: already << 12; shifts: shamt)
}

type rvInsn struct {
	name     string
	fmt      rvFmt
	opcode   uint32
	f3, f7   uint32
	rv64only bool
	exec     func(m *Machine, o rvOps, r *StepInfo)
}

const (
	opLOAD   = 0x03
	opMISC   = 0x0f
	opOPIMM  = 0x13
	opAUIPC  = 0x17
	opOPIMMW = 0x1b
	opSTORE  = 0x23
	opOP     = 0x33
	opLUI    = 0x37
	opOPW    = 0x3b
	opBRANCH = 0x63
	opJALR   = 0x67
	opJAL    = 0x6f
	opSYSTEM = 0x73
)

var rvTable = []rvInsn{
	{"LUI", rvU, opLUI, 0, 0, false, rvLUI},
	{"AUIPC", rvU, opAUIPC, 0, 0, false, rvAUIPC},
	{"JAL", rvJ, opJAL, 0, 0, false, rvJAL},
	{"JALR", rvI, opJALR, 0, 0, false, rvJALR},
	{"BEQ", rvB, opBRANCH, 0, 0, false, rvBEQ},
	{"BNE", rvB, opBRANCH, 1, 0, false, rvBNE},
	{"BLT", rvB, opBRANCH, 4, 0, false, rvBLT},
	{"BGE", rvB, opBRANCH, 5, 0, false, rvBGE},
	{"BLTU", rvB, opBRANCH, 6, 0, false, rvBLTU},
	{"BGEU", rvB, opBRANCH, 7, 0, false, rvBGEU},
	{"LB", rvI, opLOAD, 0, 0, false, rvLB},
	{"LH", rvI, opLOAD, 1, 0, false, rvLH},
	{"LW", rvI, opLOAD, 2, 0, false, rvLW},
	{"LBU", rvI, opLOAD, 4, 0, false, rvLBU},
	{"LHU", rvI, opLOAD, 5, 0, false, rvLHU},
	{"SB", rvS, opSTORE, 0, 0, false, rvSB},
	{"SH", rvS, opSTORE, 1, 0, false, rvSH},
	{"SW", rvS, opSTORE, 2, 0, false, rvSW},
	{"ADDI", rvI, opOPIMM, 0, 0, false, rvADDI},
	{"SLTI", rvI, opOPIMM, 2, 0, false, rvSLTI},
	{"SLTIU", rvI, opOPIMM, 3, 0, false, rvSLTIU},
	{"XORI", rvI, opOPIMM, 4, 0, false, rvXORI},
	{"ORI", rvI, opOPIMM, 6, 0, false, rvORI},
	{"ANDI", rvI, opOPIMM, 7, 0, false, rvANDI},
	{"SLLI", rvSh, opOPIMM, 1, 0x00, false, rvSLLI},
	{"SRLI", rvSh, opOPIMM, 5, 0x00, false, rvSRLI},
	{"SRAI", rvSh, opOPIMM, 5, 0x20, false, rvSRAI},
	{"ADD", rvR, opOP, 0, 0x00, false, rvADD},
	{"SUB", rvR, opOP, 0, 0x20, false, rvSUB},
	{"SLL", rvR, opOP, 1, 0x00, false, rvSLL},
	{"SLT", rvR, opOP, 2, 0x00, false, rvSLT},
	{"SLTU", rvR, opOP, 3, 0x00, false, rvSLTU},
	{"XOR", rvR, opOP, 4, 0x00, false, rvXOR},
	{"SRL", rvR, opOP, 5, 0x00, false, rvSRL},
	{"SRA", rvR, opOP, 5, 0x20, false, rvSRA},
	{"OR", rvR, opOP, 6, 0x00, false, rvOR},
	{"AND", rvR, opOP, 7, 0x00, false, rvAND},
	{"FENCE", rvFence, opMISC, 0, 0, false, rvFENCE},

	{"LWU", rvI, opLOAD, 6, 0, true, rvLWU},
	{"LD", rvI, opLOAD, 3, 0, true, rvLD},
	{"SD", rvS, opSTORE, 3, 0, true, rvSD},
	{"ADDIW", rvI, opOPIMMW, 0, 0, true, rvADDIW},
	{"SLLIW", rvShW, opOPIMMW, 1, 0x00, true, rvSLLIW},
	{"SRLIW", rvShW, opOPIMMW, 5, 0x00, true, rvSRLIW},
	{"SRAIW", rvShW, opOPIMMW, 5, 0x20, true, rvSRAIW},
	{"ADDW", rvR, opOPW, 0, 0x00, true, rvADDW},
	{"SUBW", rvR, opOPW, 0, 0x20, true, rvSUBW},
	{"SLLW", rvR, opOPW, 1, 0x00, true, rvSLLW},
	{"SRLW", rvR, opOPW, 5, 0x00, true, rvSRLW},
	{"SRAW", rvR, opOPW, 5, 0x20, true, rvSRAW},

	{"MUL", rvR, opOP, 0, 0x01, false, rvMUL},
	{"MULH", rvR, opOP, 1, 0x01, false, rvMULH},
	{"MULHSU", rvR, opOP, 2, 0x01, false, rvMULHSU},
	{"MULHU", rvR, opOP, 3, 0x01, false, rvMULHU},
	{"DIV", rvR, opOP, 4, 0x01, false, rvDIV},
	{"DIVU", rvR, opOP, 5, 0x01, false, rvDIVU},
	{"REM", rvR, opOP, 6, 0x01, false, rvREM},
	{"REMU", rvR, opOP, 7, 0x01, false, rvREMU},
	{"MULW", rvR, opOPW, 0, 0x01, true, rvMULW},
	{"DIVW", rvR, opOPW, 4, 0x01, true, rvDIVW},
	{"DIVUW", rvR, opOPW, 5, 0x01, true, rvDIVUW},
	{"REMW", rvR, opOPW, 6, 0x01, true, rvREMW},
	{"REMUW", rvR, opOPW, 7, 0x01, true, rvREMUW},
}

func rvLookup(name string) *rvInsn {
	for i := range rvTable {
		if rvTable[i].name == name {
			return &rvTable[i]
		}
	}
	return nil
}

func bitsOf(w uint32, hi, lo uint) uint32 { return (w >> lo) & (1<<(hi-lo+1) - 1) }

// rvDecode decodes one 32-bit word for the given XLEN.  insn == nil with
// st == Unmodelled means a (probably) valid instruction outside the model;
// st == Illegal means reserved for this base ISA + M.
func rvDecode(w uint32, xlen int) (insn *rvInsn, o rvOps, st Outcome, why string) {
	if w&3 != 3 {
		return nil, o, Illegal, "not a 32-bit instruction (low bits != 11)"
	}
	opcode := bitsOf(w, 6, 0)
	f3 := bitsOf(w, 14, 12)
	f7 := bitsOf(w, 31, 25)
	o.rd = int(bitsOf(w, 11, 7))
	o.rs1 = int(bitsOf(w, 19, 15))
	o.rs2 = int(bitsOf(w, 24, 20))
	for i := range rvTable {
		in := &rvTable[i]
		if in.opcode != opcode {
			continue
		}
		switch in.fmt {
		case rvR:
			if in.f3 != f3 || in.f7 != f7 {
				continue
			}
		case rvI:
			if in.f3 != f3 {
				continue
			}
			o.imm = int64(sext(uint64(bitsOf(w, 31, 20)), 12))
		case rvSh:
			if in.f3 != f3 {
				continue
			}
			if xlen == 64 {
				if bitsOf(w, 31, 26) != in.f7>>1 {
					continue
				}
				o.imm = int64(bitsOf(w, 25, 20))
			} else {
				if f7 != in.f7 {
					continue
				}
				o.imm = int64(bitsOf(w, 24, 20))
			}
		case rvShW:
			if in.f3 != f3 || in.f7 != f7 {
				continue
			}
			o.imm = int64(bitsOf(w, 24, 20))
		case rvS:
			if in.f3 != f3 {
				continue
			}
			o.imm = int64(sext(uint64(bitsOf(w, 31, 25)<<5|bitsOf(w, 11, 7)), 12))
		case rvB:
			if in.f3 != f3 {
				continue
			}
			v := bitsOf(w, 31, 31)<<12 | bitsOf(w, 7, 7)<<11 | bitsOf(w, 30, 25)<<5 | bitsOf(w, 11, 8)<<1
			o.imm = int64(sext(uint64(v), 13))
		case rvU:
			o.imm = int64(int32(w & 0xfffff000))
		case rvJ:
			v := bitsOf(w, 31, 31)<<20 | bitsOf(w, 19, 12)<<12 | bitsOf(w, 20, 20)<<11 | bitsOf(w, 30, 21)<<1
			o.imm = int64(sext(uint64(v), 21))
		case rvFence:
			if in.f3 != f3 {
				continue
			}
			o.imm = int64(bitsOf(w, 31, 20))
		}
		if in.rv64only && xlen == 32 {
			return nil, o, Illegal, in.name + " is not an RV32 instruction"
		}
		return in, o, OK, ""
	}
	switch opcode {
	case opSYSTEM, 0x07, 0x27, 0x43, 0x47, 0x4b, 0x4f, 0x53, 0x2f:
		// SYSTEM (ECALL/EBREAK/Zicsr), LOAD-FP, STORE-FP, FMADD..FNMADD, OP-FP, AMO
		return nil, o, Unmodelled, fmt.Sprintf("major opcode %07b is outside the reference model (I+M only)", opcode)
	}
	return nil, o, Illegal, fmt.Sprintf("reserved encoding (opcode %07b funct3 %03b funct7 %07b)", opcode, f3, f7)
}

// rvEncode is the inverse of rvDecode for modelled instructions (ISA manual
// figure 2.3 / 2.4 immediate layouts).
func rvEncode(in *rvInsn, o rvOps, xlen int) uint32 {
	rd, rs1, rs2 := uint32(o.rd)&31, uint32(o.rs1)&31, uint32(o.rs2)&31
	imm := uint32(o.imm)
	base := in.opcode | in.f3<<12
	switch in.fmt {
	case rvR:
		return base | rd<<7 | rs1<<15 | rs2<<20 | in.f7<<25
	case rvI, rvFence:
		return base | rd<<7 | rs1<<15 | (imm&0xfff)<<20
	case rvSh:
		if xlen == 64 {
			return base | rd<<7 | rs1<<15 | (imm&63)<<20 | (in.f7>>1)<<26
		}
		return base | rd<<7 | rs1<<15 | (imm&31)<<20 | in.f7<<25
	case rvShW:
		return base | rd<<7 | rs1<<15 | (imm&31)<<20 | in.f7<<25
	case rvS:
		return base | (imm&31)<<7 | rs1<<15 | rs2<<20 | ((imm>>5)&0x7f)<<25
	case rvB:
		return base | ((imm>>11)&1)<<7 | ((imm>>1)&15)<<8 | rs1<<15 | rs2<<20 | ((imm>>5)&63)<<25 | ((imm>>12)&1)<<31
	case rvU:
		return in.opcode | rd<<7 | imm&0xfffff000
	case rvJ:
		return in.opcode | rd<<7 | ((imm>>12)&0xff)<<12 | ((imm>>11)&1)<<20 | ((imm>>1)&0x3ff)<<21 | ((imm>>20)&1)<<31
	}
	panic("rvEncode: bad format")
}

// StepRV executes one instruction word on m.
func (m *Machine) StepRV(w uint32) StepInfo {
	info := StepInfo{WroteX: -1}
	in, o, st, why := rvDecode(w, m.XLen)
	if in == nil {
		info.Outcome, info.Why = st, why
		return info
	}
	info.Mn = in.name
	m.next = m.tr(m.PC + 4)
	in.exec(m, o, &info)
	if info.Outcome == OK {
		m.PC = m.next
	}
	return info
}

func (m *Machine) tagNeg(r *StepInfo, vals ...uint64) {
	for _, v := range vals {
		if m.sx(v) < 0 {
			r.tag("neg")
		}
	}
}

// jump sets the next pc; a target that is not 4-byte aligned raises an
// instruction-address-misaligned exception (no C extension), whose effect is
// up to the execution environment.
func (m *Machine) jump(target uint64, r *StepInfo) {
	target = m.tr(target)
	if target%4 != 0 {
		r.Outcome, r.Why = EnvDefined, "jump/branch target is not 4-byte aligned (instruction-address-misaligned exception)"
		return
	}
	m.next = target
}

// ---- RV32I

func rvLUI(m *Machine, o rvOps, r *StepInfo)   { m.wx(o.rd, uint64(o.imm), r) }
func rvAUIPC(m *Machine, o rvOps, r *StepInfo) { m.wx(o.rd, m.PC+uint64(o.imm), r) }

func rvJAL(m *Machine, o rvOps, r *StepInfo) {
	link := m.PC + 4
	m.jump(m.PC+uint64(o.imm), r)
	if r.Outcome == OK {
		m.wx(o.rd, link, r)
	}
}

func rvJALR(m *Machine, o rvOps, r *StepInfo) {
	link := m.PC + 4
	t := m.rx(o.rs1) + uint64(o.imm)
	if t&1 != 0 {
		r.tag("target-bit0")
	}
	m.jump(t&^1, r)
	if r.Outcome == OK {
		m.wx(o.rd, link, r)
	}
}

func (m *Machine) branch(cond bool, o rvOps, r *StepInfo) {
	m.tagNeg(r, m.rx(o.rs1), m.rx(o.rs2))
	if m.rx(o.rs1) == m.rx(o.rs2) {
		r.tag("equal")
	}
	if cond {
		r.tag("taken")
		m.jump(m.PC+uint64(o.imm), r)
	} else {
		r.tag("not-taken")
	}
}

func rvBEQ(m *Machine, o rvOps, r *StepInfo)  { m.branch(m.rx(o.rs1) == m.rx(o.rs2), o, r) }
func rvBNE(m *Machine, o rvOps, r *StepInfo)  { m.branch(m.rx(o.rs1) != m.rx(o.rs2), o, r) }
func rvBLT(m *Machine, o rvOps, r *StepInfo)  { m.branch(m.sx(m.rx(o.rs1)) < m.sx(m.rx(o.rs2)), o, r) }
func rvBGE(m *Machine, o rvOps, r *StepInfo)  { m.branch(m.sx(m.rx(o.rs1)) >= m.sx(m.rx(o.rs2)), o, r) }
func rvBLTU(m *Machine, o rvOps, r *StepInfo) { m.branch(m.rx(o.rs1) < m.rx(o.rs2), o, r) }
func rvBGEU(m *Machine, o rvOps, r *StepInfo) { m.branch(m.rx(o.rs1) >= m.rx(o.rs2), o, r) }

func (m *Machine) rvLoad(o rvOps, size int, signed bool, r *StepInfo) {
	ea := m.tr(m.rx(o.rs1) + uint64(o.imm))
	v, ok := m.load(ea, size, r)
	if !ok {
		return
	}
	if signed {
		v = sext(v, uint(8*size))
		if int64(v) < 0 {
			r.tag("neg")
		}
	}
	m.wx(o.rd, v, r)
}

func rvLB(m *Machine, o rvOps, r *StepInfo)  { m.rvLoad(o, 1, true, r) }
func rvLH(m *Machine, o rvOps, r *StepInfo)  { m.rvLoad(o, 2, true, r) }
func rvLW(m *Machine, o rvOps, r *StepInfo)  { m.rvLoad(o, 4, true, r) }
func rvLBU(m *Machine, o rvOps, r *StepInfo) { m.rvLoad(o, 1, false, r) }
func rvLHU(m *Machine, o rvOps, r *StepInfo) { m.rvLoad(o, 2, false, r) }
func rvLWU(m *Machine, o rvOps, r *StepInfo) { m.rvLoad(o, 4, false, r) }
func rvLD(m *Machine, o rvOps, r *StepInfo)  { m.rvLoad(o, 8, false, r) }

func (m *Machine) rvStore(o rvOps, size int, r *StepInfo) {
	ea := m.tr(m.rx(o.rs1) + uint64(o.imm))
	m.store(ea, size, m.rx(o.rs2), r)
}

func rvSB(m *Machine, o rvOps, r *StepInfo) { m.rvStore(o, 1, r) }
func rvSH(m *Machine, o rvOps, r *StepInfo) { m.rvStore(o, 2, r) }
func rvSW(m *Machine, o rvOps, r *StepInfo) { m.rvStore(o, 4, r) }
func rvSD(m *Machine, o rvOps, r *StepInfo) { m.rvStore(o, 8, r) }

func b2u(b bool) uint64 {
	if b {
		return 1
	}
	return 0
}

func rvADDI(m *Machine, o rvOps, r *StepInfo) {
	m.tagNeg(r, m.rx(o.rs1), uint64(o.imm))
	m.wx(o.rd, m.rx(o.rs1)+uint64(o.imm), r)
}
func rvSLTI(m *Machine, o rvOps, r *StepInfo) {
	m.tagNeg(r, m.rx(o.rs1), uint64(o.imm))
	m.wx(o.rd, b2u(m.sx(m.rx(o.rs1)) < o.imm), r)
}
func rvSLTIU(m *Machine, o rvOps, r *StepInfo) {
	m.tagNeg(r, m.rx(o.rs1), uint64(o.imm))
	m.wx(o.rd, b2u(m.rx(o.rs1) < m.tr(uint64(o.imm))), r)
}
func rvXORI(m *Machine, o rvOps, r *StepInfo) {
	m.tagNeg(r, uint64(o.imm))
	m.wx(o.rd, m.rx(o.rs1)^uint64(o.imm), r)
}
func rvORI(m *Machine, o rvOps, r *StepInfo) {
	m.tagNeg(r, uint64(o.imm))
	m.wx(o.rd, m.rx(o.rs1)|uint64(o.imm), r)
}
func rvANDI(m *Machine, o rvOps, r *StepInfo) {
	m.tagNeg(r, uint64(o.imm))
	m.wx(o.rd, m.rx(o.rs1)&uint64(o.imm), r)
}

func rvSLLI(m *Machine, o rvOps, r *StepInfo) { m.wx(o.rd, m.rx(o.rs1)<<uint(o.imm), r) }
func rvSRLI(m *Machine, o rvOps, r *StepInfo) {
	m.tagNeg(r, m.rx(o.rs1))
	m.wx(o.rd, m.rx(o.rs1)>>uint(o.imm), r)
}
func rvSRAI(m *Machine, o rvOps, r *StepInfo) {
	m.tagNeg(r, m.rx(o.rs1))
	m.wx(o.rd, uint64(m.sx(m.rx(o.rs1))>>uint(o.imm)), r)
}

func rvADD(m *Machine, o rvOps, r *StepInfo) {
	m.tagNeg(r, m.rx(o.rs1), m.rx(o.rs2))
	m.wx(o.rd, m.rx(o.rs1)+m.rx(o.rs2), r)
}
func rvSUB(m *Machine, o rvOps, r *StepInfo) {
	m.tagNeg(r, m.rx(o.rs1), m.rx(o.rs2))
	m.wx(o.rd, m.rx(o.rs1)-m.rx(o.rs2), r)
}

// shamt returns the register shift amount: low log2(width) bits of rs2.
func (m *Machine) shamt(o rvOps, width uint, r *StepInfo) uint {
	v := m.rx(o.rs2)
	if v >= uint64(width) {
		r.tag("shamt-high-bits")
	}
	return uint(v & uint64(width-1))
}

func rvSLL(m *Machine, o rvOps, r *StepInfo) {
	m.wx(o.rd, m.rx(o.rs1)<<m.shamt(o, uint(m.XLen), r), r)
}
func rvSRL(m *Machine, o rvOps, r *StepInfo) {
	m.tagNeg(r, m.rx(o.rs1))
	m.wx(o.rd, m.rx(o.rs1)>>m.shamt(o, uint(m.XLen), r), r)
}
func rvSRA(m *Machine, o rvOps, r *StepInfo) {
	m.tagNeg(r, m.rx(o.rs1))
	m.wx(o.rd, uint64(m.sx(m.rx(o.rs1))>>m.shamt(o, uint(m.XLen), r)), r)
}
func rvSLT(m *Machine, o rvOps, r *StepInfo) {
	m.tagNeg(r, m.rx(o.rs1), m.rx(o.rs2))
	m.wx(o.rd, b2u(m.sx(m.rx(o.rs1)) < m.sx(m.rx(o.rs2))), r)
}
func rvSLTU(m *Machine, o rvOps, r *StepInfo) {
	m.tagNeg(r, m.rx(o.rs1), m.rx(o.rs2))
	m.wx(o.rd, b2u(m.rx(o.rs1) < m.rx(o.rs2)), r)
}
func rvXOR(m *Machine, o rvOps, r *StepInfo)   { m.wx(o.rd, m.rx(o.rs1)^m.rx(o.rs2), r) }
func rvOR(m *Machine, o rvOps, r *StepInfo)    { m.wx(o.rd, m.rx(o.rs1)|m.rx(o.rs2), r) }
func rvAND(m *Machine, o rvOps, r *StepInfo)   { m.wx(o.rd, m.rx(o.rs1)&m.rx(o.rs2), r) }
func rvFENCE(m *Machine, o rvOps, r *StepInfo) {} // single hart, no devices: no architectural effect

// ---- RV64I: the *W forms compute on the low 32 bits and sign-extend.

func rvADDIW(m *Machine, o rvOps, r *StepInfo) {
	m.tagNeg(r, sext32(m.rx(o.rs1)), uint64(o.imm))
	m.wx(o.rd, sext32(m.rx(o.rs1)+uint64(o.imm)), r)
}
func rvSLLIW(m *Machine, o rvOps, r *StepInfo) {
	m.wx(o.rd, sext32(uint64(uint32(m.rx(o.rs1))<<uint(o.imm))), r)
}
func rvSRLIW(m *Machine, o rvOps, r *StepInfo) {
	m.tagNeg(r, sext32(m.rx(o.rs1)))
	m.wx(o.rd, sext32(uint64(uint32(m.rx(o.rs1))>>uint(o.imm))), r)
}
func rvSRAIW(m *Machine, o rvOps, r *StepInfo) {
	m.tagNeg(r, sext32(m.rx(o.rs1)))
	m.wx(o.rd, uint64(int64(int32(uint32(m.rx(o.rs1)))>>uint(o.imm))), r)
}
func rvADDW(m *Machine, o rvOps, r *StepInfo) {
	m.tagNeg(r, sext32(m.rx(o.rs1)), sext32(m.rx(o.rs2)))
	m.wx(o.rd, sext32(m.rx(o.rs1)+m.rx(o.rs2)), r)
}
func rvSUBW(m *Machine, o rvOps, r *StepInfo) {
	m.tagNeg(r, sext32(m.rx(o.rs1)), sext32(m.rx(o.rs2)))
	m.wx(o.rd, sext32(m.rx(o.rs1)-m.rx(o.rs2)), r)
}
func rvSLLW(m *Machine, o rvOps, r *StepInfo) {
	m.wx(o.rd, sext32(uint64(uint32(m.rx(o.rs1))<<m.shamt(o, 32, r))), r)
}
func rvSRLW(m *Machine, o rvOps, r *StepInfo) {
	m.tagNeg(r, sext32(m.rx(o.rs1)))
	m.wx(o.rd, sext32(uint64(uint32(m.rx(o.rs1))>>m.shamt(o, 32, r))), r)
}
func rvSRAW(m *Machine, o rvOps, r *StepInfo) {
	m.tagNeg(r, sext32(m.rx(o.rs1)))
	m.wx(o.rd, uint64(int64(int32(uint32(m.rx(o.rs1)))>>m.shamt(o, 32, r))), r)
}

// ---- M extension (chapter 13; division table 13.1)

func rvMUL(m *Machine, o rvOps, r *StepInfo) {
	m.tagNeg(r, m.rx(o.rs1), m.rx(o.rs2))
	p := mulHigh(bigS(m.sx(m.rx(o.rs1))), bigS(m.sx(m.rx(o.rs2))), 0)
	m.wx(o.rd, p, r)
}
func rvMULH(m *Machine, o rvOps, r *StepInfo) {
	m.tagNeg(r, m.rx(o.rs1), m.rx(o.rs2))
	m.wx(o.rd, mulHigh(bigS(m.sx(m.rx(o.rs1))), bigS(m.sx(m.rx(o.rs2))), uint(m.XLen)), r)
}
func rvMULHSU(m *Machine, o rvOps, r *StepInfo) {
	m.tagNeg(r, m.rx(o.rs1), m.rx(o.rs2))
	m.wx(o.rd, mulHigh(bigS(m.sx(m.rx(o.rs1))), bigU(m.rx(o.rs2)), uint(m.XLen)), r)
}
func rvMULHU(m *Machine, o rvOps, r *StepInfo) {
	m.tagNeg(r, m.rx(o.rs1), m.rx(o.rs2))
	m.wx(o.rd, mulHigh(bigU(m.rx(o.rs1)), bigU(m.rx(o.rs2)), uint(m.XLen)), r)
}

// signed division of width-bit values a, b (given sign-extended to int64)
func sdiv(a, b int64, width uint, r *StepInfo) (q, rem int64) {
	min := int64(-1) << (width - 1)
	switch {
	case b == 0:
		r.tag("div-by-zero")
		return -1, a
	case a == min && b == -1:
		r.tag("div-overflow")
		return min, 0
	}
	return divTrunc(a, b), remTrunc(a, b)
}

// unsigned division of width-bit values
func udiv(a, b uint64, width uint, r *StepInfo) (q, rem uint64) {
	if b == 0 {
		r.tag("div-by-zero")
		if width == 32 {
			return 0xffffffff, a
		}
		return ^uint64(0), a
	}
	return a / b, a % b
}

func rvDIV(m *Machine, o rvOps, r *StepInfo) {
	m.tagNeg(r, m.rx(o.rs1), m.rx(o.rs2))
	q, _ := sdiv(m.sx(m.rx(o.rs1)), m.sx(m.rx(o.rs2)), uint(m.XLen), r)
	m.wx(o.rd, uint64(q), r)
}
func rvREM(m *Machine, o rvOps, r *StepInfo) {
	m.tagNeg(r, m.rx(o.rs1), m.rx(o.rs2))
	_, rem := sdiv(m.sx(m.rx(o.rs1)), m.sx(m.rx(o.rs2)), uint(m.XLen), r)
	m.wx(o.rd, uint64(rem), r)
}
func rvDIVU(m *Machine, o rvOps, r *StepInfo) {
	m.tagNeg(r, m.rx(o.rs1), m.rx(o.rs2))
	q, _ := udiv(m.rx(o.rs1), m.rx(o.rs2), uint(m.XLen), r)
	m.wx(o.rd, q, r)
}
func rvREMU(m *Machine, o rvOps, r *StepInfo) {
	m.tagNeg(r, m.rx(o.rs1), m.rx(o.rs2))
	_, rem := udiv(m.rx(o.rs1), m.rx(o.rs2), uint(m.XLen), r)
	m.wx(o.rd, rem, r)
}

func rvMULW(m *Machine, o rvOps, r *StepInfo) {
	a, b := int64(int32(uint32(m.rx(o.rs1)))), int64(int32(uint32(m.rx(o.rs2))))
	m.tagNeg(r, uint64(a), uint64(b))
	m.wx(o.rd, sext32(mulHigh(bigS(a), bigS(b), 0)), r)
}
func rvDIVW(m *Machine, o rvOps, r *StepInfo) {
	a, b := int64(int32(uint32(m.rx(o.rs1)))), int64(int32(uint32(m.rx(o.rs2))))
	m.tagNeg(r, uint64(a), uint64(b))
	if b == 0 && m.rx(o.rs2) != 0 {
		r.tag("div-by-zero-low32-only")
	}
	q, _ := sdiv(a, b, 32, r)
	m.wx(o.rd, sext32(uint64(q)), r)
}
func rvREMW(m *Machine, o rvOps, r *StepInfo) {
	a, b := int64(int32(uint32(m.rx(o.rs1)))), int64(int32(uint32(m.rx(o.rs2))))
	m.tagNeg(r, uint64(a), uint64(b))
	if b == 0 && m.rx(o.rs2) != 0 {
		r.tag("div-by-zero-low32-only")
	}
	_, rem := sdiv(a, b, 32, r)
	m.wx(o.rd, sext32(uint64(rem)), r)
}
func rvDIVUW(m *Machine, o rvOps, r *StepInfo) {
	a, b := uint64(uint32(m.rx(o.rs1))), uint64(uint32(m.rx(o.rs2)))
	m.tagNeg(r, sext32(a), sext32(b))
	if b == 0 && m.rx(o.rs2) != 0 {
		r.tag("div-by-zero-low32-only")
	}
	q, _ := udiv(a, b, 32, r)
	m.wx(o.rd, sext32(q), r)
}
func rvREMUW(m *Machine, o rvOps, r *StepInfo) {
	a, b := uint64(uint32(m.rx(o.rs1))), uint64(uint32(m.rx(o.rs2)))
	m.tagNeg(r, sext32(a), sext32(b))
	if b == 0 && m.rx(o.rs2) != 0 {
		r.tag("div-by-zero-low32-only")
	}
	_, rem := udiv(a, b, 32, r)
	m.wx(o.rd, sext32(rem), r)
}
