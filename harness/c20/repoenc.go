package c20

// Glue to the repository's own instruction encoders (the primary source of
// instruction words) and the support matrix built from them.

import (
	"fmt"
	"strings"
	"sync"

	"wa-lang.org/wa/internal/native/abi"
	"wa-lang.org/wa/internal/native/loong64"
	"wa-lang.org/wa/internal/native/riscv"
)

// ---------------------------------------------------------------- RISC-V

type repoMn struct {
	as   abi.As
	name string // upper case, as used in keys
}

func rvRepoMnemonics() []repoMn {
	var out []repoMn
	for as := abi.As(1); as < riscv.A_NOP; as++ {
		out = append(out, repoMn{as, riscv.AsString(as, "")})
	}
	return out
}

func laRepoMnemonics() []repoMn {
	var out []repoMn
	for as := abi.As(1); as < loong64.ALAST; as++ {
		out = append(out, repoMn{as, strings.ToUpper(loong64.AsString(as, ""))})
	}
	return out
}

func guard(f func() (uint32, error)) (w uint32, errStr string) {
	defer func() {
		if r := recover(); r != nil {
			errStr = fmt.Sprintf("encoder panic: %v", r)
		}
	}()
	w, err := f()
	if err != nil {
		return 0, err.Error()
	}
	return w, ""
}

func rvX(n int) abi.RegType { return riscv.REG_X0 + abi.RegType(n&31) }
func rvF(n int) abi.RegType { return riscv.REG_F0 + abi.RegType(n&31) }

// rvRepoEncode encodes a modelled instruction through riscv.EncodeRV32/64
// from the reference's operand fields.
func rvRepoEncode(a *archT, as abi.As, in *rvInsn, o rvOps) (uint32, string) {
	arg := &abi.AsArgument{}
	switch in.fmt {
	case rvR:
		arg.Rd, arg.Rs1, arg.Rs2 = rvX(o.rd), rvX(o.rs1), rvX(o.rs2)
	case rvI, rvSh, rvShW, rvFence:
		arg.Rd, arg.Rs1, arg.Imm = rvX(o.rd), rvX(o.rs1), int32(o.imm)
	case rvS, rvB:
		arg.Rs1, arg.Rs2, arg.Imm = rvX(o.rs1), rvX(o.rs2), int32(o.imm)
	case rvU:
		arg.Rd, arg.Imm = rvX(o.rd), int32(o.imm>>12)
	case rvJ:
		arg.Rd, arg.Imm = rvX(o.rd), int32(o.imm)
	}
	return rvRepoEncodeArg(a, as, arg)
}

func rvRepoEncodeArg(a *archT, as abi.As, arg *abi.AsArgument) (uint32, string) {
	return guard(func() (uint32, error) {
		if a.xlen == 32 {
			return riscv.EncodeRV32(as, arg)
		}
		return riscv.EncodeRV64(as, arg)
	})
}

// rvCanonArgs proposes argument sets for a mnemonic the reference does not
// model (F/D, Zicsr, ECALL/EBREAK); tried in order until the encoder accepts.
func rvCanonArgs(name string, variant int) []*abi.AsArgument {
	r := [][3]int{{5, 6, 7}, {1, 1, 1}, {31, 10, 12}}[variant%3]
	imm := []int32{0, 8, -4}[variant%3]
	switch {
	case name == "ECALL" || name == "EBREAK":
		return []*abi.AsArgument{{}, {Rd: rvX(0), Rs1: rvX(0)}}
	case strings.HasPrefix(name, "CSRR"):
		return []*abi.AsArgument{{Rd: rvX(r[0]), Rs1: rvX(r[1]), Imm: 0x340}}
	case name == "FLW" || name == "FLD":
		return []*abi.AsArgument{{Rd: rvF(r[0]), Rs1: rvX(r[1]), Imm: imm}, {Rd: rvX(r[0]), Rs1: rvX(r[1]), Imm: imm}}
	case name == "FSW" || name == "FSD":
		return []*abi.AsArgument{{Rs1: rvX(r[1]), Rs2: rvF(r[2]), Imm: imm}, {Rs1: rvX(r[1]), Rs2: rvX(r[2]), Imm: imm}}
	case strings.HasPrefix(name, "FMADD") || strings.HasPrefix(name, "FMSUB") || strings.HasPrefix(name, "FNM"):
		return []*abi.AsArgument{{Rd: rvF(r[0]), Rs1: rvF(r[1]), Rs2: rvF(r[2]), Rs3: rvF(r[0] + 1)}}
	case strings.HasPrefix(name, "F"):
		return []*abi.AsArgument{
			{Rd: rvF(r[0]), Rs1: rvF(r[1]), Rs2: rvF(r[2])},
			{Rd: rvX(r[0]), Rs1: rvF(r[1]), Rs2: rvF(r[2])},
			{Rd: rvF(r[0]), Rs1: rvX(r[1]), Rs2: rvF(r[2])},
			{Rd: rvX(r[0]), Rs1: rvX(r[1]), Rs2: rvX(r[2])},
		}
	}
	return nil
}

// ---------------------------------------------------------------- LoongArch

func laR(n int) abi.RegType { return loong64.REG_R0 + abi.RegType(n&31) }
func laF(n int) abi.RegType { return loong64.REG_F0 + abi.RegType(n&31) }

// laRepoEncode encodes a modelled instruction through loong64.EncodeLA64.
func laRepoEncode(as abi.As, in *laInsn, o laOps) (uint32, string) {
	arg := &abi.AsArgument{Imm: int32(o.imm)}
	switch in.fmt {
	case la3R, la3RSa2:
		arg.Rd, arg.Rs1, arg.Rs2 = laR(o.rd), laR(o.rj), laR(o.rk)
	case la3F:
		arg.Rd, arg.Rs1, arg.Rs2 = laF(o.rd), laF(o.rj), laF(o.rk)
	case la2R, la2RUi5, la2RUi6, la2RSi12, la2RUi12, la2RSi16, laBrRjRd, laJirl:
		arg.Rd, arg.Rs1 = laR(o.rd), laR(o.rj)
	case la1RSi20:
		arg.Rd = laR(o.rd)
	case laBrRj:
		arg.Rs1 = laR(o.rj)
	case laBr26:
	}
	return guard(func() (uint32, error) { return loong64.EncodeLA64(as, arg) })
}

// laCanonArg builds an in-range argument for any LoongArch mnemonic from its
// exported format type.
func laCanonArg(as abi.As, variant int) *abi.AsArgument {
	r := [][4]int{{5, 6, 7, 8}, {4, 4, 4, 4}, {31, 12, 13, 2}}[variant%3]
	small := []int32{0, 4, 1}[variant%3]
	I, F := laR, laF
	fcc := func(n int) abi.RegType { return loong64.REG_FCC0 + abi.RegType(n&7) }
	fcsr := func(n int) abi.RegType { return loong64.REG_FCSR0 + abi.RegType(n&3) }
	raw := func(n int) abi.RegType { return abi.RegType(n & 31) }
	arg := &abi.AsArgument{}
	switch loong64.AsFormatType(as) {
	case loong64.OpFormatType_NULL:
	case loong64.OpFormatType_2R:
		arg.Rd, arg.Rs1 = I(r[0]), I(r[1])
	case loong64.OpFormatType_2F:
		arg.Rd, arg.Rs1 = F(r[0]), F(r[1])
	case loong64.OpFormatType_1F_1R:
		arg.Rd, arg.Rs1 = F(r[0]), I(r[1])
	case loong64.OpFormatType_1R_1F:
		arg.Rd, arg.Rs1 = I(r[0]), F(r[1])
	case loong64.OpFormatType_3R:
		arg.Rd, arg.Rs1, arg.Rs2 = I(r[0]), I(r[1]), I(r[2])
	case loong64.OpFormatType_3F:
		arg.Rd, arg.Rs1, arg.Rs2 = F(r[0]), F(r[1]), F(r[2])
	case loong64.OpFormatType_1F_2R:
		arg.Rd, arg.Rs1, arg.Rs2 = F(r[0]), I(r[1]), I(r[2])
	case loong64.OpFormatType_4F:
		arg.Rd, arg.Rs1, arg.Rs2, arg.Rs3 = F(r[0]), F(r[1]), F(r[2]), F(r[3])
	case loong64.OpFormatType_2R_ui5, loong64.OpFormatType_2R_ui6, loong64.OpFormatType_2R_si12,
		loong64.OpFormatType_2R_ui12, loong64.OpFormatType_2R_si14, loong64.OpFormatType_2R_level:
		arg.Rd, arg.Rs1, arg.Imm = I(r[0]), I(r[1]), small
	case loong64.OpFormatType_2R_csr:
		arg.Rd, arg.Rs1, arg.Imm = I(r[0]), I(r[1]|2), small
	case loong64.OpFormatType_1F_1R_si12:
		arg.Rd, arg.Rs1, arg.Imm = F(r[0]), I(r[1]), small
	case loong64.OpFormatType_1R_si20, loong64.OpFormatType_1R_csr:
		arg.Rd, arg.Imm = I(r[0]), small
	case loong64.OpFormatType_0_2R:
		arg.Rs1, arg.Rs2 = I(r[1]), I(r[2])
	case loong64.OpFormatType_3R_sa2, loong64.OpFormatType_3R_sa3:
		arg.Rd, arg.Rs1, arg.Rs2, arg.Imm = I(r[0]), I(r[1]), I(r[2]), small&1
	case loong64.OpFormatType_code, loong64.OpFormatType_level, loong64.OpFormatType_hint:
		arg.Imm = small
	case loong64.OpFormatType_code_1R_si12, loong64.OpFormatType_hint_1R_si12:
		arg.Rd, arg.Rs1, arg.Imm = raw(r[0]), I(r[1]), small
	case loong64.OpFormatType_2R_msbw_lsbw, loong64.OpFormatType_2R_msbd_lsbd:
		arg.Rd, arg.Rs1, arg.Rs2, arg.Rs3 = I(r[0]), I(r[1]), raw(9), raw(3)
	case loong64.OpFormatType_fcsr_1R:
		arg.Rd, arg.Rs1 = fcsr(r[0]), I(r[1])
	case loong64.OpFormatType_1R_fcsr:
		arg.Rd, arg.Rs1 = I(r[0]), fcsr(r[1])
	case loong64.OpFormatType_cd_1R:
		arg.Rd, arg.Rs1 = fcc(r[0]), I(r[1])
	case loong64.OpFormatType_cd_1F:
		arg.Rd, arg.Rs1 = fcc(r[0]), F(r[1])
	case loong64.OpFormatType_cd_2F:
		arg.Rd, arg.Rs1, arg.Rs2 = fcc(r[0]), F(r[1]), F(r[2])
	case loong64.OpFormatType_1R_cj:
		arg.Rd, arg.Rs1 = I(r[0]), fcc(r[1])
	case loong64.OpFormatType_1F_cj:
		arg.Rd, arg.Rs1 = F(r[0]), fcc(r[1])
	case loong64.OpFormatType_0_1R_seq:
		arg.Rs1, arg.Imm = I(r[1]), small
	case loong64.OpFormatType_op_2R, loong64.OpFormatType_hint_2R:
		arg.Rd, arg.Rs1, arg.Rs2 = raw(r[0]), I(r[1]), I(r[2])
	case loong64.OpFormatType_3F_ca:
		arg.Rd, arg.Rs1, arg.Rs2, arg.Imm = F(r[0]), F(r[1]), F(r[2]), small&7
	case loong64.OpFormatType_cj_offset:
		arg.Rs1, arg.Imm = fcc(r[1]), small*4
	case loong64.OpFormatType_rj_offset:
		arg.Rs1, arg.Imm = I(r[1]), small*4
	case loong64.OpFormatType_rj_rd_offset, loong64.OpFormatType_rd_rj_offset:
		arg.Rd, arg.Rs1, arg.Imm = I(r[0]), I(r[1]), small*4
	case loong64.OpFormatType_offset:
		arg.Imm = small * 4
	}
	return arg
}

// ---------------------------------------------------------------- support matrix

// mnStatus is what one (arch, repo mnemonic) turned out to be.
type mnStatus struct {
	repoMn
	words       int    // canonical instances the repo encoder produced
	encErr      string // first encoder refusal
	supported   int    // emulator executed the word
	unsupported int    // "unsupport"/privileged error or panic("TODO")
	undecodable int    // the emulator's own decoder refused the word
	crashed     int
	crashCase   *kase // first instance on which StepRun panicked (other than the explicit "TODO" marker)
	refName     string // reference mnemonic of the produced word ("" = not modelled)
	refIllegal  bool   // reference: reserved encoding on this arch
}

func (s *mnStatus) hot() bool { return s.supported > 0 && s.refName != "" }

type specStatus struct {
	name        string
	supported   int
	unsupported int
	undecodable int
}

type matrix struct {
	repo []mnStatus
	spec []specStatus
}

var (
	matrixOnce [3]sync.Once
	matrices   [3]*matrix
)

func (a *archT) index() int {
	for i, x := range archs {
		if x == a {
			return i
		}
	}
	return 0
}

// supportMatrix runs every mnemonic of the architecture once through
// encoder -> emulator with fixed canonical operands (no randomness) and
// classifies it.  The step properties draw only from mnemonics that are
// supported by the emulator and modelled by the reference.
func (a *archT) supportMatrix() *matrix {
	i := a.index()
	matrixOnce[i].Do(func() { matrices[i] = a.buildMatrix() })
	return matrices[i]
}

func canonMachine(a *archT, variant int) *Machine {
	m := &Machine{XLen: a.xlen, PC: 0x80000000, Mem: &Mem{Seed: uint64(variant) + 1}}
	if a.isLA {
		m.PC = 0x120000000
	}
	for i := range m.X {
		m.X[i] = m.tr(0x80002000 + uint64(i)*64)
		m.F[i] = float64(i) + 0.5
	}
	return m
}

func (a *archT) tryWord(w uint32, variant int) (cls emuClass, info StepInfo) {
	m := canonMachine(a, variant)
	ref := *m
	info = a.step(&ref, w)
	res := runEmu(a, m, w, false)
	return res.class(), info
}

func (a *archT) buildMatrix() *matrix {
	mx := &matrix{}
	var list []repoMn
	if a.isLA {
		list = laRepoMnemonics()
	} else {
		list = rvRepoMnemonics()
	}
	for _, mn := range list {
		st := mnStatus{repoMn: mn}
		for variant := 0; variant < 3; variant++ {
			w, errStr := a.canonWord(mn, variant)
			if errStr != "" {
				if st.encErr == "" {
					st.encErr = errStr
				}
				continue
			}
			st.words++
			cls, info := a.tryWord(w, variant)
			switch cls {
			case emuOK, emuError:
				st.supported++
			case emuUnsupported:
				st.unsupported++
			case emuUndecodable:
				st.undecodable++
			case emuPanic:
				st.crashed++
				st.supported++
				if st.crashCase == nil {
					m := canonMachine(a, variant)
					st.crashCase = &kase{Arch: a.name, Word: fmt.Sprintf("%08x", w), Src: "repo:" + mn.name, PC: m.PC, X: m.X, MemSeed: m.Mem.Seed}
				}
			}
			if info.Mn != "" {
				st.refName = info.Mn
			}
			if info.Outcome == Illegal {
				st.refIllegal = true
			}
		}
		mx.repo = append(mx.repo, st)
	}
	// words assembled by the reference encoder for every modelled instruction
	if a.isLA {
		for i := range laTable {
			in := &laTable[i]
			st := specStatus{name: in.name}
			for variant := 0; variant < 3; variant++ {
				o := laOps{rd: 5 + variant, rj: 6 + variant, rk: 7 + variant, imm: int64(variant) * 4}
				cls, _ := a.tryWord(laEncode(in, o), variant)
				st.count(cls)
			}
			mx.spec = append(mx.spec, st)
		}
	} else {
		for i := range rvTable {
			in := &rvTable[i]
			if in.rv64only && a.xlen == 32 {
				continue
			}
			st := specStatus{name: in.name}
			for variant := 0; variant < 3; variant++ {
				o := rvOps{rd: 5 + variant, rs1: 6 + variant, rs2: 7 + variant, imm: int64(variant) * 4}
				if in.fmt == rvU {
					o.imm <<= 12
				}
				cls, _ := a.tryWord(rvEncode(in, o, a.xlen), variant)
				st.count(cls)
			}
			mx.spec = append(mx.spec, st)
		}
	}
	return mx
}

func (s *specStatus) count(cls emuClass) {
	switch cls {
	case emuUnsupported:
		s.unsupported++
	case emuUndecodable:
		s.undecodable++
	default:
		s.supported++
	}
}

// canonWord encodes one fixed instance of a repo mnemonic with the repo's
// encoder.
func (a *archT) canonWord(mn repoMn, variant int) (uint32, string) {
	if a.isLA {
		if in := laLookup(mn.name); in != nil {
			o := laOps{rd: 5 + variant, rj: 6 + variant, rk: 7 + variant, imm: int64(variant) * 4}
			return laRepoEncode(mn.as, in, o)
		}
		arg := laCanonArg(mn.as, variant)
		return guard(func() (uint32, error) { return loong64.EncodeLA64(mn.as, arg) })
	}
	if in := rvLookup(mn.name); in != nil {
		o := rvOps{rd: 5 + variant, rs1: 6 + variant, rs2: 7 + variant, imm: int64(variant) * 4}
		if in.fmt == rvU {
			o.imm <<= 12
		}
		return rvRepoEncode(a, mn.as, in, o)
	}
	firstErr := "no argument shape known for " + mn.name
	for _, arg := range rvCanonArgs(mn.name, variant) {
		w, e := rvRepoEncodeArg(a, mn.as, arg)
		if e == "" {
			return w, ""
		}
		firstErr = e
	}
	return 0, firstErr
}
