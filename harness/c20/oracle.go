package c20

// The oracle: run the reference and the emulator on one case and compare the
// architecturally visible state.  No rapid here; replay uses exactly this.

import (
	"encoding/json"
	"fmt"
	"math"
	"runtime/debug"
	"sort"
	"strconv"
	"strings"
)

func stackHere() string { return string(debug.Stack()) }

// kase is the replayable form of a one-step case.
type kase struct {
	Arch    string            `json:"arch"`           // rv64 | rv32 | la64
	Word    string            `json:"word"`           // instruction word, hex
	Src     string            `json:"src,omitempty"`  // informational: "repo:<mnemonic>" (repo encoder) or "spec:<mnemonic>" (reference encoder)
	PC      uint64            `json:"pc"`             //
	X       [32]uint64        `json:"x"`              // integer registers loaded with SetXReg
	F       map[string]string `json:"f,omitempty"`    // FP register overrides: index -> float64 bits (hex); others are i+0.5
	MemSeed uint64            `json:"mem_seed"`       // background memory function
	Mem     map[string]string `json:"mem,omitempty"`  // overlays: address (hex) -> bytes (hex)
	Note    string            `json:"note,omitempty"` //
}

func (k *kase) word() uint32 {
	v, _ := strconv.ParseUint(strings.TrimPrefix(k.Word, "0x"), 16, 32)
	return uint32(v)
}

// machine builds the initial reference state of the case.
func (k *kase) machine() (*archT, *Machine, error) {
	a := archByName(k.Arch)
	if a == nil {
		return nil, nil, fmt.Errorf("unknown arch %q", k.Arch)
	}
	m := &Machine{XLen: a.xlen, PC: k.PC, Mem: &Mem{Seed: k.MemSeed, Over: map[uint64]byte{}}}
	for i := range m.X {
		m.X[i] = m.tr(k.X[i])
		m.F[i] = float64(i) + 0.5
	}
	m.PC = m.tr(m.PC)
	for is, hs := range k.F {
		i, err := strconv.Atoi(is)
		if err != nil || i < 0 || i > 31 {
			return nil, nil, fmt.Errorf("bad f index %q", is)
		}
		b, err := strconv.ParseUint(hs, 16, 64)
		if err != nil {
			return nil, nil, err
		}
		m.F[i] = math.Float64frombits(b)
	}
	for as, hs := range k.Mem {
		addr, err := strconv.ParseUint(as, 16, 64)
		if err != nil {
			return nil, nil, err
		}
		if len(hs)%2 != 0 {
			return nil, nil, fmt.Errorf("odd hex %q", hs)
		}
		for i := 0; i+1 < len(hs); i += 2 {
			b, err := strconv.ParseUint(hs[i:i+2], 16, 8)
			if err != nil {
				return nil, nil, err
			}
			m.Mem.Over[addr+uint64(i/2)] = byte(b)
		}
	}
	// the instruction itself is part of memory (a load from [pc, pc+4) sees it)
	m.Mem.Put(m.PC, 4, uint64(k.word()))
	return a, m, nil
}

// verdict says how far the oracle got on a case.
type verdict struct {
	Mn     string   // reference mnemonic ("" when the reference cannot name the word)
	Status string   // compared | unsupported | unmodelled | outside-domain | env-defined | emu-undecodable
	Tags   []string // operand classes
	Why    string
}

func (a *archT) step(m *Machine, w uint32) StepInfo {
	if a.isLA {
		return m.StepLA(w)
	}
	return m.StepRV(w)
}

// evalCase returns the verdict and, when the property is violated, a
// structural key "<arch>/<MNEMONIC>" and a description.
func evalCase(k *kase) (v verdict, key, what string) {
	a, init, err := k.machine()
	if err != nil {
		return v, "harness/bad-case", err.Error()
	}
	w := k.word()
	ref := *init
	ref.Writes = nil
	info := a.step(&ref, w)
	v.Mn, v.Tags, v.Why = info.Mn, info.Tags, info.Why
	switch info.Outcome {
	case Illegal:
		v.Status = "outside-domain"
		return
	case EnvDefined: // trap / fault: the emulator is not asked
		v.Status = "env-defined"
		return
	}
	emu := runEmu(a, init, w, info.Outcome == OK && info.WroteX == 0)
	name := info.Mn
	if name == "" {
		name = strings.TrimPrefix(strings.TrimPrefix(k.Src, "repo:"), "spec:") // not modelled: the encoder's mnemonic
	}
	headf := func() string {
		return fmt.Sprintf("%s word=%08x (%s; emulator disassembly %q) pc=%#x", a.name, w, name, a.disasm(w), init.PC)
	}

	switch emu.class() {
	case emuUnsupported:
		v.Status = "unsupported"
		return
	case emuUndecodable:
		v.Status = "emu-undecodable"
		v.Why = emu.Err
		return
	case emuPanic:
		// a Go run-time panic (not the explicit "TODO" marker) is never ISA behaviour
		return verdict{Mn: info.Mn, Status: "compared", Tags: info.Tags}, a.name + "/" + name,
			fmt.Sprintf("%s: emulator panicked: %s\nregisters: %s\n%s", headf(), emu.Panic, k.regsUsed(), trimTo(emu.Stack, 1500))
	}
	if info.Outcome == Unmodelled {
		v.Status = "unmodelled"
		return
	}
	if emu.class() == emuError {
		if info.Misaligned {
			v.Status = "env-defined"
			v.Why = "misaligned access rejected by the emulator: " + emu.Err
			return
		}
		v.Status = "compared"
		return v, a.name + "/" + name, fmt.Sprintf("%s: emulator returned an error where the ISA defines a result: %s", headf(), emu.Err)
	}
	v.Status = "compared"

	var diffs []string
	onlyF0 := true
	for i := 1; i < 32; i++ {
		if emu.X[i] != ref.X[i] {
			onlyF0 = false
			diffs = append(diffs, fmt.Sprintf("x%d = %#x, reference %#x (before: %#x)", i, emu.X[i], ref.X[i], init.X[i]))
		}
	}
	if emu.PC != ref.PC {
		onlyF0 = false
		diffs = append(diffs, fmt.Sprintf("pc = %#x, reference %#x", emu.PC, ref.PC))
	}
	for i := 0; i < 32; i++ {
		prec := 64
		if p, ok := info.FPrec[i]; ok {
			prec = p
		}
		if !sameFloat(emu.F[i], ref.F[i], prec) {
			if i != 0 || info.FPrec[0] != 0 {
				onlyF0 = false
			}
			diffs = append(diffs, fmt.Sprintf("f%d = %v (%#x), reference %v (%#x) at %d-bit precision (before: %v)",
				i, emu.F[i], math.Float64bits(emu.F[i]), ref.F[i], math.Float64bits(ref.F[i]), prec, init.F[i]))
		}
	}
	if d := diffWrites(emu.Writes, ref.Writes, info.Misaligned); d != "" {
		onlyF0 = false
		diffs = append(diffs, d)
	}
	if len(diffs) > 0 {
		key = a.name + "/" + name
		if onlyF0 {
			key = a.name + "/f0-cleared"
		}
		what = fmt.Sprintf("%s: %s\noperands: %s", headf(), strings.Join(diffs, "; "), k.regsUsed())
		return
	}
	if emu.X0Probe != "" {
		return v, a.name + "/x0-not-zero", fmt.Sprintf("%s: wrote register 0, then %s", headf(), emu.X0Probe)
	}
	return
}

func trimTo(s string, n int) string {
	if len(s) > n {
		return s[:n] + "…"
	}
	return s
}

// diffWrites compares the ordered write lists; for a misaligned access only
// the net byte-level effect is compared (an implementation may split it).
func diffWrites(emu, ref []Access, misaligned bool) string {
	if misaligned {
		eb, rb := bytesOf(emu), bytesOf(ref)
		if len(eb) != len(rb) {
			return fmt.Sprintf("memory writes %s, reference %s", fmtWrites(emu), fmtWrites(ref))
		}
		for a, b := range rb {
			if x, ok := eb[a]; !ok || x != b {
				return fmt.Sprintf("memory writes %s, reference %s", fmtWrites(emu), fmtWrites(ref))
			}
		}
		return ""
	}
	if len(emu) != len(ref) {
		return fmt.Sprintf("memory writes %s, reference %s", fmtWrites(emu), fmtWrites(ref))
	}
	for i := range ref {
		if emu[i] != ref[i] {
			return fmt.Sprintf("memory writes %s, reference %s", fmtWrites(emu), fmtWrites(ref))
		}
	}
	return ""
}

func fmtWrites(ws []Access) string {
	if len(ws) == 0 {
		return "[none]"
	}
	var parts []string
	for _, w := range ws {
		parts = append(parts, fmt.Sprintf("[%#x size %d] = %#x", w.Addr, w.Size, w.Value))
	}
	return strings.Join(parts, ", ")
}

// regsUsed prints the integer registers named by the instruction word's
// register fields (for the violation message only).
func (k *kase) regsUsed() string {
	w := k.word()
	var idx []int
	if k.Arch == "la64" {
		idx = []int{int(w & 31), int(w >> 5 & 31), int(w >> 10 & 31)}
	} else {
		idx = []int{int(w >> 7 & 31), int(w >> 15 & 31), int(w >> 20 & 31)}
	}
	sort.Ints(idx)
	var parts []string
	for i, r := range idx {
		if i > 0 && idx[i-1] == r {
			continue
		}
		parts = append(parts, fmt.Sprintf("r%d=%#x", r, k.X[r]))
	}
	return strings.Join(parts, " ")
}

func replayCase(raw json.RawMessage) (verdict, string, string) {
	var k kase
	if err := json.Unmarshal(raw, &k); err != nil {
		return verdict{}, "harness/bad-replay", err.Error()
	}
	return evalCase(&k)
}
