// Package c20 checks property C20 (one step of the wemu emulator has ISA
// semantics) against a reference single-step interpreter written in this
// package from the ISA manuals:
//
//   - ref_rv.go: RISC-V unprivileged ISA (RV32I / RV64I base + M), chapter 2
//     (RV32I), 4 (RV64I), 13 (M) and the instruction listings of chapter 35.
//   - ref_la.go: LoongArch reference manual vol. 1, chapter 2 (basic integer
//     instructions) and 3 (basic floating-point instructions), encodings from
//     appendix B.
//
// The reference is the trusted base of the check.  It is deliberately dumb:
// one small function per instruction, math/big for multiply-high and
// division, no code shared with (or derived from) the emulator.
package c20

import (
	"math"
	"math/big"
	"sort"
)

// ---------------------------------------------------------------- memory

// Mem is a total, immutable byte memory: every address has a value.  Bytes
// listed in Over win; all other bytes are a fixed pseudo-random function of
// (Seed, address), so that an access to a wrong address reads different data.
type Mem struct {
	Seed uint64
	Over map[uint64]byte
}

func mix64(x uint64) uint64 {
	x += 0x9e3779b97f4a7c15
	x = (x ^ (x >> 30)) * 0xbf58476d1ce4e5b9
	x = (x ^ (x >> 27)) * 0x94d049bb133111eb
	return x ^ (x >> 31)
}

// Byte returns the content of one address.
func (m *Mem) Byte(a uint64) byte {
	if b, ok := m.Over[a]; ok {
		return b
	}
	return byte(mix64(m.Seed^(a>>3)*0x2545f4914f6cdd1d) >> (8 * (a & 7)))
}

// Load returns size (1,2,4,8) bytes at a, little endian.
func (m *Mem) Load(a uint64, size int) uint64 {
	var v uint64
	for i := 0; i < size; i++ {
		v |= uint64(m.Byte(a+uint64(i))) << (8 * uint(i))
	}
	return v
}

// Put overlays bytes (little endian value of the given size) at a.
func (m *Mem) Put(a uint64, size int, v uint64) {
	if m.Over == nil {
		m.Over = map[uint64]byte{}
	}
	for i := 0; i < size; i++ {
		m.Over[a+uint64(i)] = byte(v >> (8 * uint(i)))
	}
}

// Access is one memory write (or read) as seen on the bus.
type Access struct {
	Addr  uint64 `json:"addr"`
	Size  int    `json:"size"`
	Value uint64 `json:"value"`
}

func maskSize(v uint64, size int) uint64 {
	if size >= 8 {
		return v
	}
	return v & (1<<(8*uint(size)) - 1)
}

// bytesOf flattens a write list to its net byte-level effect.
func bytesOf(ws []Access) map[uint64]byte {
	out := map[uint64]byte{}
	for _, w := range ws {
		for i := 0; i < w.Size; i++ {
			out[w.Addr+uint64(i)] = byte(w.Value >> (8 * uint(i)))
		}
	}
	return out
}

// ---------------------------------------------------------------- machine

// Outcome of a reference step.
type Outcome int

const (
	OK         Outcome = iota // executed; state is the architecturally defined result
	Illegal                   // reserved / undefined encoding for this ISA: outside the domain
	Unmodelled                // a valid instruction the reference does not model
	EnvDefined                // result is left to the execution environment (trap, fault): not compared
)

func (o Outcome) String() string {
	return [...]string{"ok", "illegal", "unmodelled", "env-defined"}[o]
}

// StepInfo describes what the reference did.
type StepInfo struct {
	Mn         string // mnemonic, upper case ("ADDI", "ADD.W")
	Outcome    Outcome
	Why        string
	Tags       []string    // operand classes that make the case non-trivial
	WroteX     int         // integer register written (-1 none)
	FPrec      map[int]int // FP registers written -> 32 or 64 (precision to compare at)
	Misaligned bool        // a data access was not naturally aligned (success is optional per spec)
}

func (s *StepInfo) tag(t string) {
	for _, x := range s.Tags {
		if x == t {
			return
		}
	}
	s.Tags = append(s.Tags, t)
	sort.Strings(s.Tags)
}

// Machine is the architecturally visible state the property talks about.
type Machine struct {
	XLen   int // 32 or 64
	X      [32]uint64
	F      [32]float64 // FP registers in the emulator's value model (single = exactly widened)
	PC     uint64
	Mem    *Mem
	Writes []Access
	next   uint64
}

func (m *Machine) tr(v uint64) uint64 {
	if m.XLen == 32 {
		return v & 0xffffffff
	}
	return v
}

// sx reads an XLEN-bit register value as a signed number.
func (m *Machine) sx(v uint64) int64 {
	if m.XLen == 32 {
		return int64(int32(uint32(v)))
	}
	return int64(v)
}

// rx reads integer register i (register 0 reads as zero).
func (m *Machine) rx(i int) uint64 {
	if i == 0 {
		return 0
	}
	return m.tr(m.X[i])
}

// wx writes integer register i (writes to register 0 are discarded).
func (m *Machine) wx(i int, v uint64, info *StepInfo) {
	info.WroteX = i
	if i == 0 {
		info.tag("rd=x0")
		return
	}
	m.X[i] = m.tr(v)
}

func (m *Machine) wf(i int, v float64, prec int, info *StepInfo) {
	m.F[i] = v
	if info.FPrec == nil {
		info.FPrec = map[int]int{}
	}
	info.FPrec[i] = prec
}

// load performs a data read of size bytes; ok=false when the access wraps
// around the end of the address space (left to the environment).
func (m *Machine) load(ea uint64, size int, info *StepInfo) (uint64, bool) {
	if !m.spanOK(ea, size, info) {
		return 0, false
	}
	return m.Mem.Load(ea, size), true
}

func (m *Machine) store(ea uint64, size int, v uint64, info *StepInfo) bool {
	if !m.spanOK(ea, size, info) {
		return false
	}
	m.Writes = append(m.Writes, Access{Addr: ea, Size: size, Value: maskSize(v, size)})
	return true
}

func (m *Machine) spanOK(ea uint64, size int, info *StepInfo) bool {
	top := ^uint64(0)
	if m.XLen == 32 {
		top = 0xffffffff
	}
	if ea > top-uint64(size)+1 || ea >= ^uint64(0)-8 {
		info.Outcome, info.Why = EnvDefined, "data access wraps the end of the address space"
		return false
	}
	if ea%uint64(size) != 0 {
		info.Misaligned = true
		info.tag("misaligned")
	}
	return true
}

// ---------------------------------------------------------------- arithmetic helpers

func sext(v uint64, bits uint) uint64 {
	sh := 64 - bits
	return uint64(int64(v<<sh) >> sh)
}

func sext32(v uint64) uint64 { return uint64(int64(int32(uint32(v)))) }

func bigS(v int64) *big.Int  { return new(big.Int).SetInt64(v) }
func bigU(v uint64) *big.Int { return new(big.Int).SetUint64(v) }

// low64 returns the low 64 bits of a (possibly negative) big integer in
// two's complement.
func low64(x *big.Int) uint64 {
	mod := new(big.Int).Lsh(big.NewInt(1), 64)
	r := new(big.Int).Mod(x, mod) // Euclidean: 0 <= r < 2^64
	return r.Uint64()
}

// mulHigh returns bits [2n-1:n] of the product a*b (n = 32 or 64), where a
// and b are already given as mathematical integers.
func mulHigh(a, b *big.Int, n uint) uint64 {
	p := new(big.Int).Mul(a, b)
	p.Rsh(p, n) // arithmetic shift (floor) for negative values
	return low64(p)
}

// divTrunc is signed division rounding toward zero; b != 0.
func divTrunc(a, b int64) int64 {
	return new(big.Int).Quo(bigS(a), bigS(b)).Int64()
}

// remTrunc is the remainder of divTrunc (sign of the dividend); b != 0.
func remTrunc(a, b int64) int64 {
	return new(big.Int).Rem(bigS(a), bigS(b)).Int64()
}

// sameFloat compares two FP values at the given precision; NaN ≡ NaN.
func sameFloat(a, b float64, prec int) bool {
	if prec == 32 {
		x, y := float32(a), float32(b)
		if x != x || y != y {
			return x != x && y != y
		}
		return math.Float32bits(x) == math.Float32bits(y)
	}
	if a != a || b != b {
		return a != a && b != b
	}
	return math.Float64bits(a) == math.Float64bits(b)
}
