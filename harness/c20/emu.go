package c20

// Driving the emulator under test through its public API only:
// device.CPU (StepRun/SetXReg/GetXReg/SetFReg/GetFReg/SetPC/GetPC) and a
// harness device.Device that covers the whole address space, serves reads from
// the case's total memory function and records every access.

import (
	"fmt"
	"strings"
	"sync"

	"wa-lang.org/wa/internal/native/wemu/device"
	emula "wa-lang.org/wa/internal/native/wemu/loong64"
	emurv32 "wa-lang.org/wa/internal/native/wemu/riscv32"
	emurv64 "wa-lang.org/wa/internal/native/wemu/riscv64"
)

type archT struct {
	name string // rv64 | rv32 | la64
	xlen int
	isLA bool

	mu  sync.Mutex
	cpu device.CPU // reused between cases (Reset before every use); allocating the 32 KiB CSR file per case dominates otherwise
}

var (
	archRV64 = &archT{name: "rv64", xlen: 64}
	archRV32 = &archT{name: "rv32", xlen: 32}
	archLA64 = &archT{name: "la64", xlen: 64, isLA: true}
	archs    = []*archT{archRV64, archRV32, archLA64}
)

func archByName(n string) *archT {
	for _, a := range archs {
		if a.name == n {
			return a
		}
	}
	return nil
}

func (a *archT) newCPU() device.CPU {
	switch a.name {
	case "rv64":
		return emurv64.NewCPU()
	case "rv32":
		return emurv32.NewCPU()
	}
	return emula.NewCPU()
}

// probe instruction used to observe register 0 "as subsequently read":
// rv: add x1, x0, x0    la: or $r1, $r0, $r0
func (a *archT) probeWord() uint32 {
	if a.isLA {
		return 0x00150001
	}
	return 0x000000b3
}

// recDev is the bus device: whole address space, total memory, recorder.
type recDev struct {
	mem       *Mem
	post      map[uint64]byte // bytes written during the step
	writes    []Access
	reads     []Access
	probePC   uint64
	probeWord uint32
	probing   bool
}

func (d *recDev) Name() string      { return "c20-recorder" }
func (d *recDev) AddrBegin() uint64 { return 0 }
func (d *recDev) AddrEnd() uint64   { return ^uint64(0) }

func (d *recDev) Read(addr, size uint64) (uint64, error) {
	if size != 1 && size != 2 && size != 4 && size != 8 {
		return 0, fmt.Errorf("c20-recorder: bad read size %d", size)
	}
	if d.probing && addr == d.probePC && size == 4 {
		return uint64(d.probeWord), nil
	}
	var v uint64
	for i := uint64(0); i < size; i++ {
		b, ok := d.post[addr+i]
		if !ok {
			b = d.mem.Byte(addr + i)
		}
		v |= uint64(b) << (8 * i)
	}
	d.reads = append(d.reads, Access{Addr: addr, Size: int(size), Value: v})
	return v, nil
}

func (d *recDev) Write(addr, size, value uint64) error {
	if size != 1 && size != 2 && size != 4 && size != 8 {
		return fmt.Errorf("c20-recorder: bad write size %d", size)
	}
	value = maskSize(value, int(size))
	d.writes = append(d.writes, Access{Addr: addr, Size: int(size), Value: value})
	if d.post == nil {
		d.post = map[uint64]byte{}
	}
	for i := uint64(0); i < size; i++ {
		d.post[addr+i] = byte(value >> (8 * i))
	}
	return nil
}

// emuResult is the state after one emulator step.
type emuResult struct {
	X       [32]uint64
	F       [32]float64
	PC      uint64
	Writes  []Access
	Reads   []Access // data reads (the instruction fetch removed)
	Err     string   // StepRun error
	Panic   string   // recovered panic value
	Stack   string
	X0Probe string // non-empty: register 0 did not read as zero in the following instruction
}

// disasm is the emulator's own rendering of a word (violation messages only).
func (a *archT) disasm(word uint32) string { return safeDisasm(a.newCPU(), word) }

type emuClass int

const (
	emuOK emuClass = iota
	emuUnsupported
	emuUndecodable
	emuError
	emuPanic
)

func (r *emuResult) class() emuClass {
	switch {
	case r.Panic == "TODO":
		return emuUnsupported
	case r.Panic != "":
		return emuPanic
	case r.Err == "":
		return emuOK
	case strings.Contains(r.Err, "fetch instruntion failed"):
		return emuUndecodable
	case strings.Contains(r.Err, "unsupport") || strings.Contains(r.Err, "privileged"):
		return emuUnsupported
	}
	return emuError
}

func safeStep(cpu device.CPU, bus *device.Bus) (errStr, panicStr, stack string) {
	defer func() {
		if r := recover(); r != nil {
			panicStr = fmt.Sprint(r)
			if panicStr == "" {
				panicStr = "(empty panic)"
			}
			stack = stackHere()
		}
	}()
	if err := cpu.StepRun(bus); err != nil {
		return err.Error(), "", ""
	}
	return "", "", ""
}

// safeDisasm is informational only (the disassembler is not part of C20 and
// panics on some words).
func safeDisasm(cpu device.CPU, word uint32) (s string) {
	defer func() {
		if recover() != nil {
			s = "(disassembler panicked)"
		}
	}()
	s, err := cpu.InstString(word)
	if err != nil {
		return "(" + err.Error() + ")"
	}
	return s
}

// runEmu loads the initial state into a fresh CPU, executes one StepRun and
// reads the state back.  wroteX0 asks for the follow-up probe of register 0.
func runEmu(a *archT, init *Machine, word uint32, wroteX0 bool) *emuResult {
	mem := &Mem{Seed: init.Mem.Seed, Over: map[uint64]byte{}}
	for k, v := range init.Mem.Over {
		mem.Over[k] = v
	}
	mem.Put(init.PC, 4, uint64(word)) // the instruction wins over data placed at the same bytes
	dev := &recDev{mem: mem, probeWord: a.probeWord()}
	bus := device.NewBus()
	bus.MapDevice(dev)
	a.mu.Lock()
	defer a.mu.Unlock()
	if a.cpu == nil {
		a.cpu = a.newCPU()
	}
	cpu := a.cpu
	cpu.Reset(0, 0)
	for i := 0; i < 32; i++ {
		cpu.SetXReg(i, init.X[i])
		cpu.SetFReg(i, init.F[i])
	}
	cpu.SetPC(init.PC)

	res := &emuResult{}
	res.Err, res.Panic, res.Stack = safeStep(cpu, bus)
	for i := 0; i < 32; i++ {
		res.X[i] = cpu.GetXReg(i)
		res.F[i] = cpu.GetFReg(i)
	}
	res.PC = cpu.GetPC()
	res.Writes = dev.writes
	for i, rd := range dev.reads {
		if i == 0 && rd.Addr == init.PC && rd.Size == 4 {
			continue
		}
		res.Reads = append(res.Reads, rd)
	}
	if wroteX0 && res.Err == "" && res.Panic == "" {
		// register 0 "as subsequently read": execute  r1 <- r0 op r0  next.
		dev.probing = true
		dev.probePC = 0x4000
		if a.xlen == 64 && init.PC>>32 != 0 {
			dev.probePC = init.PC&^0xffff + 0x10000
		}
		cpu.SetPC(dev.probePC)
		e, p, _ := safeStep(cpu, bus)
		if e != "" || p != "" {
			res.X0Probe = "probe instruction failed: " + e + p
		} else if v := cpu.GetXReg(1); v != 0 {
			res.X0Probe = fmt.Sprintf("the next instruction read register 0 as %#x", v)
		}
	}
	return res
}
