package c20

import (
	"encoding/json"
	"fmt"
	"math"
	"math/bits"
	"os"
	"path/filepath"
	"sort"
	"strings"
	"sync"
	"testing"

	"pgregory.net/rapid"
	"wa-lang.org/wa/zverif/harness/core"
)

const prop = "C20"

func TestMain(m *testing.M) { core.Main(m) }

// ---------------------------------------------------------------- value generators

var lims = []uint64{
	0, 1, 2, ^uint64(0), ^uint64(0) - 1,
	1 << 63, 1<<63 - 1, 1<<63 + 1,
	1 << 31, 1<<31 - 1, 1<<31 + 1, 1 << 32, 1<<32 - 1, 1<<32 + 1,
	0xffffffff80000000, 0xffffffff7fffffff, 0xffffffff80000001, 0xffffffff00000000,
	0x8000000080000000, 0x7fffffff7fffffff, 0x0000000100000000, 0x5555555555555555, 0xaaaaaaaaaaaaaaaa,
}

// genVal: boundary-biased 64-bit register values.
func genVal() *rapid.Generator[uint64] {
	return rapid.Custom(func(t *rapid.T) uint64 {
		switch rapid.IntRange(0, 6).Draw(t, "vclass") {
		case 0:
			return rapid.SampledFrom(lims).Draw(t, "lim")
		case 1:
			k := rapid.UintRange(0, 63).Draw(t, "k")
			v := uint64(1)<<k + uint64(rapid.Int64Range(-2, 2).Draw(t, "d"))
			if rapid.Bool().Draw(t, "neg") {
				v = -v
			}
			return v
		case 2:
			return uint64(rapid.Int64Range(-70, 70).Draw(t, "small"))
		case 3: // low 32 bits a boundary value, arbitrary high half (exercises the *W forms)
			lo := rapid.SampledFrom([]uint64{0, 1, 0x7fffffff, 0x80000000, 0xffffffff, 0xfffffffe}).Draw(t, "lo32")
			return uint64(rapid.Uint32().Draw(t, "hi32"))<<32 | lo
		case 4: // a shift amount with high bits set
			return rapid.Uint64().Draw(t, "hibits")&^0x3f | uint64(rapid.IntRange(0, 63).Draw(t, "sh"))
		default:
			return rapid.Uint64().Draw(t, "any")
		}
	})
}

// genSecond: the second operand, related to the first with some probability.
func genSecond(t *rapid.T, first uint64) uint64 {
	switch rapid.IntRange(0, 7).Draw(t, "rel") {
	case 0:
		return first
	case 1:
		return first + 1
	case 2:
		return first - 1
	case 3:
		return -first
	case 4:
		return uint64(rapid.IntRange(0, 70).Draw(t, "shamt"))
	default:
		return genVal().Draw(t, "v2")
	}
}

var fbits32 = []uint32{0, 0x80000000, 0x3f800000, 0xbf800000, 0x7f800000, 0xff800000, 0x7fc00000, 0x7f800001,
	0x00000001, 0x807fffff, 0x00800000, 0x7f7fffff, 0xff7fffff, 0x3f800001, 0x33800000, 0x4b800000}
var fbits64 = []uint64{0, 1 << 63, 0x3ff0000000000000, 0xbff0000000000000, 0x7ff0000000000000, 0xfff0000000000000,
	0x7ff8000000000000, 0x7ff0000000000001, 1, 0x800fffffffffffff, 0x0010000000000000, 0x7fefffffffffffff,
	0xffefffffffffffff, 0x3ff0000000000001, 0x3ca0000000000000, 0x4340000000000000}

func genFloat(t *rapid.T, prec int, label string) float64 {
	if prec == 32 {
		var b uint32
		if rapid.Bool().Draw(t, label+"/special") {
			b = rapid.SampledFrom(fbits32).Draw(t, label+"/s32")
		} else {
			b = rapid.Uint32().Draw(t, label+"/b32")
		}
		return float64(math.Float32frombits(b))
	}
	if rapid.Bool().Draw(t, label+"/special") {
		return math.Float64frombits(rapid.SampledFrom(fbits64).Draw(t, label+"/s64"))
	}
	return math.Float64frombits(rapid.Uint64().Draw(t, label+"/b64"))
}

func genPC(t *rapid.T, a *archT) uint64 {
	var fixed []uint64
	switch a.name {
	case "rv64":
		fixed = []uint64{0x80000000, 0x80000ffc, 0x1000, 0x7ffffff8, 0x120000000, 0xfffffffffffff000, 0x100000000 - 4}
	case "rv32":
		fixed = []uint64{0x80000000, 0x80000ffc, 0x1000, 0x7ffffff8, 0xffffe000}
	default:
		fixed = []uint64{0x120000000, 0x120000ffc, 0x1000, 0x9000000000200000, 0xfffffffffffff000, 0x7ffffff8}
	}
	if rapid.IntRange(0, 3).Draw(t, "pcclass") != 0 {
		return rapid.SampledFrom(fixed).Draw(t, "pc")
	}
	return fixed[0] + 4*uint64(rapid.IntRange(0, 1<<20).Draw(t, "pcoff"))
}

// genEA: an effective address for a data access of the given size.
func genEA(t *rapid.T, a *archT, size int, pc uint64) uint64 {
	if rapid.IntRange(0, 31).Draw(t, "ea-at-pc") == 0 { // data access to the instruction itself / its neighbours
		return pc + uint64(rapid.IntRange(-8, 8).Draw(t, "eapcoff"))
	}
	bases := []uint64{0x80002000, 0x2000, 0x80fffff0}
	if a.xlen == 64 {
		bases = append(bases, 0x120002000, 0x9000000000300000, 0xffffffff00000000)
	} else {
		bases = append(bases, 0xffff0000)
	}
	ea := rapid.SampledFrom(bases).Draw(t, "eabase") + 8*uint64(rapid.IntRange(0, 255).Draw(t, "eaoff"))
	if size > 1 && rapid.IntRange(0, 4).Draw(t, "misalign") == 0 {
		ea += uint64(rapid.IntRange(1, size-1).Draw(t, "eamis"))
	}
	return ea
}

var divPairs = [][2]uint64{
	{1 << 63, ^uint64(0)}, {0xffffffff80000000, ^uint64(0)}, {0x80000000, 0xffffffff}, {0x1234567880000000, 0xabcdef01ffffffff},
	{7, 0}, {7, 0x100000000}, {0xffffffff80000000, 0xffffffff00000000}, {^uint64(0), 1 << 63},
}

// aliasNote names the register-aliasing class of a case (generator health).
func aliasNote(rd, r1, r2 int, hasR2 bool) string {
	var parts []string
	if rd == 0 {
		parts = append(parts, "rd=x0")
	}
	if r1 == 0 {
		parts = append(parts, "rs1=x0")
	}
	if rd == r1 && rd != 0 {
		parts = append(parts, "rd=rs1")
	}
	if hasR2 {
		if rd == r2 && rd != 0 {
			parts = append(parts, "rd=rs2")
		}
		if r1 == r2 {
			parts = append(parts, "rs1=rs2")
		}
	}
	if len(parts) == 0 {
		return "alias:none"
	}
	return "alias:" + strings.Join(parts, "+")
}

// regs3 draws three register numbers with explicit aliasing choices.
func regs3(t *rapid.T) (rd, r1, r2 int) {
	reg := func(l string) int {
		if rapid.IntRange(0, 5).Draw(t, l+"/zero") == 0 {
			return 0
		}
		return rapid.IntRange(1, 31).Draw(t, l)
	}
	rd, r1, r2 = reg("rd"), reg("r1"), reg("r2")
	switch rapid.IntRange(0, 9).Draw(t, "alias") {
	case 0:
		rd = r1
	case 1:
		rd = r2
	case 2:
		r1 = r2
	case 3:
		rd, r1 = r2, r2
	case 4:
		rd = 0
	}
	return
}

// ---------------------------------------------------------------- case construction

// hot mnemonic: supported by the emulator, modelled by the reference, not a
// listed known finding.
type hotMn struct {
	src  string // "repo" | "spec"
	name string // reference mnemonic
	repo repoMn // for src == "repo"
}

type archPlan struct {
	hot      []hotMn
	excluded []string // known-finding keys excluded from generation
}

var (
	planOnce [3]sync.Once
	plans    [3]*archPlan
)

func (a *archT) plan() *archPlan {
	i := a.index()
	planOnce[i].Do(func() {
		mx := a.supportMatrix()
		p := &archPlan{}
		seenEx := map[string]bool{}
		add := func(h hotMn) {
			key := a.name + "/" + h.name
			if core.IsKnown(prop, key) {
				if !seenEx[key] {
					seenEx[key] = true
					p.excluded = append(p.excluded, key)
				}
				return
			}
			p.hot = append(p.hot, h)
		}
		for _, st := range mx.repo {
			if st.hot() && !st.refIllegal {
				add(hotMn{src: "repo", name: st.refName, repo: st.repoMn})
			}
		}
		for _, st := range mx.spec {
			if st.supported > 0 {
				add(hotMn{src: "spec", name: st.name})
			}
		}
		sort.Strings(p.excluded)
		plans[i] = p
	})
	return plans[i]
}

func hex(v uint64) string { return fmt.Sprintf("%x", v) }

// genCase draws one case for arch a.  It returns nil when the repo encoder
// refused the drawn operands (counted by the caller).
func genCase(t *rapid.T, a *archT, h hotMn) (*kase, string) {
	k := &kase{Arch: a.name, Src: h.src + ":" + h.name}
	if h.src == "repo" {
		k.Src = "repo:" + h.repo.name
	}
	k.PC = genPC(t, a)
	k.MemSeed = rapid.Uint64().Draw(t, "memseed")
	regSeed := rapid.Uint64().Draw(t, "regseed")
	for i := range k.X {
		k.X[i] = core.SplitMix(regSeed + uint64(i))
	}
	if a.isLA {
		return genLA(t, a, h, k)
	}
	return genRV(t, a, h, k)
}

func (k *kase) setX(a *archT, i int, v uint64) {
	if i == 0 {
		return
	}
	if a.xlen == 32 {
		v &= 0xffffffff
	}
	k.X[i] = v
}

func (k *kase) putMem(addr uint64, size int, v uint64) {
	if k.Mem == nil {
		k.Mem = map[string]string{}
	}
	s := ""
	for i := 0; i < size; i++ {
		s += fmt.Sprintf("%02x", byte(v>>(8*uint(i))))
	}
	k.Mem[hex(addr)] = s
}

func genImm12(t *rapid.T) int64 {
	if rapid.IntRange(0, 2).Draw(t, "immclass") == 0 {
		return rapid.SampledFrom([]int64{0, 1, -1, 2047, -2048, 4, -4, 1024, -1024, 31, 32, 63}).Draw(t, "immb")
	}
	return int64(rapid.IntRange(-2048, 2047).Draw(t, "imm"))
}

func genRV(t *rapid.T, a *archT, h hotMn, k *kase) (*kase, string) {
	in := rvLookup(h.name)
	rd, r1, r2 := regs3(t)
	o := rvOps{rd: rd, rs1: r1, rs2: r2}
	switch in.fmt {
	case rvI, rvS:
		o.imm = genImm12(t)
	case rvFence:
		o.imm = int64(rapid.IntRange(0, 255).Draw(t, "predsucc"))
	case rvSh:
		o.imm = int64(rapid.IntRange(0, a.xlen-1).Draw(t, "shamt"))
	case rvShW:
		o.imm = int64(rapid.IntRange(0, 31).Draw(t, "shamt"))
	case rvB:
		o.imm = 4 * int64(rapid.IntRange(-1024, 1023).Draw(t, "boff"))
	case rvU:
		o.imm = int64(int32(uint32(rapid.SampledFrom([]int{0, 1, 0x7ffff, 0x80000, 0xfffff, 0x80001}).Draw(t, "u20b")) << 12))
		if rapid.Bool().Draw(t, "u20any") {
			o.imm = int64(int32(uint32(rapid.IntRange(0, 0xfffff).Draw(t, "u20")) << 12))
		}
	case rvJ:
		o.imm = 4 * int64(rapid.IntRange(-(1<<18), 1<<18-1).Draw(t, "joff"))
	}
	if in.name == "JALR" && o.rs1 == 0 {
		o.imm &^= 2 // target = imm &^ 1 must stay 4-byte aligned
	}
	var w uint32
	if h.src == "repo" {
		var e string
		if w, e = rvRepoEncode(a, h.repo.as, in, o); e != "" {
			return nil, e
		}
	} else {
		w = rvEncode(in, o, a.xlen)
	}
	k.Word = fmt.Sprintf("%08x", w)
	// operand values are chosen for the fields the *word* carries (reference decoding)
	din, d, st, _ := rvDecode(w, a.xlen)
	if din == nil || st != OK {
		return k, ""
	}
	v1 := genVal().Draw(t, "v1")
	v2 := genSecond(t, v1)
	if rapid.IntRange(0, 11).Draw(t, "divpair") == 0 { // quotient overflow / zero divisor in the low word only
		pr := rapid.SampledFrom(divPairs).Draw(t, "pair")
		v1, v2 = pr[0], pr[1]
	}
	k.setX(a, d.rs1, v1)
	if d.rs2 != d.rs1 {
		k.setX(a, d.rs2, v2)
	}
	k.Note = aliasNote(d.rd, d.rs1, d.rs2, din.fmt == rvR || din.fmt == rvS || din.fmt == rvB)
	switch {
	case din.opcode == opLOAD || din.opcode == opSTORE:
		size := map[uint32]int{0: 1, 1: 2, 2: 4, 3: 8}[din.f3&3]
		ea := genEA(t, a, size, k.PC)
		if d.rs1 != 0 {
			k.setX(a, d.rs1, ea-uint64(d.imm))
		} else {
			ea = uint64(d.imm)
			if a.xlen == 32 {
				ea &= 0xffffffff
			}
		}
		if din.opcode == opLOAD {
			k.Mem = map[string]string{}
			k.Mem[hex(ea&^7)] = fmt.Sprintf("%016x%016x", bits.ReverseBytes64(genVal().Draw(t, "memlo")), bits.ReverseBytes64(genVal().Draw(t, "memhi")))
		}
	case din.name == "JALR":
		target := genPC(t, a)
		if d.rs1 != 0 {
			k.setX(a, d.rs1, target+uint64(rapid.IntRange(0, 1).Draw(t, "bit0"))-uint64(d.imm))
		}
	}
	return k, ""
}

func genLA(t *rapid.T, a *archT, h hotMn, k *kase) (*kase, string) {
	in := laLookup(h.name)
	rd, rj, rk := regs3(t)
	o := laOps{rd: rd, rj: rj, rk: rk}
	switch in.fmt {
	case la2RUi5:
		o.imm = int64(rapid.IntRange(0, 31).Draw(t, "ui5"))
	case la2RUi6:
		o.imm = int64(rapid.IntRange(0, 63).Draw(t, "ui6"))
	case la2RSi12:
		o.imm = genImm12(t)
	case la2RUi12:
		o.imm = int64(rapid.SampledFrom([]int{0, 1, 0x7ff, 0x800, 0xfff, -1}).Draw(t, "ui12b"))
		if o.imm < 0 {
			o.imm = int64(rapid.IntRange(0, 0xfff).Draw(t, "ui12"))
		}
	case la2RSi16:
		o.imm = int64(rapid.IntRange(-(1 << 15), 1<<15-1).Draw(t, "si16"))
	case la1RSi20:
		o.imm = int64(rapid.SampledFrom([]int{0, 1, -1, 0x7ffff, -0x80000, 0x12345}).Draw(t, "si20b"))
		if rapid.Bool().Draw(t, "si20any") {
			o.imm = int64(rapid.IntRange(-(1 << 19), 1<<19-1).Draw(t, "si20"))
		}
	case laBrRjRd, laJirl:
		o.imm = 4 * int64(rapid.IntRange(-(1<<15), 1<<15-1).Draw(t, "off16"))
	case laBrRj:
		o.imm = 4 * int64(rapid.IntRange(-(1<<20), 1<<20-1).Draw(t, "off21"))
	case laBr26:
		o.imm = 4 * int64(rapid.IntRange(-(1<<25), 1<<25-1).Draw(t, "off26"))
	case la3RSa2:
		o.imm = int64(rapid.IntRange(0, 3).Draw(t, "sa2"))
	}
	var w uint32
	if h.src == "repo" {
		var e string
		if w, e = laRepoEncode(h.repo.as, in, o); e != "" {
			return nil, e
		}
	} else {
		w = laEncode(in, o)
	}
	k.Word = fmt.Sprintf("%08x", w)
	din, d, _ := laDecode(w)
	if din == nil {
		return k, ""
	}
	v1 := genVal().Draw(t, "v1")
	v2 := genSecond(t, v1)
	switch din.fmt {
	case laBrRjRd:
		k.setX(a, d.rj, v1)
		if d.rd != d.rj {
			k.setX(a, d.rd, v2)
		}
	case la3F:
		prec := 64
		if strings.HasSuffix(din.name, ".S") {
			prec = 32
		}
		k.F = map[string]string{}
		fj := genFloat(t, prec, "fj")
		k.F[fmt.Sprint(d.rj)] = hex(math.Float64bits(fj))
		if d.rk != d.rj {
			k.F[fmt.Sprint(d.rk)] = hex(math.Float64bits(genFloat(t, prec, "fk")))
		}
	default:
		k.setX(a, d.rj, v1)
		if d.rk != d.rj {
			k.setX(a, d.rk, v2)
		}
	}
	k.Note = aliasNote(d.rd, d.rj, d.rk, din.fmt == la3R || din.fmt == la3F || din.fmt == la3RSa2)
	isLoad := strings.HasPrefix(din.name, "LD.")
	isStore := strings.HasPrefix(din.name, "ST.")
	if isLoad || isStore {
		size := map[byte]int{'B': 1, 'H': 2, 'W': 4, 'D': 8}[din.name[3]]
		ea := genEA(t, a, size, k.PC)
		if d.rj != 0 {
			k.setX(a, d.rj, ea-uint64(d.imm))
		} else {
			ea = uint64(d.imm)
		}
		if isStore && d.rd != d.rj {
			k.setX(a, d.rd, v2)
		}
		if isLoad {
			k.Mem = map[string]string{}
			k.Mem[hex(ea&^7)] = fmt.Sprintf("%016x%016x", bits.ReverseBytes64(genVal().Draw(t, "memlo")), bits.ReverseBytes64(genVal().Draw(t, "memhi")))
		}
	}
	if din.name == "JIRL" && d.rj != 0 {
		k.setX(a, d.rj, genPC(t, a)-uint64(d.imm))
	}
	return k, ""
}

// ---------------------------------------------------------------- survey mode (development aid)

// With C20_SURVEY=<dir> the step properties do not stop at the first
// violation: every distinct key is recorded once (replay file in <dir>) and
// the search continues, which lists all root causes in one run.
var (
	surveyMu   sync.Mutex
	surveySeen = map[string]bool{}
)

func survey(test, key, what string, k *kase) bool {
	dir := os.Getenv("C20_SURVEY")
	if dir == "" {
		return false
	}
	surveyMu.Lock()
	defer surveyMu.Unlock()
	if surveySeen[key] {
		return true
	}
	surveySeen[key] = true
	raw, _ := json.Marshal(k)
	rf := core.ReplayFile{Property: prop, Test: test, Key: key, What: what, Seed: core.Seed(), Case: raw}
	data, _ := json.MarshalIndent(rf, "", " ")
	os.MkdirAll(dir, 0o755)
	os.WriteFile(filepath.Join(dir, strings.NewReplacer("/", "_", ".", "_").Replace(key)+".json"), data, 0o644)
	fmt.Printf("SURVEY %s: %s\n", key, strings.SplitN(what, "\n", 2)[0])
	return true
}

// ---------------------------------------------------------------- properties

func stepProperty(t *testing.T, a *archT, testName string) {
	s := core.NewStats(prop, testName)
	s.Rule("rapid: mnemonic drawn from those the emulator supports and the reference models (per-run support matrix), instruction word from the repository's encoder (src=repo) or from the reference encoder for the same ISA manual encoding (src=spec); register numbers with aliasing choices (rd=rs1, rd=rs2, rs1=rs2, rd=x0, x0 as source), boundary-biased 64-bit operand values with related second operands (equal, ±1, negated, shift amounts with high bits), boundary and random immediates, pc from DRAM base / low / high / >4 GiB values, aligned and misaligned effective addresses, biased memory contents; oracle = hand-written reference step: x1..x31, pc, all FP registers (NaN≡NaN, at the instruction's precision), ordered memory writes, and register 0 as read by a following instruction; non-trivial = distinct (arch, mnemonic, operand-class set) where the set contains at least one of: negative operand, shift amount with high bits, rd=x0, taken / not-taken branch, equal operands, backward offset, misaligned address, division by zero / overflow, JALR target with bit 0 set")
	s.Assume("the reference ISA model in harness/c20/ref_*.go (hand-written from the RISC-V unprivileged manual and the LoongArch reference manual vol. 1) is trusted; there is no qemu/spike in the sandbox")
	s.Assume("single-precision FP operands live in the emulator's float64 register model as exactly widened values")
	p := a.plan()
	for _, key := range p.excluded {
		s.Counter("excluded_by_known/"+key, 1)
	}
	if len(p.hot) == 0 {
		t.Fatalf("no supported+modelled mnemonic for %s: the check would be vacuous", a.name)
	}
	s.Check(t, func(t *rapid.T, c *core.Case) {
		h := rapid.SampledFrom(p.hot).Draw(t, "mnemonic")
		k, encErr := genCase(t, a, h)
		if k == nil {
			s.Counter("rejected_by_domain/repo-encoder-refused/"+a.name+"/"+h.name, 1)
			s.Note("repo encoder refused in-range operands for " + a.name + "/" + h.name + ": " + encErr)
			t.Skip("encoder refused")
		}
		c.Set(k)
		v, key, what := evalCase(k)
		if key != "" {
			if survey(testName, key, what, k) {
				return
			}
			c.Fail(key, "%s", what)
			return
		}
		switch v.Status {
		case "compared":
			c.Class(a.name + "/" + v.Mn + "/compared")
			c.Class(a.name + "/" + k.Note)
			if h.src == "repo" && v.Mn != h.repo.name {
				s.Counter("repo_encoder_emitted_other_instruction/"+a.name+"/"+h.repo.name+"->"+v.Mn, 1)
			}
			if len(v.Tags) > 0 {
				c.Nontrivial(a.name, v.Mn, strings.Join(v.Tags, ","))
				for _, tg := range v.Tags {
					s.Count("tag/"+a.name+"/"+tg, 1)
				}
			}
		default:
			s.Counter("not_compared/"+v.Status+"/"+a.name+"/"+h.name, 1)
			t.Skip(v.Status)
		}
	})
}

func TestStepRV64(t *testing.T) { stepProperty(t, archRV64, "StepRV64") }
func TestStepRV32(t *testing.T) { stepProperty(t, archRV32, "StepRV32") }
func TestStepLA64(t *testing.T) { stepProperty(t, archLA64, "StepLA64") }

// TestSupportMatrix attempts every mnemonic of every architecture through the
// repository's encoder and the emulator (fixed operands, no randomness) and
// records the per-(arch, mnemonic) histogram: supported / unsupported /
// unmodelled / no-word.  Supported+modelled instances are compared too.
func TestSupportMatrix(t *testing.T) {
	s := core.NewStats(prop, "SupportMatrix")
	defer s.Flush()
	s.Rule("enumeration of every non-pseudo mnemonic of riscv (as RV64 and RV32) and loong64, 3 fixed operand sets each, through the repository's encoder and one emulator step; plus every reference-table instruction through the reference encoder; supported+modelled instances are compared with the reference; non-trivial = the (arch, mnemonic, variant) instances that reached a comparison")
	s.Exhaustive(true)
	if !core.FirstShard() {
		return
	}
	for _, a := range archs {
		mx := a.supportMatrix()
		var nSup, nUnsup, nUnmod, nNoWord int
		for _, st := range mx.repo {
			base := a.name + "/" + st.name + "/"
			switch {
			case st.words == 0:
				s.Count(base+"no-word", 1)
				s.Note(fmt.Sprintf("%s%s: repo encoder produced no word: %s", a.name+"/", st.name, st.encErr))
				nNoWord++
			case st.supported > 0:
				s.Count(base+"supported", int64(st.supported))
				nSup++
				if st.refName == "" || st.refIllegal {
					s.Count(base+"unmodelled", int64(st.supported))
					nUnmod++
				}
			default:
				s.Count(base+"unsupported", int64(st.unsupported+st.undecodable))
				nUnsup++
			}
			if st.undecodable > 0 {
				s.Count(base+"emu-undecodable", int64(st.undecodable))
			}
			if st.crashCase != nil { // a Go panic in StepRun is a violation whatever the instruction
				if _, key, what := evalCase(st.crashCase); key != "" && !survey("SupportMatrix", key, what, st.crashCase) {
					c := s.NewCase(t)
					c.Set(st.crashCase)
					c.Fail(key, "%s", what)
				}
			}
			if st.refName != "" && st.refName != st.name {
				s.Counter("repo_encoder_emitted_other_instruction/"+a.name+"/"+st.name+"->"+st.refName, 1)
			}
		}
		for _, st := range mx.spec {
			base := a.name + "/" + st.name + "/spec-word-"
			if st.supported > 0 {
				s.Count(base+"supported", int64(st.supported))
			}
			if st.unsupported > 0 {
				s.Count(base+"unsupported", int64(st.unsupported))
			}
			if st.undecodable > 0 {
				s.Count(base+"emu-undecodable", int64(st.undecodable))
			}
		}
		s.Counter("mnemonics_attempted/"+a.name, int64(len(mx.repo)))
		s.Counter("mnemonics_supported/"+a.name, int64(nSup))
		s.Counter("mnemonics_unsupported/"+a.name, int64(nUnsup))
		s.Counter("mnemonics_supported_but_unmodelled/"+a.name, int64(nUnmod))
		s.Counter("mnemonics_without_word/"+a.name, int64(nNoWord))

		// compare the canonical instances of hot mnemonics
		for _, h := range a.plan().hot {
			for variant := 0; variant < 3; variant++ {
				var w uint32
				var e string
				if h.src == "repo" {
					w, e = a.canonWord(h.repo, variant)
				} else if a.isLA {
					w = laEncode(laLookup(h.name), laOps{rd: 5 + variant, rj: 6 + variant, rk: 7 + variant, imm: int64(variant) * 4})
				} else {
					in := rvLookup(h.name)
					o := rvOps{rd: 5 + variant, rs1: 6 + variant, rs2: 7 + variant, imm: int64(variant) * 4}
					if in.fmt == rvU {
						o.imm <<= 12
					}
					w = rvEncode(in, o, a.xlen)
				}
				if e != "" {
					continue
				}
				m := canonMachine(a, variant)
				k := &kase{Arch: a.name, Word: fmt.Sprintf("%08x", w), Src: h.src + ":" + h.name, PC: m.PC, X: m.X, MemSeed: m.Mem.Seed}
				v, key, what := evalCase(k)
				if key != "" {
					if survey("SupportMatrix", key, what, k) {
						continue
					}
					c := s.NewCase(t)
					c.Set(k)
					c.Fail(key, "%s", what)
					continue
				}
				if v.Status == "compared" {
					s.Eval(1)
					s.Count(a.name+"/"+v.Mn+"/compared", 1)
					s.Nontrivial(core.Hash64(a.name, v.Mn, h.src, variant))
					s.Sample(k)
				}
			}
		}
	}
}

// TestRefSelf pins the reference model against the ISA manuals' own tables
// and against Go's arithmetic, and checks decode(encode(x)) = x for every
// modelled instruction.  It guards the trusted base, not the emulator.
func TestRefSelf(t *testing.T) {
	if !core.FirstShard() {
		return
	}
	s := core.NewStats(prop, "RefSelf")
	defer s.Flush()
	s.Rule("fixed vectors: M-extension division table (div by zero, overflow), multiply-high against math/bits, sign/zero extension of loads, reference encode/decode round trip of every modelled instruction; non-trivial = every vector")
	n := 0
	ok := func(cond bool, format string, args ...interface{}) {
		n++
		s.Nontrivial(core.Hash64("refself", n))
		if !cond {
			t.Errorf("reference self-check failed: "+format, args...)
		}
	}
	run := func(a *archT, w uint32, setup func(m *Machine)) (*Machine, StepInfo) {
		m := &Machine{XLen: a.xlen, PC: 0x1000, Mem: &Mem{Seed: 7}}
		setup(m)
		info := a.step(m, w)
		return m, info
	}
	enc := func(name string, o rvOps, xlen int) uint32 { return rvEncode(rvLookup(name), o, xlen) }
	min64, min32 := uint64(1)<<63, uint64(0xffffffff80000000)
	type dv struct {
		op        string
		a, b, exp uint64
		xlen      int
	}
	for _, v := range []dv{
		{"DIV", 7, 0, ^uint64(0), 64}, {"DIVU", 7, 0, ^uint64(0), 64}, {"REM", 7, 0, 7, 64}, {"REMU", 7, 0, 7, 64},
		{"DIV", min64, ^uint64(0), min64, 64}, {"REM", min64, ^uint64(0), 0, 64},
		{"DIV", ^uint64(6), 2, ^uint64(2), 64}, {"REM", ^uint64(6), 2, ^uint64(0), 64}, {"REM", 7, ^uint64(1), 1, 64},
		{"DIVW", min32, ^uint64(0), min32, 64}, {"REMW", min32, ^uint64(0), 0, 64},
		{"DIVW", 0x100000007, 0x200000000, ^uint64(0), 64}, {"REMW", 0x180000000, 0x200000000, min32, 64},
		{"DIVUW", 0xffffffff, 1, ^uint64(0), 64}, {"REMUW", 0x80000000, 0, min32, 64}, {"DIVUW", 5, 0x100000000, ^uint64(0), 64},
		{"DIV", 0x80000000, 0xffffffff, 0x80000000, 32}, {"REM", 0x80000000, 0xffffffff, 0, 32}, {"DIV", 0xfffffff9, 2, 0xfffffffd, 32},
		{"MULH", ^uint64(0), ^uint64(0), 0, 64}, {"MULHU", ^uint64(0), ^uint64(0), ^uint64(1), 64}, {"MULHSU", ^uint64(0), ^uint64(0), ^uint64(0), 64},
		{"MULH", min64, min64, 1 << 62, 64}, {"MULH", 0x80000000, 0x80000000, 0x40000000, 32}, {"MULHU", 0xffffffff, 0xffffffff, 0xfffffffe, 32},
		{"SLL", 1, 0xffffffffffffffc1, 2, 64}, {"SLL", 1, 0x21, 2, 32}, {"SRA", min64, 63, ^uint64(0), 64}, {"SRLW", 0xffffffff80000000, 0x20, min32, 64},
		{"SRAW", 0x80000000, 31, ^uint64(0), 64}, {"SLLW", 1, 31, min32, 64}, {"ADDW", 0x7fffffff, 1, min32, 64}, {"SUBW", 0, 1, ^uint64(0), 64},
		{"SLT", ^uint64(0), 0, 1, 64}, {"SLTU", ^uint64(0), 0, 0, 64}, {"SLT", 0xffffffff, 0, 1, 32}, {"SUB", 0, 1, 0xffffffff, 32},
	} {
		a := archRV64
		if v.xlen == 32 {
			a = archRV32
		}
		m, _ := run(a, enc(v.op, rvOps{rd: 3, rs1: 1, rs2: 2}, v.xlen), func(m *Machine) { m.X[1], m.X[2] = v.a, v.b })
		ok(m.X[3] == v.exp, "rv%d %s(%#x,%#x) = %#x, manual says %#x", v.xlen, v.op, v.a, v.b, m.X[3], v.exp)
	}
	// multiply-high against math/bits on a fixed stream
	x := uint64(0x1234567)
	for i := 0; i < 200; i++ {
		x = core.SplitMix(x)
		y := core.SplitMix(x ^ 0x55)
		hi, lo := bits.Mul64(x, y)
		m, _ := run(archRV64, enc("MULHU", rvOps{rd: 3, rs1: 1, rs2: 2}, 64), func(m *Machine) { m.X[1], m.X[2] = x, y })
		ok(m.X[3] == hi, "MULHU(%#x,%#x)", x, y)
		m, _ = run(archRV64, enc("MUL", rvOps{rd: 3, rs1: 1, rs2: 2}, 64), func(m *Machine) { m.X[1], m.X[2] = x, y })
		ok(m.X[3] == lo, "MUL(%#x,%#x)", x, y)
		shi := hi
		if int64(x) < 0 {
			shi -= y
		}
		if int64(y) < 0 {
			shi -= x
		}
		m, _ = run(archRV64, enc("MULH", rvOps{rd: 3, rs1: 1, rs2: 2}, 64), func(m *Machine) { m.X[1], m.X[2] = x, y })
		ok(m.X[3] == shi, "MULH(%#x,%#x)", x, y)
	}
	// loads: extension; stores: truncation; JALR clears bit 0 and uses the old rs1; x0
	ld := func(name string, xlen int, exp uint64) {
		a := archRV64
		if xlen == 32 {
			a = archRV32
		}
		m, _ := run(a, enc(name, rvOps{rd: 3, rs1: 1, imm: -8}, xlen), func(m *Machine) { m.X[1] = 0x2008; m.Mem.Put(0x2000, 8, 0x8899aabbccddeeff) })
		ok(m.X[3] == exp, "%s loaded %#x, want %#x", name, m.X[3], exp)
	}
	ld("LB", 64, ^uint64(0))
	ld("LBU", 64, 0xff)
	ld("LH", 64, 0xffffffffffffeeff)
	ld("LHU", 64, 0xeeff)
	ld("LW", 64, 0xffffffffccddeeff)
	ld("LWU", 64, 0xccddeeff)
	ld("LD", 64, 0x8899aabbccddeeff)
	ld("LW", 32, 0xccddeeff)
	m, _ := run(archRV64, enc("SH", rvOps{rs1: 1, rs2: 2, imm: 2}, 64), func(m *Machine) { m.X[1], m.X[2] = 0x2000, 0x12345678 })
	ok(len(m.Writes) == 1 && m.Writes[0] == Access{0x2002, 2, 0x5678}, "SH write list %v", m.Writes)
	m, _ = run(archRV64, enc("JALR", rvOps{rd: 1, rs1: 1, imm: 5}, 64), func(m *Machine) { m.X[1] = 0x3000 })
	ok(m.PC == 0x3004 && m.X[1] == 0x1004, "JALR x1,5(x1): pc=%#x x1=%#x", m.PC, m.X[1])
	m, info := run(archRV64, enc("JALR", rvOps{rd: 1, rs1: 2, imm: 2}, 64), func(m *Machine) { m.X[2] = 0x3000 })
	ok(info.Outcome == EnvDefined, "JALR to a 2-byte aligned target must be env-defined, got %v", info.Outcome)
	m, _ = run(archRV64, enc("ADDI", rvOps{rd: 0, rs1: 0, imm: 5}, 64), func(m *Machine) {})
	ok(m.X[0] == 0 && m.PC == 0x1004, "ADDI x0")
	m, _ = run(archRV64, enc("LUI", rvOps{rd: 3, imm: int64(int32(-0x80000000))}, 64), func(m *Machine) {})
	ok(m.X[3] == min32, "LUI 0x80000 = %#x", m.X[3])
	m, _ = run(archRV64, enc("AUIPC", rvOps{rd: 3, imm: 0x1000}, 64), func(m *Machine) {})
	ok(m.X[3] == 0x2000, "AUIPC = %#x", m.X[3])
	m, _ = run(archRV64, enc("BGE", rvOps{rs1: 1, rs2: 2, imm: -16}, 64), func(m *Machine) { m.X[1], m.X[2] = 5, 5 })
	ok(m.PC == 0x1000-16, "BGE equal must be taken, backward: pc=%#x", m.PC)
	_, _, st, _ := rvDecode(enc("SLLIW", rvOps{rd: 1, rs1: 1, imm: 3}, 64)|1<<25, 64)
	ok(st == Illegal, "SLLIW with shamt[5]=1 is reserved")
	_, _, st, _ = rvDecode(enc("LD", rvOps{rd: 1, rs1: 1}, 64), 32)
	ok(st == Illegal, "LD is not RV32")
	// known encodings from the manuals / assembler listings
	ok(enc("ADDI", rvOps{rd: 10, rs1: 11, imm: -1}, 64) == 0xfff58513, "addi a0,a1,-1")
	ok(enc("SRAI", rvOps{rd: 5, rs1: 6, imm: 3}, 64) == 0x40335293, "srai t0,t1,3")
	ok(enc("BEQ", rvOps{rs1: 10, rs2: 11, imm: -4}, 64) == 0xfeb50ee3, "beq a0,a1,-4")
	ok(enc("JAL", rvOps{rd: 1, imm: 2048}, 64) == 0x001000ef, "jal ra,2048")
	ok(enc("SD", rvOps{rs1: 2, rs2: 1, imm: 8}, 64) == 0x00113423, "sd ra,8(sp)")
	ok(laEncode(laLookup("ADDI.D"), laOps{rd: 3, rj: 3, imm: -16}) == 0x02ffc063, "addi.d $sp,$sp,-16")
	ok(laEncode(laLookup("BL"), laOps{imm: 8}) == 0x54000800, "bl 8")
	ok(laEncode(laLookup("BEQ"), laOps{rj: 4, rd: 5, imm: -4}) == 0x5bfffc85, "beq $a0,$a1,-4")
	ok(laEncode(laLookup("LU12I.W"), laOps{rd: 4, imm: -1}) == 0x15ffffe4, "lu12i.w $a0,-1")
	// round trips
	for i := range rvTable {
		in := &rvTable[i]
		for _, xlen := range []int{32, 64} {
			if in.rv64only && xlen == 32 {
				continue
			}
			o := rvOps{rd: 3, rs1: 17, rs2: 30}
			switch in.fmt {
			case rvI, rvS:
				o.imm = -1234
			case rvFence:
				o.imm = 0x0ff
			case rvSh, rvShW:
				o.imm = 29
			case rvB:
				o.imm = -4092
			case rvU:
				o.imm = int64(int32(-0x7ffff000))
			case rvJ:
				o.imm = -1048572
			}
			din, d, st, _ := rvDecode(rvEncode(in, o, xlen), xlen)
			exp := o
			switch in.fmt {
			case rvU, rvJ:
				exp.rs1, exp.rs2 = d.rs1, d.rs2
			case rvI, rvSh, rvShW, rvFence:
				exp.rs2 = d.rs2
			case rvS, rvB:
				exp.rd = d.rd
			}
			ok(st == OK && din == in && d == exp, "rv%d %s round trip: %+v -> %+v (%v)", xlen, in.name, o, d, st)
		}
	}
	for i := range laTable {
		in := &laTable[i]
		o := laOps{rd: 3, rj: 17, rk: 30}
		switch in.fmt {
		case la2RUi5:
			o.imm = 29
		case la2RUi6:
			o.imm = 61
		case la2RSi12:
			o.imm = -1234
		case la2RUi12:
			o.imm = 0xabc
		case la2RSi16:
			o.imm = -32000
		case la1RSi20:
			o.imm = -500000
		case laBrRjRd, laJirl:
			o.imm = -131068
		case laBrRj:
			o.imm = -4194300
		case laBr26:
			o.imm = -134217724
		case la3RSa2:
			o.imm = 3
		}
		din, d, _ := laDecode(laEncode(in, o))
		ok(din == in && d.imm == o.imm, "la64 %s round trip imm %d -> %d", in.name, o.imm, d.imm)
		switch in.fmt {
		case la3R, la3F, la3RSa2:
			ok(d.rd == 3 && d.rj == 17 && d.rk == 30, "la64 %s regs", in.name)
		case laBr26:
		case laBrRj:
			ok(d.rj == 17, "la64 %s rj", in.name)
		case la1RSi20:
			ok(d.rd == 3, "la64 %s rd", in.name)
		default:
			ok(d.rd == 3 && d.rj == 17, "la64 %s regs", in.name)
		}
	}
	// LoongArch semantics spot checks (manual vol.1 §2.2)
	la := func(name string, o laOps, setup func(m *Machine)) *Machine {
		m, _ := run(archLA64, laEncode(laLookup(name), o), setup)
		return m
	}
	ok(la("ADDI.W", laOps{rd: 3, rj: 1, imm: 1}, func(m *Machine) { m.X[1] = 0x17fffffff }).X[3] == min32, "ADDI.W wraps at 32 bits and sign-extends")
	ok(la("SRLI.W", laOps{rd: 3, rj: 1, imm: 0}, func(m *Machine) { m.X[1] = 0x80000000 }).X[3] == min32, "SRLI.W by 0 sign-extends bit 31")
	ok(la("PCADDU12I", laOps{rd: 3, imm: -1}, func(m *Machine) {}).X[3] == 0x1000-0x1000, "PCADDU12I shifts si20 by 12")
	ok(la("LU12I.W", laOps{rd: 3, imm: 0x80000 - 1<<20}, func(m *Machine) {}).X[3] == min32, "LU12I.W sign-extends")
	ok(la("BEQ", laOps{rj: 1, rd: 2, imm: -8}, func(m *Machine) { m.X[1], m.X[2] = 9, 9 }).PC == 0x1000-8, "BEQ compares rj with rd")
	ok(la("BEQ", laOps{rj: 1, rd: 2, imm: -8}, func(m *Machine) { m.X[1], m.X[2] = 0, 9 }).PC == 0x1004, "BEQ not taken")
	ok(la("BL", laOps{imm: 16}, func(m *Machine) {}).X[1] == 0x1004, "BL links r1")
	ok(la("ORI", laOps{rd: 3, rj: 1, imm: 0xfff}, func(m *Machine) {}).X[3] == 0xfff, "ORI zero-extends ui12")
	ok(la("ST.W", laOps{rd: 2, rj: 1, imm: -4}, func(m *Machine) { m.X[1], m.X[2] = 0x2004, 0x1122334455667788 }).Writes[0] == Access{0x2000, 4, 0x55667788}, "ST.W")
	ok(la("LD.BU", laOps{rd: 3, rj: 1, imm: 0}, func(m *Machine) { m.X[1] = 0x2000; m.Mem.Put(0x2000, 1, 0x80) }).X[3] == 0x80, "LD.BU zero-extends")
	ok(sameFloat(la("FADD.S", laOps{rd: 3, rj: 1, rk: 2}, func(m *Machine) { m.F[1], m.F[2] = 16777216, 1 }).F[3], 16777216, 32), "FADD.S rounds to single")
	s.Eval(int64(n))
}

// ---------------------------------------------------------------- replay

func replay(test string, raw json.RawMessage) (string, string) {
	_, key, what := replayCase(raw)
	return key, what
}

func TestReplay(t *testing.T) { core.RunReplays(t, prop, replay) }
