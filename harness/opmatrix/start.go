package opmatrix

import (
	"fmt"
	"sort"
	"strings"
)

// StartMarker is printed first by every C02 module through print_str.
const StartMarker = "opm-start\n"

// StartDataOffset is where the marker string lives in linear memory.
const StartDataOffset = 512

// startHelpers are appended to the prelude of C02 modules.
const startHelpers = `(func $memhash (result i64)
  (local $i i32)
  (local $n i32)
  (local $h1 i32)
  (local $h2 i32)
  (local $c i32)
  i32.const -2128831035
  local.set $h1
  i32.const -1756908916
  local.set $h2
  memory.size
  i32.const 16
  i32.shl
  local.set $n
  block $X
    loop $L
      local.get $i
      local.get $n
      i32.ge_u
      br_if $X
      local.get $i
      i32.load8_u
      local.set $c
      local.get $h1
      local.get $c
      i32.xor
      i32.const 16777619
      i32.mul
      local.set $h1
      local.get $h2
      local.get $c
      i32.add
      i32.const 1
      i32.add
      i32.const -2048144789
      i32.mul
      local.set $h2
      local.get $i
      i32.const 1
      i32.add
      local.set $i
      br $L
    end
  end
  local.get $h1
  i64.extend_i32_u
  i64.const 32
  i64.shl
  local.get $h2
  i64.extend_i32_u
  i64.or
)
(func $out (param $v i64)
  local.get $v
  call $print_i64
  i32.const 10
  call $print_rune
)
(func $out_f (param $v f32) (param $exact i32)
  local.get $exact
  i32.eqz
  if $I
    local.get $v
    local.get $v
    f32.ne
    if $J
      i64.const 2143289344
      call $out
      return
    end
  end
  local.get $v
  i32.reinterpret_f32
  i64.extend_i32_u
  call $out
)
(func $out_F (param $v f64) (param $exact i32)
  local.get $exact
  i32.eqz
  if $I
    local.get $v
    local.get $v
    f64.ne
    if $J
      i64.const 9221120237041090560
      call $out
      return
    end
  end
  local.get $v
  i64.reinterpret_f64
  call $out
)
`

// LinesOf tells how many output lines call k of the script prints.
func LinesOf(f *Func) int {
	n := len(f.Results)
	if f.Stateful {
		n += 2
	}
	return n
}

// OrderForStart moves the calls that are likely to trap to the end of the
// script (a trap ends a native process), keeping everything else in order,
// and keeps at most maxTraps of them.
func OrderForStart(c *Case, maxTraps int) {
	var normal, trappy []Call
	for _, call := range c.Calls {
		f := &c.Funcs[call.F]
		likely := TrapExpected(call.Class)
		if call.Class == "nan" && !strings.Contains(f.Op, ".trunc_f") {
			likely = false
		}
		if likely {
			trappy = append(trappy, call)
		} else {
			normal = append(normal, call)
		}
	}
	if len(trappy) > maxTraps {
		trappy = trappy[:maxTraps]
	}
	sort.SliceStable(trappy, func(i, j int) bool { return false })
	c.Calls = append(normal, trappy...)
}

// StartText renders the _start function: the whole call script with immediate
// arguments; every result is printed as one decimal i64 line (floats as bit
// patterns, NaNs canonicalised unless the function is Exact); after a
// stateful call the memory hash and the page count are printed too.
func StartText(c *Case) string {
	var sb strings.Builder
	sb.WriteString(startHelpers)
	sb.WriteString("(func $_start (export \"_start\")\n")
	for _, t := range "iIfF" {
		for k := 0; k < 4; k++ {
			fmt.Fprintf(&sb, "  (local $r%c%d %s)\n", t, k, WT(byte(t)))
		}
	}
	w := func(s string) { sb.WriteString("  " + s + "\n") }
	w(fmt.Sprintf("i32.const %d", StartDataOffset))
	w(fmt.Sprintf("i32.const %d", len(StartMarker)))
	w("call $print_str")
	for _, call := range c.Calls {
		f := &c.Funcs[call.F]
		args := call.Raw()
		for i := 0; i < len(f.Params); i++ {
			switch f.Params[i] {
			case 'i':
				w(fmt.Sprintf("i32.const %d", int32(uint32(args[i]))))
			case 'I':
				w(fmt.Sprintf("i64.const %d", int64(args[i])))
			case 'f':
				w(fmt.Sprintf("i32.const %d", int32(uint32(args[i]))))
				w("f32.reinterpret_i32")
			case 'F':
				w(fmt.Sprintf("i64.const %d", int64(args[i])))
				w("f64.reinterpret_i64")
			}
		}
		w("call $" + f.Name)
		for i := len(f.Results) - 1; i >= 0; i-- {
			w(fmt.Sprintf("local.set $r%c%d", f.Results[i], i))
		}
		exact := 0
		if f.Exact {
			exact = 1
		}
		for i := 0; i < len(f.Results); i++ {
			w(fmt.Sprintf("local.get $r%c%d", f.Results[i], i))
			switch f.Results[i] {
			case 'i':
				w("i64.extend_i32_u")
				w("call $out")
			case 'I':
				w("call $out")
			case 'f':
				w(fmt.Sprintf("i32.const %d", exact))
				w("call $out_f")
			case 'F':
				w(fmt.Sprintf("i32.const %d", exact))
				w("call $out_F")
			}
		}
		if f.Stateful {
			w("call $memhash")
			w("call $out")
			w("memory.size")
			w("i64.extend_i32_u")
			w("call $out")
		}
	}
	if c.ExitCode >= 0 {
		w(fmt.Sprintf("i32.const %d", c.ExitCode))
		w("call $proc_exit")
	}
	sb.WriteString(")\n")
	return sb.String()
}
