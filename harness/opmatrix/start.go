package opmatrix

// StartText renders the _start function of a C02 module (see start.go).
func StartText(c *Case) string { return "" }
