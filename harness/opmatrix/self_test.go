package opmatrix

import (
	"testing"

	"pgregory.net/rapid"
)

// The generator's own health check: every drawn module assembles, validates
// and runs identically on the two wazero engines; every shape is produced.
func TestSelf(t *testing.T) {
	shapes := map[string]int{}
	ops := map[string]int{}
	traps, calls := 0, 0
	diffs := map[string]int{}
	rapid.Check(t, func(t *rapid.T) {
		cfg := &Config{NFuncs: 30, Wrappers: true, ExportGlob: true}
		c := Generate(t, cfg)
		wasm, err := Assemble(c.Wat)
		if err != nil {
			t.Fatalf("assemble: %v\n%s", err, c.Wat)
		}
		a := RunWazero(wasm, c, false, false)
		b := RunWazero(wasm, c, true, true)
		if a.Err != "" || b.Err != "" {
			t.Fatalf("engine: %q %q\n%s", a.Err, b.Err, c.Wat)
		}
		for k := range c.Calls {
			f := &c.Funcs[c.Calls[k].F]
			if kind, _ := CompareCall(f, a.Calls[k], b.Calls[k]); kind != "" {
				diffs[f.Op+"/"+c.Calls[k].Class+" "+kind]++
			}
			calls++
			if a.Calls[k].Trap {
				traps++
			}
		}
		for _, f := range c.Funcs {
			shapes[f.Shape]++
			for _, o := range f.Ops {
				ops[o]++
			}
		}
	})
	for _, s := range ShapeNames() {
		if shapes[s] == 0 {
			t.Errorf("shape %s never generated", s)
		}
	}
	missing := 0
	for _, o := range AllOpcodes() {
		if ops[o] == 0 && o != "memory.init" && o != "else" && o != "end" {
			t.Logf("opcode %s never generated", o)
			missing++
		}
	}
	t.Logf("engine differences (belong to C31): %v", diffs)
	t.Logf("calls=%d traps=%d shapes=%d ops=%d missing=%d", calls, traps, len(shapes), len(ops), missing)
}
