// Package opmatrix is the instruction-level WebAssembly module generator shared
// by C03 (wat2c), C31 (wazero vs V8) and C02 (native x86-64).  A module is a
// fixed prelude (memory, globals, table, helper functions) plus many small
// exported functions, each computing ONE instruction (or a short chain) over
// its parameters; a call script of boundary-biased argument tuples exercises
// them in sequence so that memory/global effects carry over.
//
// Everything random comes from rapid draws made by the caller's *rapid.T.
package opmatrix

import (
	"fmt"
	"math"
	"strings"
)

// Value types: 'i' i32, 'I' i64, 'f' f32, 'F' f64.
func WT(t byte) string {
	switch t {
	case 'i':
		return "i32"
	case 'I':
		return "i64"
	case 'f':
		return "f32"
	case 'F':
		return "f64"
	}
	panic("bad value type " + string(t))
}

// OpInfo describes one plain numeric instruction.
type OpInfo struct {
	Name string
	In   string // operand types
	Out  string // result type (one char)
	// Exact: a NaN result must be bit-identical on every engine (the
	// instruction only moves or edits bits: abs, neg, copysign, reinterpret).
	Exact bool
}

var NumericOps []OpInfo

func addOps(prefix string, in, out string, exact bool, names ...string) {
	for _, n := range names {
		NumericOps = append(NumericOps, OpInfo{Name: prefix + "." + n, In: in, Out: out, Exact: exact})
	}
}

func init() {
	intBin := []string{"add", "sub", "mul", "div_s", "div_u", "rem_s", "rem_u", "and", "or", "xor", "shl", "shr_s", "shr_u", "rotl", "rotr"}
	intCmp := []string{"eq", "ne", "lt_s", "lt_u", "gt_s", "gt_u", "le_s", "le_u", "ge_s", "ge_u"}
	fUn := []string{"ceil", "floor", "trunc", "nearest", "sqrt"}
	fBin := []string{"add", "sub", "mul", "div", "min", "max"}
	fCmp := []string{"eq", "ne", "lt", "gt", "le", "ge"}
	addOps("i32", "i", "i", true, "clz", "ctz", "popcnt", "eqz")
	addOps("i32", "ii", "i", true, intBin...)
	addOps("i32", "ii", "i", true, intCmp...)
	addOps("i64", "I", "I", true, "clz", "ctz", "popcnt")
	addOps("i64", "I", "i", true, "eqz")
	addOps("i64", "II", "I", true, intBin...)
	addOps("i64", "II", "i", true, intCmp...)
	addOps("f32", "f", "f", true, "abs", "neg")
	addOps("f32", "f", "f", false, fUn...)
	addOps("f32", "ff", "f", false, fBin...)
	addOps("f32", "ff", "f", true, "copysign")
	addOps("f32", "ff", "i", true, fCmp...)
	addOps("f64", "F", "F", true, "abs", "neg")
	addOps("f64", "F", "F", false, fUn...)
	addOps("f64", "FF", "F", false, fBin...)
	addOps("f64", "FF", "F", true, "copysign")
	addOps("f64", "FF", "i", true, fCmp...)
	addOps("i32", "I", "i", true, "wrap_i64")
	addOps("i32", "f", "i", true, "trunc_f32_s", "trunc_f32_u")
	addOps("i32", "F", "i", true, "trunc_f64_s", "trunc_f64_u")
	addOps("i64", "i", "I", true, "extend_i32_s", "extend_i32_u")
	addOps("i64", "f", "I", true, "trunc_f32_s", "trunc_f32_u")
	addOps("i64", "F", "I", true, "trunc_f64_s", "trunc_f64_u")
	addOps("f32", "i", "f", true, "convert_i32_s", "convert_i32_u")
	addOps("f32", "I", "f", true, "convert_i64_s", "convert_i64_u")
	addOps("f32", "F", "f", false, "demote_f64")
	addOps("f64", "i", "F", true, "convert_i32_s", "convert_i32_u")
	addOps("f64", "I", "F", true, "convert_i64_s", "convert_i64_u")
	addOps("f64", "f", "F", false, "promote_f32")
	addOps("i32", "f", "i", true, "reinterpret_f32")
	addOps("i64", "F", "I", true, "reinterpret_f64")
	addOps("f32", "i", "f", true, "reinterpret_i32")
	addOps("f64", "I", "F", true, "reinterpret_i64")
}

// OpByName finds a numeric op.
func OpByName(name string) *OpInfo {
	for i := range NumericOps {
		if NumericOps[i].Name == name {
			return &NumericOps[i]
		}
	}
	return nil
}

// AllOpcodes lists every mnemonic the generator can emit (numeric ops plus the
// structural / memory / variable instructions of the shapes in gen.go).
func AllOpcodes() []string {
	var out []string
	for _, o := range NumericOps {
		out = append(out, o.Name)
	}
	out = append(out, StructuralOps...)
	return out
}

// StructuralOps are the non-numeric instructions covered by dedicated shapes.
var StructuralOps = []string{
	"unreachable", "nop", "block", "loop", "if", "else", "end", "br", "br_if", "br_table", "return",
	"call", "call_indirect", "drop", "select",
	"local.get", "local.set", "local.tee", "global.get", "global.set", "table.get", "table.set",
	"i32.load", "i64.load", "f32.load", "f64.load",
	"i32.load8_s", "i32.load8_u", "i32.load16_s", "i32.load16_u",
	"i64.load8_s", "i64.load8_u", "i64.load16_s", "i64.load16_u", "i64.load32_s", "i64.load32_u",
	"i32.store", "i64.store", "f32.store", "f64.store",
	"i32.store8", "i32.store16", "i64.store8", "i64.store16", "i64.store32",
	"memory.size", "memory.grow", "memory.init", "memory.copy", "memory.fill",
	"i32.const", "i64.const", "f32.const", "f64.const",
}

// ---------------------------------------------------------------- value labels

const (
	CanonNaN32 = 0x7fc00000
	CanonNaN64 = 0x7ff8000000000000
)

func IsNaN32(b uint32) bool { return b&0x7f800000 == 0x7f800000 && b&0x007fffff != 0 }
func IsNaN64(b uint64) bool {
	return b&0x7ff0000000000000 == 0x7ff0000000000000 && b&0x000fffffffffffff != 0
}

func labI32(v uint32) string {
	switch v {
	case 0:
		return "0"
	case 1:
		return "1"
	case 0xffffffff:
		return "-1"
	case 0x80000000:
		return "min"
	case 0x7fffffff:
		return "max"
	}
	if int32(v) < 0 {
		return "neg"
	}
	return "pos"
}

func labI64(v uint64) string {
	switch v {
	case 0:
		return "0"
	case 1:
		return "1"
	case ^uint64(0):
		return "-1"
	case 1 << 63:
		return "min"
	case 1<<63 - 1:
		return "max"
	}
	if int64(v) < 0 {
		return "neg"
	}
	return "pos"
}

func labF32(b uint32) string {
	switch {
	case IsNaN32(b):
		return "nan"
	case b&0x7fffffff == 0x7f800000:
		return "inf"
	case b&0x7fffffff == 0:
		return "0"
	case b&0x7f800000 == 0:
		return "sub"
	}
	return "x"
}

func labF64(b uint64) string {
	switch {
	case IsNaN64(b):
		return "nan"
	case b&^(1<<63) == 0x7ff0000000000000:
		return "inf"
	case b&^(1<<63) == 0:
		return "0"
	case b&0x7ff0000000000000 == 0:
		return "sub"
	}
	return "x"
}

// Label gives the generic operand label of a raw value of type t.
func Label(t byte, v uint64) string {
	switch t {
	case 'i':
		return labI32(uint32(v))
	case 'I':
		return labI64(v)
	case 'f':
		return labF32(uint32(v))
	}
	return labF64(v)
}

func f64of(t byte, v uint64) float64 {
	if t == 'f' {
		return float64(math.Float32frombits(uint32(v)))
	}
	return math.Float64frombits(v)
}

// Classify maps (opcode, raw arguments) to the operand class used in the
// evidence histogram and in known-finding keys "op=<opcode>/<class>".  Classes
// are semantic where an instruction has a special region (division overflow,
// shift counts >= width, truncation range, ties, NaN/signed zeros) and the
// tuple of generic labels otherwise.
func Classify(op string, in string, args []uint64) string {
	dot := strings.IndexByte(op, '.')
	base := op
	if dot >= 0 {
		base = op[dot+1:]
	}
	generic := func() string {
		var l []string
		for k := 0; k < len(in) && k < len(args); k++ {
			l = append(l, Label(in[k], args[k]))
		}
		if len(l) == 0 {
			return "-"
		}
		return strings.Join(l, ",")
	}
	if len(args) < len(in) {
		return generic()
	}
	switch base {
	case "div_s", "rem_s", "div_u", "rem_u":
		w := in[0]
		b := args[1]
		if w == 'i' {
			b = uint64(uint32(b))
		}
		if b == 0 {
			return "div0"
		}
		if strings.HasSuffix(base, "_s") {
			if w == 'i' && uint32(args[0]) == 0x80000000 && uint32(args[1]) == 0xffffffff {
				return "min/-1"
			}
			if w == 'I' && args[0] == 1<<63 && args[1] == ^uint64(0) {
				return "min/-1"
			}
		}
		return generic()
	case "shl", "shr_s", "shr_u", "rotl", "rotr":
		width := uint64(32)
		a := Label(in[0], args[0])
		cnt := args[1]
		if in[0] == 'i' {
			cnt = uint64(uint32(cnt))
		} else {
			width = 64
		}
		switch {
		case cnt == 0:
			return a + ",cnt=0"
		case cnt < width:
			return a + ",cnt<w"
		case in[0] == 'i' && cnt&32 != 0:
			return a + ",cnt&32"
		}
		return a + ",cnt>=w"
	case "trunc_f32_s", "trunc_f32_u", "trunc_f64_s", "trunc_f64_u":
		t := in[0]
		if Label(t, args[0]) == "nan" {
			return "nan"
		}
		x := math.Trunc(f64of(t, args[0]))
		var lo, hi float64 // valid: lo <= x <= hi (x already truncated)
		switch {
		case strings.HasPrefix(op, "i32") && strings.HasSuffix(base, "_s"):
			lo, hi = -2147483648, 2147483647
		case strings.HasPrefix(op, "i32"):
			lo, hi = 0, 4294967295
		case strings.HasSuffix(base, "_s"):
			lo, hi = -9223372036854775808, 9223372036854774784 // largest double below 2^63
		default:
			lo, hi = 0, 18446744073709549568
		}
		if math.IsInf(x, 0) || x < lo || x > hi {
			return "oor"
		}
		if x == 0 && math.Signbit(f64of(t, args[0])) && f64of(t, args[0]) != 0 {
			return "(-1,0)"
		}
		if x >= 9223372036854775808 {
			return ">=2^63" // only reachable for i64.trunc_*_u
		}
		if x-lo < 2 || hi-x < 1025 {
			return "edge"
		}
		if x < 0 {
			return "neg"
		}
		if x > 2147483647 {
			return "big"
		}
		return "ok"
	case "nearest":
		l := Label(in[0], args[0])
		if l == "x" {
			x := f64of(in[0], args[0])
			if math.Abs(x-math.Trunc(x)) == 0.5 {
				return "tie"
			}
			if math.Abs(x) < 1 {
				return "frac<1"
			}
		}
		return l
	case "min", "max":
		a, b := Label(in[0], args[0]), Label(in[1], args[1])
		if a == "nan" || b == "nan" {
			return "nan"
		}
		if a == "0" && b == "0" {
			sa := args[0] >> 63
			sb := args[1] >> 63
			if in[0] == 'f' {
				sa, sb = uint64(uint32(args[0])>>31), uint64(uint32(args[1])>>31)
			}
			if sa != sb {
				return "+0/-0"
			}
		}
		return a + "," + b
	case "convert_i32_s", "convert_i32_u", "convert_i64_s", "convert_i64_u":
		if base == "convert_i64_u" && int64(args[0]) < 0 {
			return "u>=2^63"
		}
		l := Label(in[0], args[0])
		if l == "neg" || l == "pos" {
			v := args[0]
			if in[0] == 'i' {
				v = uint64(uint32(v))
				if strings.HasSuffix(base, "_s") {
					v = uint64(int64(int32(uint32(v))))
				}
			}
			mag := v
			if strings.HasSuffix(base, "_s") && int64(v) < 0 {
				mag = -v
			}
			lim := uint64(1) << 53
			if strings.HasPrefix(op, "f32") {
				lim = 1 << 24
			}
			if mag > lim {
				return l + ",inexact"
			}
		}
		return l
	}
	return generic()
}

// TrapExpected tells the script builder which calls are likely to trap (used
// only for ordering in C02 scripts, never as an oracle).
func TrapExpected(class string) bool {
	switch class {
	case "div0", "min/-1", "oor", "nan", "oob", "null", "sig", "idx-oob", "unreachable":
		return true
	}
	return false
}

// HexArgs renders raw argument values.
func HexArgs(a []uint64) string {
	var sb strings.Builder
	for i, v := range a {
		if i > 0 {
			sb.WriteByte(' ')
		}
		fmt.Fprintf(&sb, "%x", v)
	}
	return sb.String()
}
