package opmatrix

import (
	"bytes"
	"context"
	"fmt"
	"strconv"

	"wa-lang.org/wa/internal/3rdparty/wazero"
	"wa-lang.org/wa/internal/3rdparty/wazero/api"
	"wa-lang.org/wa/internal/3rdparty/wazero/sys"
)

// LinuxRun is the observable behaviour of a linux-target module.
type LinuxRun struct {
	Stdout []byte
	End    string // "exit" | "trap"
	Code   int    // exit status when End == "exit"
	Err    string // module could not be loaded
	Trap   string // trap message (not compared)
}

// RunLinux runs wasm on the vendored wazero with a host module syscall_linux
// that writes exactly the bytes the native runtime helpers write
// (internal/native/wat2x64/assets/native-env-linux-x64.s): print_i64 = signed
// decimal, print_rune = the low byte, print_str = the bytes of memory,
// proc_exit = exit status.  Arguments: none (GetArgc = 1 with an empty argv[0]
// is not modelled: argv[0] differs between the two sides by nature).
// After instantiation (which runs the start function `_start`) the function
// `_main`, if exported, is called like the native entry code does.
func RunLinux(wasm []byte, interp bool, maxOut int) (r LinuxRun) {
	ctx := context.Background()
	var rt wazero.Runtime
	if interp {
		rt = wazero.NewRuntimeWithConfig(ctx, wazero.NewRuntimeConfigInterpreter())
	} else {
		rt = wazero.NewRuntime(ctx)
	}
	defer rt.Close(ctx)
	var out bytes.Buffer
	put := func(b []byte) {
		if out.Len() < maxOut {
			out.Write(b)
		}
	}
	_, err := rt.NewHostModuleBuilder("syscall_linux").
		NewFunctionBuilder().WithFunc(func(ctx context.Context, v int64) { put([]byte(strconv.FormatInt(v, 10))) }).Export("print_i64").
		NewFunctionBuilder().WithFunc(func(ctx context.Context, c uint32) { put([]byte{byte(c)}) }).Export("print_rune").
		NewFunctionBuilder().WithFunc(func(ctx context.Context, m api.Module, ptr, n uint32) {
		if b, ok := m.Memory().Read(ctx, ptr, n); ok {
			put(b)
		}
	}).Export("print_str").
		NewFunctionBuilder().WithFunc(func(ctx context.Context, m api.Module, code uint32) {
		panic(sys.NewExitError(m.Name(), code))
	}).Export("proc_exit").
		NewFunctionBuilder().WithFunc(func(ctx context.Context) uint32 { return 1 }).Export("GetArgc").
		NewFunctionBuilder().WithFunc(func(ctx context.Context, i uint32) uint32 { return 0 }).Export("GetArgvLen").
		NewFunctionBuilder().WithFunc(func(ctx context.Context, dst, idx, n uint32) {}).Export("GetArgvData").
		Instantiate(ctx, rt)
	if err != nil {
		r.Err = "host: " + err.Error()
		return
	}
	finish := func(err error) {
		r.Stdout = out.Bytes()
		if err == nil {
			r.End, r.Code = "exit", 0
			return
		}
		if ee, ok := err.(*sys.ExitError); ok {
			r.End, r.Code = "exit", int(ee.ExitCode()&0xff)
			return
		}
		r.End, r.Trap = "trap", err.Error()
	}
	cm, err := rt.CompileModule(ctx, wasm)
	if err != nil {
		r.Err = "compile: " + err.Error()
		return
	}
	mod, err := rt.InstantiateModule(ctx, cm, wazero.NewModuleConfig().WithName("app"))
	if err != nil {
		finish(err)
		if _, isExit := err.(*sys.ExitError); !isExit && r.Trap != "" && !bytes.Contains([]byte(r.Trap), []byte("wasm error")) {
			r.Err = fmt.Sprintf("instantiate: %v", err)
		}
		return
	}
	if fn := mod.ExportedFunction("_main"); fn != nil {
		_, err = fn.Call(ctx)
		finish(err)
		return
	}
	finish(nil)
	return
}
