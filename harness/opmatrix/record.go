package opmatrix

import (
	"context"
	"encoding/hex"
	"fmt"
	"strings"

	"wa-lang.org/wa/internal/3rdparty/wazero"
	"wa-lang.org/wa/internal/3rdparty/wazero/api"
	"wa-lang.org/wa/internal/3rdparty/wazero/sys"
)

// Import describes one function import of a compiled program.
type Import struct {
	Module  string `json:"module"`
	Name    string `json:"name"`
	Params  string `json:"params"` // i I f F
	Results string `json:"results"`
}

func vts(ts []api.ValueType) string {
	var sb strings.Builder
	for _, t := range ts {
		switch t {
		case api.ValueTypeI32:
			sb.WriteByte('i')
		case api.ValueTypeI64:
			sb.WriteByte('I')
		case api.ValueTypeF32:
			sb.WriteByte('f')
		case api.ValueTypeF64:
			sb.WriteByte('F')
		default:
			sb.WriteByte('?')
		}
	}
	return sb.String()
}

// Recorded is the observable behaviour of a program under the recording host:
// every import call (name, raw argument bits, bytes of the string for
// print_str) and how execution ended.
type Recorded struct {
	Log     []string
	End     string // "END" | "EXIT <code>" | "TRAP"
	Imports []Import
	Err     string // could not load/instantiate
}

// LogLine is the common format of both recording hosts.
func LogLine(im *Import, args []uint64, mem []byte) string {
	var sb strings.Builder
	sb.WriteString(im.Module + "." + im.Name + "(")
	for i, a := range args {
		if i > 0 {
			sb.WriteByte(',')
		}
		switch im.Params[i] {
		case 'i':
			fmt.Fprintf(&sb, "%x", uint32(a))
		case 'f':
			if IsNaN32(uint32(a)) {
				sb.WriteString("nan")
			} else {
				fmt.Fprintf(&sb, "%x", uint32(a))
			}
		case 'F':
			if IsNaN64(a) {
				sb.WriteString("nan")
			} else {
				fmt.Fprintf(&sb, "%x", a)
			}
		default:
			fmt.Fprintf(&sb, "%x", a)
		}
	}
	sb.WriteString(")")
	if mem != nil {
		sb.WriteString(" " + hex.EncodeToString(mem))
	}
	return sb.String()
}

// pointsToString: the (ptr,len) imports whose memory range is part of the log.
func pointsToString(name string) bool {
	return name == "print_str" || name == "debug_write_file"
}

// RunRecorded instantiates wasm with a recording host for all its imports,
// runs the start function(s) and then mainFunc (if exported), like
// internal/wazero.(*Module).RunMain does.
func RunRecorded(wasm []byte, mainFunc string, interp bool, maxLog int) (rec Recorded) {
	ctx := context.Background()
	var rt wazero.Runtime
	if interp {
		rt = wazero.NewRuntimeWithConfig(ctx, wazero.NewRuntimeConfigInterpreter())
	} else {
		rt = wazero.NewRuntime(ctx)
	}
	defer rt.Close(ctx)
	cm, err := rt.CompileModule(ctx, wasm)
	if err != nil {
		rec.Err = "compile: " + err.Error()
		return
	}
	byMod := map[string][]Import{}
	var order []string
	for _, def := range cm.ImportedFunctions() {
		mn, fn, ok := def.Import()
		if !ok {
			continue
		}
		im := Import{Module: mn, Name: fn, Params: vts(def.ParamTypes()), Results: vts(def.ResultTypes())}
		rec.Imports = append(rec.Imports, im)
		if _, seen := byMod[mn]; !seen {
			order = append(order, mn)
		}
		byMod[mn] = append(byMod[mn], im)
	}
	overflow := false
	for _, mn := range order {
		b := rt.NewHostModuleBuilder(mn)
		seen := map[string]bool{}
		for _, im := range byMod[mn] {
			if seen[im.Name] {
				continue
			}
			seen[im.Name] = true
			im := im
			var pt, rtt []api.ValueType
			for _, c := range im.Params {
				pt = append(pt, map[rune]api.ValueType{'i': api.ValueTypeI32, 'I': api.ValueTypeI64, 'f': api.ValueTypeF32, 'F': api.ValueTypeF64}[c])
			}
			for _, c := range im.Results {
				rtt = append(rtt, map[rune]api.ValueType{'i': api.ValueTypeI32, 'I': api.ValueTypeI64, 'f': api.ValueTypeF32, 'F': api.ValueTypeF64}[c])
			}
			fn := func(ctx context.Context, mod api.Module, stack []uint64) {
				args := append([]uint64{}, stack[:len(im.Params)]...)
				var mem []byte
				if pointsToString(im.Name) && len(args) >= 2 {
					off := 0
					if im.Name == "debug_write_file" {
						off = 2
					}
					if b, ok := mod.Memory().Read(ctx, uint32(args[off]), uint32(args[off+1])); ok {
						mem = append([]byte{}, b...)
					} else {
						mem = []byte{}
					}
				}
				if len(rec.Log) < maxLog {
					rec.Log = append(rec.Log, LogLine(&im, args, mem))
				} else {
					overflow = true
				}
				for i := range im.Results {
					stack[i] = 0
				}
				if im.Name == "proc_exit" {
					panic(sys.NewExitError(mod.Name(), uint32(args[0])))
				}
			}
			b = b.NewFunctionBuilder().WithGoModuleFunction(api.GoModuleFunc(fn), pt, rtt).Export(im.Name)
		}
		if _, err := b.Instantiate(ctx, rt); err != nil {
			rec.Err = "host: " + err.Error()
			return
		}
	}
	finish := func(err error) {
		if err == nil {
			rec.End = "END"
			return
		}
		if ee, ok := err.(*sys.ExitError); ok {
			rec.End = fmt.Sprintf("EXIT %d", ee.ExitCode())
			return
		}
		rec.End = "TRAP"
	}
	defer func() {
		if overflow {
			rec.Log = append(rec.Log, "…log truncated")
		}
	}()
	mod, err := rt.InstantiateModule(ctx, cm, wazero.NewModuleConfig().WithName("app"))
	if err != nil {
		finish(err)
		if rec.End == "TRAP" && !strings.Contains(err.Error(), "wasm error") {
			rec.Err = "instantiate: " + err.Error()
		}
		return
	}
	if mainFunc != "" {
		if fn := mod.ExportedFunction(mainFunc); fn != nil {
			_, err = fn.Call(ctx)
			finish(err)
			return
		}
	}
	finish(nil)
	return
}
