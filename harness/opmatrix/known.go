package opmatrix

import (
	"strings"
	"sync"

	"wa-lang.org/wa/zverif/harness/core"
)

// Exclusion turns the "known" entries of known_findings.jsonl whose keys have
// the form  op=<opcode>/<class>[@variant]  into a generator exclusion set.
// Class "*" excludes the opcode as a whole.
type Exclusion struct {
	mu     sync.Mutex
	keys   map[string]bool // "<op>/<class>"
	ops    map[string]bool // opcodes with at least one known finding
	Counts map[string]int64
}

func NewExclusion(prop string) *Exclusion {
	e := &Exclusion{keys: map[string]bool{}, ops: map[string]bool{}, Counts: map[string]int64{}}
	for _, f := range core.Findings(prop) {
		if f.Status != "known" || !strings.HasPrefix(f.Key, "op=") {
			continue
		}
		k := strings.TrimPrefix(f.Key, "op=")
		if i := strings.LastIndexByte(k, '@'); i >= 0 {
			k = k[:i]
		}
		e.keys[k] = true
		if i := strings.IndexByte(k, '/'); i >= 0 {
			e.ops[k[:i]] = true
		}
	}
	return e
}

// Excluded implements Config.Excluded.  class "any" asks whether the opcode
// has any known finding at all (used to keep chains clean).
func (e *Exclusion) Excluded(op, class string) bool {
	if class == "any" {
		return e.ops[op]
	}
	return e.keys[op+"/"+class] || (class != "*" && e.keys[op+"/*"])
}

// OnExcluded implements Config.OnExcluded.
func (e *Exclusion) OnExcluded(op, class string) {
	e.mu.Lock()
	e.Counts["op="+op+"/"+class]++
	e.mu.Unlock()
}

// Flush reports the exclusion counters.
func (e *Exclusion) Flush(s *core.Stats) {
	e.mu.Lock()
	defer e.mu.Unlock()
	for k, n := range e.Counts {
		s.Counter("excluded_by_known/"+k, n)
	}
	e.Counts = map[string]int64{}
}
