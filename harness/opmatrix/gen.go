package opmatrix

import (
	"fmt"
	"math"
	"sort"
	"strconv"
	"strings"

	"pgregory.net/rapid"
)

// Memory geometry of every generated module.
const (
	MinPages = 1
	MaxPages = 3
	PageSize = 65536
	TableLen = 8
)

// Func is one exported function of a generated module.
type Func struct {
	Name     string   `json:"name"`
	Params   string   `json:"params"`
	Results  string   `json:"results"`
	Op       string   `json:"op"`    // primary opcode: identity of the function in keys/histograms
	Shape    string   `json:"shape"` // template
	Exact    bool     `json:"exact"` // NaN results are compared bit for bit
	Stateful bool     `json:"stateful,omitempty"`
	Ops      []string `json:"ops,omitempty"`
	Text     string   `json:"text"`

	in     string                                // operand types for Classify
	class  func(args []uint64) string            // shape-specific classifier (nil: Classify)
	argGen func(t *rapid.T, lbl string) []uint64 // shape-specific argument draw (nil: DrawVal per param)
}

// ClassOf returns the operand class of a call.
func (f *Func) ClassOf(args []uint64) string {
	if f.class != nil {
		return f.class(args)
	}
	in := f.in
	if in == "" {
		in = f.Params
	}
	return Classify(f.Op, in, args)
}

// Call is one step of a call script.
type Call struct {
	F     int      `json:"f"`
	Args  []string `json:"args"` // raw bits, hex
	Class string   `json:"class"`
}

func (c Call) Raw() []uint64 {
	out := make([]uint64, len(c.Args))
	for i, a := range c.Args {
		out[i], _ = strconv.ParseUint(a, 16, 64)
	}
	return out
}

func hexes(a []uint64) []string {
	out := make([]string, len(a))
	for i, v := range a {
		out[i] = strconv.FormatUint(v, 16)
	}
	return out
}

// Case is the replayable unit: module text + signatures + script.
type Case struct {
	Wat   string `json:"wat"`
	Funcs []Func `json:"funcs"` // Text is cleared in saved cases (it is inside Wat)
	Calls []Call `json:"calls"`
	Seed  uint64 `json:"data_seed"`
	// ExitCode >= 0: the C02 _start function ends with proc_exit(ExitCode).
	ExitCode int `json:"exit_code"`
}

// Config tunes generation for one property.
type Config struct {
	// Excluded reports whether (opcode, class) is excluded (known finding);
	// class "*" asks about the opcode as a whole.
	Excluded func(op, class string) bool
	// OnExcluded is called for every draw that was rejected because of it.
	OnExcluded func(op, class string)
	NFuncs     int  // exported op functions per module
	CallsPer   int  // average calls per function
	Wrappers   bool // add i32/i64 bit-pattern wrappers w<name> for functions with float params/results (C31)
	ExportGlob bool // export the globals themselves too
	NoTraps    bool // do not generate designated trap variants (oob, null, sig…)
	Start      bool // script is compiled into a _start function (C02)
	// Group optionally merges (opcode, class) pairs that share a root cause
	// ("" = no grouping for this pair).
	Group func(op, class string) (string, string)
}

// KeyOf maps (opcode, class) to the pair used in finding keys and in the
// exclusion lookup, so that one root cause spanning several opcodes/classes is
// one finding.  The default groups every out-of-bounds class under memory/oob.
func (c *Config) KeyOf(op, class string) (string, string) {
	if c.Group != nil {
		if o, cl := c.Group(op, class); o != "" {
			return o, cl
		}
	}
	if class == "oob" || class == "beyond-initial-size" {
		return "memory", "oob"
	}
	return op, class
}

// Key renders the finding key of (opcode, class).
func (c *Config) Key(op, class string) string {
	o, cl := c.KeyOf(op, class)
	return "op=" + o + "/" + cl
}

func (c *Config) excluded(op, class string) bool {
	if c.Excluded == nil {
		return false
	}
	o, cl := c.KeyOf(op, class)
	if c.Excluded(o, cl) || ((o != op || cl != class) && c.Excluded(op, class)) {
		if c.OnExcluded != nil {
			c.OnExcluded(o, cl)
		}
		return true
	}
	return false
}

// ---------------------------------------------------------------- prelude

func dataBytes(seed uint64, n int) []byte {
	b := make([]byte, n)
	x := seed
	for i := range b {
		x += 0x9e3779b97f4a7c15
		z := x
		z = (z ^ (z >> 30)) * 0xbf58476d1ce4e5b9
		z = (z ^ (z >> 27)) * 0x94d049bb133111eb
		b[i] = byte(z >> 56)
		if i%16 == 7 {
			b[i] |= 0x80 // sign bits for the _s loads
		}
	}
	return b
}

func watString(b []byte) string {
	var sb strings.Builder
	for _, c := range b {
		fmt.Fprintf(&sb, "\\%02x", c)
	}
	return sb.String()
}

// Prelude renders everything before the op functions.
func Prelude(seed uint64, cfg *Config) string {
	var sb strings.Builder
	sb.WriteString("(module $opm\n")
	sb.WriteString("(type $t_ii_i (func (param i32) (param i32) (result i32)))\n")
	sb.WriteString("(type $t_I_I (func (param i64) (result i64)))\n")
	sb.WriteString("(type $t_ff_f (func (param f32) (param f32) (result f32)))\n")
	sb.WriteString("(type $t_iF_Fi (func (param i32) (param f64) (result f64 i32)))\n")
	if cfg.Start {
		sb.WriteString("(import \"syscall_linux\" \"print_i64\" (func $print_i64 (param i64)))\n")
		sb.WriteString("(import \"syscall_linux\" \"print_rune\" (func $print_rune (param i32)))\n")
		sb.WriteString("(import \"syscall_linux\" \"print_str\" (func $print_str (param i32) (param i32)))\n")
		sb.WriteString("(import \"syscall_linux\" \"proc_exit\" (func $proc_exit (param i32)))\n")
	}
	fmt.Fprintf(&sb, "(memory $memory %d %d)\n", MinPages, MaxPages)
	sb.WriteString("(export \"memory\" (memory $memory))\n")
	gi := int32(uint32(seed))
	gI := int64(seed * 0x9e3779b97f4a7c15)
	fmt.Fprintf(&sb, "(global $g_i (mut i32) (i32.const %d))\n", gi)
	fmt.Fprintf(&sb, "(global $g_I (mut i64) (i64.const %d))\n", gI)
	fmt.Fprintf(&sb, "(global $g_f (mut f32) (f32.const %s))\n", []string{"1.5", "-0.25", "1024", "3"}[seed%4])
	fmt.Fprintf(&sb, "(global $g_F (mut f64) (f64.const %s))\n", []string{"-2.25", "0.125", "65536", "-7"}[(seed>>2)%4])
	sb.WriteString("(global $g_c i32 (i32.const 1234567))\n")
	if cfg.ExportGlob {
		sb.WriteString("(export \"g_i\" (global $g_i))\n(export \"g_I\" (global $g_I))\n(export \"g_f\" (global $g_f))\n(export \"g_F\" (global $g_F))\n")
	}
	fmt.Fprintf(&sb, "(table %d funcref)\n", TableLen)
	sb.WriteString("(elem (i32.const 1) $h_add $h_sub)\n(elem (i32.const 3) $h_mul)\n(elem (i32.const 4) $h_I)\n(elem (i32.const 5) $h_ff)\n(elem (i32.const 6) $h_pair)\n")
	fmt.Fprintf(&sb, "(data (i32.const 0) \"%s\")\n", watString(dataBytes(seed, 256)))
	fmt.Fprintf(&sb, "(data (i32.const %d) \"%s\")\n", PageSize-256, watString(dataBytes(seed+1, 256)))
	if cfg.Start {
		fmt.Fprintf(&sb, "(data (i32.const %d) \"%s\")\n", StartDataOffset, watString([]byte(StartMarker)))
	}
	sb.WriteString(`(func $h_add (param $a i32) (param $b i32) (result i32)
  local.get $a
  local.get $b
  i32.add
)
(func $h_sub (param $a i32) (param $b i32) (result i32)
  local.get $a
  local.get $b
  i32.sub
)
(func $h_mul (param $a i32) (param $b i32) (result i32)
  local.get $a
  local.get $b
  i32.mul
)
(func $h_I (param $a i64) (result i64)
  local.get $a
  i64.const 1
  i64.add
)
(func $h_ff (param $a f32) (param $b f32) (result f32)
  local.get $a
  local.get $b
  f32.copysign
)
(func $h_pair (param $a i32) (param $b f64) (result f64 i32)
  local.get $b
  local.get $a
  i32.const 1
  i32.add
  return
)
(func $h_dup (param $a i32) (result i32 i32)
  local.get $a
  local.get $a
)
(func $h_void (param $a i32)
  local.get $a
  global.set $g_i
)
(func $get_g_i (export "get_g_i") (result i32)
  global.get $g_i
)
(func $get_g_I (export "get_g_I") (result i64)
  global.get $g_I
)
(func $get_g_f (export "get_g_f") (result f32)
  global.get $g_f
)
(func $get_g_F (export "get_g_F") (result f64)
  global.get $g_F
)
`)
	return sb.String()
}

// Getters are appended to every script so that global state is observed.
var Getters = []Func{
	{Name: "get_g_i", Results: "i", Op: "global.get", Shape: "getter", Exact: true},
	{Name: "get_g_I", Results: "I", Op: "global.get", Shape: "getter", Exact: true},
	{Name: "get_g_f", Results: "f", Op: "global.get", Shape: "getter", Exact: true},
	{Name: "get_g_F", Results: "F", Op: "global.get", Shape: "getter", Exact: true},
}

// ---------------------------------------------------------------- function text helpers

type fb struct {
	name    string
	params  string
	results string
	locals  []string // "name type"
	lines   []string
	ops     map[string]bool
}

func newFB(name, params, results string) *fb {
	return &fb{name: name, params: params, results: results, ops: map[string]bool{}}
}

func (b *fb) local(name string, t byte) { b.locals = append(b.locals, "$"+name+" "+WT(t)) }

// I appends instructions (one per line) and records their mnemonics.
func (b *fb) I(ins ...string) {
	for _, s := range ins {
		b.lines = append(b.lines, s)
		f := strings.Fields(s)
		if len(f) > 0 {
			b.ops[f[0]] = true
		}
	}
}

var pnames = "abcdefghijklmnop"

func (b *fb) text() string {
	var sb strings.Builder
	fmt.Fprintf(&sb, "(func $%s (export \"%s\")", b.name, b.name)
	for i := 0; i < len(b.params); i++ {
		fmt.Fprintf(&sb, " (param $%c %s)", pnames[i], WT(b.params[i]))
	}
	if len(b.results) > 0 {
		sb.WriteString(" (result")
		for i := 0; i < len(b.results); i++ {
			sb.WriteString(" " + WT(b.results[i]))
		}
		sb.WriteString(")")
	}
	sb.WriteString("\n")
	for _, l := range b.locals {
		fmt.Fprintf(&sb, "  (local %s)\n", l)
	}
	depth := 1
	for _, l := range b.lines {
		f := strings.Fields(l)
		if len(f) > 0 && (f[0] == "end" || f[0] == "else") {
			depth--
		}
		sb.WriteString(strings.Repeat("  ", depth) + l + "\n")
		if len(f) > 0 && (f[0] == "block" || f[0] == "loop" || f[0] == "if" || f[0] == "else") {
			depth++
		}
	}
	sb.WriteString(")\n")
	return sb.String()
}

func (b *fb) fn(op, shape string, exact, stateful bool) *Func {
	var ops []string
	for o := range b.ops {
		ops = append(ops, o)
	}
	sort.Strings(ops)
	return &Func{Name: b.name, Params: b.params, Results: b.results, Op: op, Shape: shape, Exact: exact, Stateful: stateful, Ops: ops, Text: b.text()}
}

func get(i int) string { return fmt.Sprintf("local.get $%c", pnames[i]) }

func constIns(t byte, v uint64) string {
	switch t {
	case 'i':
		return fmt.Sprintf("i32.const %d", int32(uint32(v)))
	case 'I':
		return fmt.Sprintf("i64.const %d", int64(v))
	case 'f':
		return "f32.const " + strconv.FormatFloat(float64(math.Float32frombits(uint32(v))), 'g', -1, 32)
	}
	return "f64.const " + strconv.FormatFloat(math.Float64frombits(v), 'g', -1, 64)
}

// ---------------------------------------------------------------- shapes

type loadStoreOp struct {
	name  string
	t     byte // value type
	width int  // bytes accessed
}

var loadOps = []loadStoreOp{
	{"i32.load", 'i', 4}, {"i64.load", 'I', 8}, {"f32.load", 'f', 4}, {"f64.load", 'F', 8},
	{"i32.load8_s", 'i', 1}, {"i32.load8_u", 'i', 1}, {"i32.load16_s", 'i', 2}, {"i32.load16_u", 'i', 2},
	{"i64.load8_s", 'I', 1}, {"i64.load8_u", 'I', 1}, {"i64.load16_s", 'I', 2}, {"i64.load16_u", 'I', 2},
	{"i64.load32_s", 'I', 4}, {"i64.load32_u", 'I', 4},
}
var storeOps = []loadStoreOp{
	{"i32.store", 'i', 4}, {"i64.store", 'I', 8}, {"f32.store", 'f', 4}, {"f64.store", 'F', 8},
	{"i32.store8", 'i', 1}, {"i32.store16", 'i', 2}, {"i64.store8", 'I', 1}, {"i64.store16", 'I', 2}, {"i64.store32", 'I', 4},
}

// window is an addressing scheme addr = base + (p & mask), access at addr+offset.
type window struct {
	base, mask, offset, width int
	kind                      string // "low" | "mid" | "edge" | "oob"
	align                     int
}

func drawWindow(t *rapid.T, width int, allowOOB bool) window {
	w := window{width: width}
	w.mask = rapid.SampledFrom([]int{0, 1, 3, 7, 15, 255}).Draw(t, "mask")
	w.offset = rapid.SampledFrom([]int{0, 0, 1, 2, 3, 4, 7, 8, 16, 255, 4096, 65535}).Draw(t, "offset")
	kinds := []string{"low", "mid", "mid", "edge", "edge"}
	if allowOOB {
		kinds = append(kinds, "oob")
	}
	w.kind = rapid.SampledFrom(kinds).Draw(t, "wkind")
	switch w.kind {
	case "low":
		w.base = rapid.IntRange(0, 64).Draw(t, "base")
		if w.base+w.mask+w.offset+w.width > PageSize {
			w.offset = 8
		}
	case "mid":
		w.base = 1024 + rapid.IntRange(0, 63).Draw(t, "base")
		if w.base+w.mask+w.offset+w.width > PageSize {
			w.offset = 16
		}
	case "edge": // p&mask == mask touches the last byte of page 0
		if w.offset > 4096 {
			w.offset = 4096
		}
		w.base = PageSize - w.offset - w.width - w.mask
	case "oob": // p&mask == mask is one byte past the maximum memory: traps whatever memory.grow did
		if w.offset > 4096 {
			w.offset = 4096
		}
		w.base = MaxPages*PageSize - w.offset - w.width - w.mask + 1
	}
	var aligns []int
	for a := 1; a <= width; a *= 2 {
		aligns = append(aligns, a)
	}
	w.align = rapid.SampledFrom(aligns).Draw(t, "align")
	return w
}

func (w window) addr(b *fb, p int) {
	b.I(fmt.Sprintf("i32.const %d", w.base), get(p), fmt.Sprintf("i32.const %d", w.mask), "i32.and", "i32.add")
}

func (w window) memarg() string {
	s := ""
	if w.offset != 0 {
		s += fmt.Sprintf(" offset=%d", w.offset)
	}
	s += fmt.Sprintf(" align=%d", w.align)
	return s
}

func (w window) classOf(p uint64) string {
	pm := int(uint32(p)) & w.mask
	ea := w.base + pm + w.offset
	switch {
	case w.kind == "oob" && pm == w.mask:
		return "oob"
	case w.kind == "edge" && pm == w.mask:
		return "last-byte"
	case w.width > 1 && ea%w.width != 0:
		return "unaligned"
	}
	return "aligned"
}

func (w window) drawP(t *rapid.T, lbl string) uint64 {
	switch rapid.IntRange(0, 5).Draw(t, lbl+"pk") {
	case 0:
		return 0
	case 1, 2:
		return uint64(w.mask) | 0xffffff00
	case 3:
		return uint64(rapid.IntRange(0, 255).Draw(t, lbl))
	}
	return uint64(rapid.Uint32().Draw(t, lbl))
}

// gen bundles the state of one module generation.
type gen struct {
	t   *rapid.T
	cfg *Config
	n   int
}

func (g *gen) name() string { g.n++; return fmt.Sprintf("f%d", g.n-1) }

var shapeNames = []string{
	"num", "num", "num", "num", "num", "num", "num", "num", "num", "num", "num", "num",
	"tee", "const", "load", "load", "store", "store", "storeload", "global", "select", "if", "ifvoid",
	"brif", "brifval", "brtable", "brtableval", "loop", "while", "nested", "return", "call", "callmulti",
	"callind", "callindraw", "pending", "ifmulti", "abi", "abi", "memcopy", "memfill", "memgrow", "memsize", "tableops", "unreachable",
	"chain", "chain", "localzero", "params", "retmulti", "rawaddr", "bulkraw",
}

// ShapeNames lists the templates (for evidence).
func ShapeNames() []string {
	seen := map[string]bool{}
	var out []string
	for _, s := range shapeNames {
		if !seen[s] {
			seen[s] = true
			out = append(out, s)
		}
	}
	return out
}

func (g *gen) pickNumeric(lbl string, filter func(o *OpInfo) bool) *OpInfo {
	for tries := 0; tries < 20; tries++ {
		o := &NumericOps[rapid.IntRange(0, len(NumericOps)-1).Draw(g.t, lbl)]
		if filter != nil && !filter(o) {
			continue
		}
		if g.cfg.excluded(o.Name, "*") {
			continue
		}
		return o
	}
	return OpByName("i32.add")
}

// one draws one function; it may return nil when the drawn shape is excluded.
func (g *gen) one() *Func {
	t := g.t
	shape := rapid.SampledFrom(shapeNames).Draw(t, "shape")
	ex := func(op string) bool { return g.cfg.excluded(op, "*") }
	vt := func(lbl string) byte { return rapid.SampledFrom([]byte("iIfF")).Draw(t, lbl) }
	switch shape {
	case "num":
		o := g.pickNumeric("op", nil)
		b := newFB(g.name(), o.In, o.Out)
		for i := range o.In {
			b.I(get(i))
		}
		b.I(o.Name)
		f := b.fn(o.Name, shape, o.Exact, false)
		f.argGen = specialArgs(o)
		return f

	case "tee": // local.tee / local.set / drop around a binary op
		o := g.pickNumeric("op", func(o *OpInfo) bool { return len(o.In) == 2 })
		b := newFB(g.name(), o.In, o.Out)
		b.local("t", o.In[0])
		b.local("u", o.In[1])
		switch rapid.IntRange(0, 2).Draw(t, "teekind") {
		case 0:
			b.I(get(0), "local.tee $t", get(1), "local.set $u", "drop", "local.get $t", "local.get $u", o.Name)
		case 1:
			b.I(get(1), "local.set $u", get(0), "local.tee $t", "local.get $u", o.Name)
		default:
			b.I("nop", get(0), get(1), "local.tee $u", o.Name, "local.get $u", "drop")
		}
		f := b.fn(o.Name, shape, o.Exact, false)
		return f

	case "const": // operands are immediates in the body
		o := g.pickNumeric("op", nil)
		args := make([]uint64, len(o.In))
		b := newFB(g.name(), "", o.Out)
		constOp := ""
		for i := range o.In {
			args[i] = DrawVal(t, o.In[i], fmt.Sprintf("c%d", i))
			if o.In[i] == 'f' || o.In[i] == 'F' {
				// the text format of this assembler has no nan/inf literals
				if l := Label(o.In[i], args[i]); l == "nan" || l == "inf" {
					args[i] = map[byte]uint64{'f': f32b(0.1), 'F': f64b(0.1)}[o.In[i]]
				}
			}
			b.I(constIns(o.In[i], args[i]))
			constOp = WT(o.In[i]) + ".const"
		}
		if ex(constOp) {
			return nil
		}
		cls := Classify(o.Name, o.In, args)
		if g.cfg.excluded(o.Name, cls) {
			return nil
		}
		ccls := constClass(o.In, args)
		if g.cfg.excluded(constOp, ccls) {
			return nil
		}
		b.I(o.Name)
		f := b.fn(constOp, shape, o.Exact, false)
		f.class = func([]uint64) string { return ccls }
		return f

	case "load", "store", "storeload":
		if shape == "load" {
			lo := rapid.SampledFrom(loadOps).Draw(t, "lop")
			if ex(lo.name) {
				return nil
			}
			w := drawWindow(t, lo.width, !g.cfg.NoTraps && !g.cfg.excluded(lo.name, "oob"))
			b := newFB(g.name(), "i", string(lo.t))
			w.addr(b, 0)
			b.I(lo.name + w.memarg())
			f := b.fn(lo.name, shape, true, false)
			f.class = func(a []uint64) string { return w.classOf(a[0]) }
			f.argGen = func(t *rapid.T, lbl string) []uint64 { return []uint64{w.drawP(t, lbl)} }
			return f
		}
		so := rapid.SampledFrom(storeOps).Draw(t, "sop")
		if ex(so.name) {
			return nil
		}
		w := drawWindow(t, so.width, !g.cfg.NoTraps && shape == "store" && !g.cfg.excluded(so.name, "oob"))
		if shape == "store" {
			b := newFB(g.name(), "i"+string(so.t), "")
			w.addr(b, 0)
			b.I(get(1), so.name+w.memarg())
			f := b.fn(so.name, shape, true, true)
			f.class = func(a []uint64) string { return w.classOf(a[0]) + ":" + Label(so.t, a[1]) }
			f.argGen = func(t *rapid.T, lbl string) []uint64 {
				return []uint64{w.drawP(t, lbl), DrawVal(t, so.t, lbl+"v")}
			}
			return f
		}
		// store then load back with another instruction at the same address
		lo := rapid.SampledFrom(loadOps).Draw(t, "lop")
		if ex(lo.name) || lo.width > so.width {
			return nil
		}
		b := newFB(g.name(), "i"+string(so.t), string(lo.t))
		w.addr(b, 0)
		b.I(get(1), so.name+w.memarg())
		w2 := w
		w2.align = 1
		w.addr(b, 0)
		b.I(lo.name + w2.memarg())
		f := b.fn(so.name, shape, true, true)
		f.class = func(a []uint64) string { return "then-" + lo.name + ":" + w.classOf(a[0]) }
		f.argGen = func(t *rapid.T, lbl string) []uint64 {
			return []uint64{w.drawP(t, lbl), DrawVal(t, so.t, lbl+"v")}
		}
		return f

	case "global":
		ty := vt("gt")
		if ex("global.set") || ex("global.get") {
			return nil
		}
		b := newFB(g.name(), string(ty), string(ty))
		b.I("global.get $g_"+string(ty), "drop", get(0), "global.set $g_"+string(ty), "global.get $g_"+string(ty))
		f := b.fn("global.set", shape, true, true)
		f.class = func(a []uint64) string { return WT(ty) + ":" + Label(ty, a[0]) }
		return f

	case "select":
		ty := vt("st")
		b := newFB(g.name(), string(ty)+string(ty)+"i", string(ty))
		b.I(get(0), get(1), get(2), "select")
		f := b.fn("select", shape, true, false)
		f.class = func(a []uint64) string { return WT(ty) + ":c=" + Label('i', a[2]) }
		return f

	case "if":
		ty := vt("it")
		b := newFB(g.name(), "i"+string(ty)+string(ty), string(ty))
		b.I(get(0), "if $I (result "+WT(ty)+")", get(1), "else", get(2), "end")
		f := b.fn("if", shape, true, false)
		f.class = func(a []uint64) string { return WT(ty) + ":c=" + Label('i', a[0]) }
		return f

	case "ifvoid":
		b := newFB(g.name(), "ii", "i")
		b.local("r", 'i')
		b.I("i32.const 5", "local.set $r", get(0), "if $I", get(1), "local.set $r", "end", "local.get $r")
		f := b.fn("if", shape, true, false)
		f.class = func(a []uint64) string { return "void:c=" + Label('i', a[0]) }
		return f

	case "brif":
		b := newFB(g.name(), "ii", "i")
		b.local("r", 'i')
		b.I(get(1), "local.set $r", "block $B", get(0), "br_if $B", "i32.const 77", "local.set $r", "end", "local.get $r")
		f := b.fn("br_if", shape, true, false)
		f.class = func(a []uint64) string { return "void:c=" + Label('i', a[0]) }
		return f

	case "brifval":
		if ex("br_if") || g.cfg.excluded("br_if", "value") {
			return nil
		}
		ty := vt("bt")
		b := newFB(g.name(), string(ty)+"i"+string(ty), string(ty))
		b.I("block $B (result "+WT(ty)+")", get(0), get(1), "br_if $B", "drop", get(2), "end")
		f := b.fn("br_if", shape, true, false)
		f.class = func(a []uint64) string { return "value:c=" + Label('i', a[1]) }
		return f

	case "brtable", "brtableval":
		n := rapid.IntRange(1, 4).Draw(t, "ntargets")
		val := shape == "brtableval"
		if val && g.cfg.excluded("br_table", "value") {
			return nil
		}
		b := newFB(g.name(), "ii", "i")
		res := ""
		if val {
			res = " (result i32)"
		}
		// blocks $b0 (innermost) .. $bn (outermost = default)
		for k := n; k >= 0; k-- {
			b.I(fmt.Sprintf("block $b%d%s", k, res))
		}
		if val {
			b.I(get(1))
		}
		b.I(get(0))
		var targets []string
		for k := 0; k < n; k++ {
			targets = append(targets, fmt.Sprintf("$b%d", rapid.IntRange(0, n).Draw(t, "target")))
		}
		targets = append(targets, fmt.Sprintf("$b%d", n))
		b.I("br_table " + strings.Join(targets, " "))
		for k := 0; k <= n; k++ {
			b.I("end")
			if val {
				b.I(fmt.Sprintf("i32.const %d", 10*(k+1)), "i32.add")
			} else if k < n {
				b.I(fmt.Sprintf("i32.const %d", 100+k), "return")
			}
		}
		if !val {
			b.I(get(1))
		}
		f := b.fn("br_table", shape, true, false)
		f.class = func(a []uint64) string {
			idx := uint32(a[0])
			pre := "void:"
			if val {
				pre = "value:"
			}
			switch {
			case idx < uint32(n):
				return pre + "idx<n"
			case idx == uint32(n):
				return pre + "idx=n"
			case int32(idx) < 0:
				return pre + "idx>=2^31"
			}
			return pre + "idx>n"
		}
		f.argGen = func(t *rapid.T, lbl string) []uint64 {
			idx := rapid.SampledFrom([]uint64{0, 1, 2, 3, 4, 5, 100, 0x7fffffff, 0x80000000, 0xffffffff}).Draw(t, lbl)
			return []uint64{idx, DrawVal(t, 'i', lbl+"v")}
		}
		return f

	case "loop":
		b := newFB(g.name(), "ii", "i")
		b.local("i", 'i')
		b.local("s", 'i')
		b.I(get(1), "local.set $s", "loop $L", "local.get $s", "local.get $i", "i32.add", "local.set $s",
			"local.get $i", "i32.const 1", "i32.add", "local.tee $i", get(0), "i32.const 63", "i32.and", "i32.lt_u", "br_if $L", "end", "local.get $s")
		f := b.fn("loop", shape, true, false)
		f.class = func(a []uint64) string {
			if uint32(a[0])&63 == 0 {
				return "n=0"
			}
			return "n>0"
		}
		return f

	case "while":
		b := newFB(g.name(), "iI", "I")
		b.local("i", 'i')
		b.I("block $X", "loop $L", "local.get $i", get(0), "i32.const 31", "i32.and", "i32.ge_u", "br_if $X",
			get(1), "i64.const 3", "i64.mul", "i64.const 1", "i64.add", "local.set $b",
			"local.get $i", "i32.const 1", "i32.add", "local.set $i", "br $L", "end", "end", get(1))
		f := b.fn("br", shape, true, false)
		f.class = func(a []uint64) string {
			if uint32(a[0])&31 == 0 {
				return "loop:n=0"
			}
			return "loop:n>0"
		}
		return f

	case "nested":
		ty := vt("nt")
		b := newFB(g.name(), "i"+string(ty)+string(ty), string(ty))
		b.I("block $O (result "+WT(ty)+")", "block $M", "block $N", get(0), "br_if $N", get(0), "i32.const 1", "i32.and", "br_if $M", get(1), "br $O", "end",
			get(2), "br $O", "end", get(1), get(2), get(0), "i32.const 2", "i32.and", "select", "end")
		f := b.fn("br", shape, true, false)
		f.class = func(a []uint64) string { return "depth2:" + WT(ty) + ":c=" + Label('i', a[0]) }
		return f

	case "return":
		ty := vt("rt")
		b := newFB(g.name(), "i"+string(ty)+string(ty), string(ty))
		b.I("block $B", get(0), "if $I", get(1), "return", "end", "end", get(2))
		f := b.fn("return", shape, true, false)
		f.class = func(a []uint64) string { return WT(ty) + ":c=" + Label('i', a[0]) }
		return f

	case "call":
		b := newFB(g.name(), "iiI", "I")
		b.I(get(0), "call $h_void", get(0), get(1), "call $h_mul", "i64.extend_i32_s", get(2), "call $h_I", "i64.add")
		return b.fn("call", shape, true, true)

	case "callmulti":
		if g.cfg.excluded("call", "multi-value") {
			return nil
		}
		b := newFB(g.name(), "iF", "iF")
		b.I(get(0), get(1), "call $h_pair", "local.set $a", "local.set $b", get(0), get(1))
		f := b.fn("call", shape, true, false)
		f.class = func(a []uint64) string { return "multi-value" }
		return f

	case "pending": // values stay on the operand stack while a loop with branches runs (the compiler's slice append does this)
		if g.cfg.excluded("return", "multi-value") {
			return nil
		}
		b := newFB(g.name(), "ii", "iii")
		b.I(get(1), "call $h_dup", "block $X", "loop $L", get(0), "i32.const 7", "i32.and", "i32.eqz", "if $I", "br $X", "else", "end",
			get(0), "i32.const 1", "i32.sub", "local.set $a", "br $L", "end", "end", get(0))
		f := b.fn("br", shape, true, false)
		f.class = func(a []uint64) string { return "pending-values" }
		return f

	case "ifmulti":
		if g.cfg.excluded("if", "multi-value") {
			return nil
		}
		b := newFB(g.name(), "iiI", "Ii")
		b.local("d", 'i')
		b.I(get(0), "if $I (result i64 i32)", get(2), get(1), "else", get(2), "i64.const 1", "i64.add", get(1), "call $h_dup", "local.set $d", "end")
		f := b.fn("if", shape, true, false)
		f.class = func(a []uint64) string { return "multi-value:c=" + Label('i', a[0]) }
		return f

	case "callind":
		b := newFB(g.name(), "iii", "i")
		b.I(get(1), get(2), "i32.const 1", get(0), "i32.const 1", "i32.and", "i32.add", "call_indirect (type $t_ii_i)")
		f := b.fn("call_indirect", shape, true, false)
		f.class = func(a []uint64) string { return "ok" }
		return f

	case "callindraw":
		kind := rapid.SampledFrom([]string{"ii_i", "I_I", "ff_f", "iF_Fi"}).Draw(t, "cikind")
		var b *fb
		switch kind {
		case "ii_i":
			b = newFB(g.name(), "iii", "i")
			b.I(get(1), get(2), get(0), "call_indirect (type $t_ii_i)")
		case "I_I":
			b = newFB(g.name(), "iI", "I")
			b.I(get(1), get(0), "call_indirect (type $t_I_I)")
		case "ff_f":
			b = newFB(g.name(), "iff", "f")
			b.I(get(1), get(2), get(0), "call_indirect (type $t_ff_f)")
		default:
			if g.cfg.excluded("call_indirect", "multi-value") {
				return nil
			}
			b = newFB(g.name(), "iiF", "Fi")
			b.I(get(1), get(2), get(0), "call_indirect (type $t_iF_Fi)")
		}
		okIdx := map[string][]uint64{"ii_i": {1, 2, 3}, "I_I": {4}, "ff_f": {5}, "iF_Fi": {6}}[kind]
		classOf := func(a []uint64) string {
			idx := uint32(a[0])
			for _, k := range okIdx {
				if uint64(idx) == k {
					if kind == "iF_Fi" {
						return "multi-value"
					}
					return "ok"
				}
			}
			switch {
			case idx == 0 || idx == 7:
				return "null"
			case idx < TableLen:
				return "sig"
			}
			return "idx-oob"
		}
		f := b.fn("call_indirect", shape, true, false)
		f.class = classOf
		cfg := g.cfg
		f.argGen = func(t *rapid.T, lbl string) []uint64 {
			pool := append([]uint64{}, okIdx...)
			pool = append(pool, okIdx...)
			if !cfg.NoTraps {
				for _, c := range []uint64{0, 7, 1, 4, 5, 6, 8, 9, 0x7fffffff, 0x80000000, 0xffffffff} {
					if !cfg.excluded("call_indirect", classOf([]uint64{c})) {
						pool = append(pool, c)
					}
				}
			}
			a := []uint64{rapid.SampledFrom(pool).Draw(t, lbl)}
			for i := 1; i < len(b.params); i++ {
				a = append(a, DrawVal(t, b.params[i], fmt.Sprintf("%s%d", lbl, i)))
			}
			return a
		}
		return f

	case "memcopy", "memfill":
		op := "memory.copy"
		if shape == "memfill" {
			op = "memory.fill"
		}
		if ex(op) {
			return nil
		}
		base := rapid.SampledFrom([]int{0, 1024, PageSize - 512}).Draw(t, "bbase")
		b := newFB(g.name(), "iii", "")
		b.I(fmt.Sprintf("i32.const %d", base), get(0), "i32.const 255", "i32.and", "i32.add")
		if shape == "memcopy" {
			b.I(fmt.Sprintf("i32.const %d", base), get(1), "i32.const 255", "i32.and", "i32.add")
		} else {
			b.I(get(1))
		}
		b.I(get(2), "i32.const 255", "i32.and", op)
		f := b.fn(op, shape, true, true)
		f.class = func(a []uint64) string {
			d, s, n := int(uint32(a[0])&255), int(uint32(a[1])&255), int(uint32(a[2])&255)
			if n == 0 {
				return "n=0"
			}
			if shape == "memfill" {
				if uint32(a[1]) > 255 {
					return "val>255"
				}
				return "n>0"
			}
			switch {
			case d > s && d < s+n:
				return "overlap:dst>src"
			case s > d && s < d+n:
				return "overlap:dst<src"
			case s == d:
				return "same"
			}
			return "disjoint"
		}
		f.argGen = func(t *rapid.T, lbl string) []uint64 {
			d := uint64(rapid.IntRange(0, 255).Draw(t, lbl+"d"))
			n := uint64(rapid.SampledFrom([]int{0, 1, 2, 7, 8, 9, 64, 200, 255}).Draw(t, lbl+"n"))
			var s uint64
			if shape == "memfill" {
				s = DrawVal(t, 'i', lbl+"v")
			} else {
				s = uint64(int(d) + rapid.IntRange(-16, 16).Draw(t, lbl+"s"))
			}
			return []uint64{d | 0xabcd00, s, n | 0x100}
		}
		return f

	case "bulkraw": // unmasked operands: out-of-bounds and zero-length edge cases (trap class)
		if g.cfg.NoTraps {
			return nil
		}
		op := rapid.SampledFrom([]string{"memory.copy", "memory.fill"}).Draw(t, "bop")
		if ex(op) || g.cfg.excluded(op, "oob") {
			return nil
		}
		b := newFB(g.name(), "iii", "")
		b.I(get(0), get(1), get(2), op)
		f := b.fn(op, shape, true, true)
		limit := uint64(MaxPages * PageSize)
		f.class = func(a []uint64) string {
			d, s, n := uint64(uint32(a[0])), uint64(uint32(a[1])), uint64(uint32(a[2]))
			if d+n > limit || (op == "memory.copy" && s+n > limit) {
				return "oob"
			}
			if d+n > PageSize || (op == "memory.copy" && s+n > PageSize) {
				return "beyond-initial-size" // outcome depends on earlier memory.grow calls: both sides run the same script
			}
			if n == 0 {
				return "raw:n=0"
			}
			return "raw"
		}
		f.argGen = func(t *rapid.T, lbl string) []uint64 {
			pool := []uint64{0, 1, 100, PageSize - 1, PageSize, limit - 1, limit, limit + 1, 0x7fffffff, 0x80000000, 0xffffffff}
			return []uint64{rapid.SampledFrom(pool).Draw(t, lbl+"d"), rapid.SampledFrom(pool).Draw(t, lbl+"s"),
				rapid.SampledFrom([]uint64{0, 0, 1, 2, 16, PageSize, limit, 0xffffffff}).Draw(t, lbl+"n")}
		}
		return f

	case "rawaddr": // unmasked address + offset: effective address arithmetic must not wrap
		if g.cfg.NoTraps {
			return nil
		}
		lo := rapid.SampledFrom(loadOps).Draw(t, "lop")
		if ex(lo.name) || g.cfg.excluded(lo.name, "oob") {
			return nil
		}
		off := rapid.SampledFrom([]int{0, 1, 8, 65535, 65536, 0x7fffffff}).Draw(t, "roff")
		b := newFB(g.name(), "i", string(lo.t))
		if off != 0 {
			b.I(get(0), fmt.Sprintf("%s offset=%d", lo.name, off))
		} else {
			b.I(get(0), lo.name)
		}
		limit := uint64(MaxPages * PageSize)
		f := b.fn(lo.name, shape, true, false)
		f.class = func(a []uint64) string {
			ea := uint64(uint32(a[0])) + uint64(off) + uint64(lo.width)
			if ea > limit {
				return "oob"
			}
			if ea > PageSize {
				return "beyond-initial-size"
			}
			return "raw-in-bounds"
		}
		f.argGen = func(t *rapid.T, lbl string) []uint64 {
			return []uint64{rapid.SampledFrom([]uint64{0, 1, 3, 255, PageSize - 8, PageSize - 1, PageSize, limit - 8, limit - 1, limit, 0x7fffffff, 0x80000000, 0xfffffff8, 0xffffffff}).Draw(t, lbl)}
		}
		return f

	case "memgrow":
		if ex("memory.grow") {
			return nil
		}
		b := newFB(g.name(), "i", "i")
		b.I(get(0), "memory.grow", "memory.size", "i32.const 100", "i32.mul", "i32.add")
		f := b.fn("memory.grow", shape, true, true)
		f.class = func(a []uint64) string {
			d := uint32(a[0])
			switch {
			case d == 0:
				return "delta=0"
			case d <= MaxPages-MinPages:
				return "delta<=room"
			case d <= 65536:
				return "delta>max"
			case int32(d) < 0:
				return "delta>=2^31"
			}
			return "delta>65536"
		}
		cfg := g.cfg
		f.argGen = func(t *rapid.T, lbl string) []uint64 {
			var pool []uint64
			for _, d := range []uint64{0, 0, 1, 1, 2, 3, 4, 65535, 65536, 65537, 0x7fffffff, 0x80000000, 0xffffffff, 0xfffffffe} {
				if !cfg.excluded("memory.grow", f.class([]uint64{d})) {
					pool = append(pool, d)
				}
			}
			return []uint64{rapid.SampledFrom(pool).Draw(t, lbl)}
		}
		return f

	case "memsize":
		b := newFB(g.name(), "", "i")
		b.I("memory.size", "global.get $g_c", "i32.add")
		return b.fn("memory.size", shape, true, false)

	case "tableops":
		if ex("table.get") || ex("table.set") {
			return nil
		}
		b := newFB(g.name(), "iii", "i")
		// table[7] = table[1 + (a&1)]; call table[7](b, c); table[7] = table[0] (null again)
		b.I("i32.const 7", "i32.const 1", get(0), "i32.const 1", "i32.and", "i32.add", "table.get 0", "table.set 0",
			get(1), get(2), "i32.const 7", "call_indirect (type $t_ii_i)",
			"i32.const 7", "i32.const 0", "table.get 0", "table.set 0")
		f := b.fn("table.set", shape, true, false)
		f.class = func(a []uint64) string { return "copy-entry" }
		return f

	case "unreachable":
		b := newFB(g.name(), "i", "i")
		b.I("nop", get(0), "i32.const 3", "i32.and", "i32.eqz", "if $I", "unreachable", "end", "i32.const 1")
		f := b.fn("unreachable", shape, true, false)
		f.class = func(a []uint64) string {
			if uint32(a[0])&3 == 0 {
				return "unreachable"
			}
			return "not-reached"
		}
		cfg := g.cfg
		f.argGen = func(t *rapid.T, lbl string) []uint64 {
			if cfg.NoTraps || cfg.excluded("unreachable", "unreachable") {
				return []uint64{uint64(rapid.IntRange(1, 3).Draw(t, lbl))}
			}
			return []uint64{uint64(rapid.IntRange(0, 3).Draw(t, lbl))}
		}
		return f

	case "chain":
		return g.chain()

	case "localzero": // locals are zero-initialised, whatever an earlier call left on the machine stack
		ty := vt("lt")
		b := newFB(g.name(), string(ty), string(ty))
		b.local("z", ty)
		b.local("pad", 'I')
		b.local("y", ty)
		if rapid.Bool().Draw(t, "whichlocal") {
			b.I("local.get $y", "drop", "local.get $z")
		} else {
			b.I("local.get $z", "drop", "local.get $y")
		}
		f := b.fn("local.get", shape, true, false)
		f.class = func(a []uint64) string { return "zero-init:" + WT(ty) }
		return f

	case "params":
		n := rapid.IntRange(1, 12).Draw(t, "nparams")
		var ps []byte
		for i := 0; i < n; i++ {
			ps = append(ps, vt("pt"))
		}
		k := rapid.IntRange(0, n-1).Draw(t, "pk")
		k2 := rapid.IntRange(0, n-1).Draw(t, "pk2")
		b := newFB(g.name(), string(ps), string(ps[k]))
		b.I(get(k2), "drop", get(k))
		f := b.fn("local.get", shape, true, false)
		nn := n
		f.class = func(a []uint64) string {
			if nn > 6 {
				return "params>6"
			}
			return "params<=6"
		}
		return f

	case "abi": // more parameters than argument registers together with results returned through memory
		if g.cfg.excluded("return", "multi-value") {
			return nil
		}
		n := rapid.IntRange(5, 10).Draw(t, "nparams")
		nr := rapid.IntRange(3, 4).Draw(t, "nresults")
		var ps, rs []byte
		for i := 0; i < n; i++ {
			ps = append(ps, vt("pt"))
		}
		b := newFB(g.name(), string(ps), "")
		for i := 0; i < nr; i++ {
			k := rapid.IntRange(0, n-1).Draw(t, "pk")
			rs = append(rs, ps[k])
			b.I(get(k))
		}
		b.results = string(rs)
		f := b.fn("return", shape, true, false)
		nn := n
		f.class = func(a []uint64) string { return fmt.Sprintf("params=%d,results>2", nn) }
		return f

	case "retmulti":
		if g.cfg.excluded("return", "multi-value") {
			return nil
		}
		t1, t2 := vt("r1"), vt("r2")
		explicit := rapid.Bool().Draw(t, "explicit")
		b := newFB(g.name(), string(t1)+string(t2), string(t2)+string(t1))
		b.I(get(1), get(0))
		cls := "multi-value:implicit"
		if explicit {
			b.I("return")
			cls = "multi-value:explicit"
		}
		if t1 == t2 {
			cls += ":same-type"
		}
		if g.cfg.excluded("return", cls) {
			return nil
		}
		f := b.fn("return", shape, true, false)
		f.class = func(a []uint64) string { return cls }
		return f
	}
	return nil
}

// specialArgs biases the operands of a plain numeric instruction towards its
// own special region (division overflow, shift counts, ties, NaN / signed
// zeros, conversion range edges) for a third of the calls.
func specialArgs(o *OpInfo) func(t *rapid.T, lbl string) []uint64 {
	base := o.Name[strings.IndexByte(o.Name, '.')+1:]
	w64 := o.In[0] == 'I' || o.In[0] == 'F'
	pick := func(t *rapid.T, lbl string, pool []uint64) uint64 { return rapid.SampledFrom(pool).Draw(t, lbl) }
	return func(t *rapid.T, lbl string) []uint64 {
		args := make([]uint64, len(o.In))
		for i := range args {
			args[i] = DrawVal(t, o.In[i], fmt.Sprintf("%s%d", lbl, i))
		}
		if rapid.IntRange(0, 2).Draw(t, lbl+"sp") != 0 {
			return args
		}
		switch {
		case strings.HasPrefix(base, "div_") || strings.HasPrefix(base, "rem_"):
			if w64 {
				args[0] = pick(t, lbl+"x", []uint64{1 << 63, 1<<63 + 1, ^uint64(0), 7, 1<<63 - 1})
				args[1] = pick(t, lbl+"y", []uint64{^uint64(0), 0, 1, 2, 1 << 63})
			} else {
				args[0] = pick(t, lbl+"x", []uint64{0x80000000, 0x80000001, 0xffffffff, 7, 0x7fffffff})
				args[1] = pick(t, lbl+"y", []uint64{0xffffffff, 0, 1, 2, 0x80000000})
			}
		case base == "shl" || base == "shr_s" || base == "shr_u" || base == "rotl" || base == "rotr":
			if w64 {
				args[1] = pick(t, lbl+"y", i64Counts)
			} else {
				args[1] = pick(t, lbl+"y", i32Counts)
			}
		case base == "nearest" || base == "ceil" || base == "floor" || base == "trunc":
			if w64 {
				args[0] = pick(t, lbl+"x", []uint64{f64b(0.5), f64b(-0.5), f64b(1.5), f64b(2.5), f64b(-2.5), f64b(3.5), f64b(4503599627370495.5), f64b(-0.2), 1 << 63, f64b(0.49999999999999994)})
			} else {
				args[0] = pick(t, lbl+"x", []uint64{f32b(0.5), f32b(-0.5), f32b(1.5), f32b(2.5), f32b(-2.5), f32b(3.5), f32b(8388607.5), f32b(-0.2), 0x80000000, f32b(0.49999997)})
			}
		case base == "min" || base == "max" || base == "copysign" || len(o.In) == 2 && (o.In[0] == 'f' || o.In[0] == 'F'):
			var pool []uint64
			if w64 {
				pool = []uint64{0, 1 << 63, CanonNaN64, 0xfff8000000000000, 0x7ff0000000000000, 0xfff0000000000000, f64b(1), f64b(-1), 0x7ff4000000000000}
			} else {
				pool = []uint64{0, 0x80000000, CanonNaN32, 0xffc00000, 0x7f800000, 0xff800000, f32b(1), f32b(-1), 0x7fa00000}
			}
			args[0], args[1] = pick(t, lbl+"x", pool), pick(t, lbl+"y", pool)
		case strings.HasPrefix(base, "trunc_f"):
			if o.In[0] == 'F' {
				args[0] = pick(t, lbl+"x", []uint64{f64b(2147483647.9), f64b(2147483648), f64b(-2147483648.9), f64b(-2147483649), f64b(4294967295.9), f64b(4294967296), f64b(-0.9), f64b(-1),
					0x43dfffffffffffff, 0x43e0000000000000, 0xc3e0000000000000, 0xc3e0000000000001, 0x43efffffffffffff, 0x43f0000000000000, CanonNaN64, 0x7ff0000000000000})
			} else {
				args[0] = pick(t, lbl+"x", []uint64{0x4effffff, 0x4f000000, 0xcf000000, 0xcf000001, 0x4f7fffff, 0x4f800000, 0xbf7fffff, 0xbf800000,
					0x5effffff, 0x5f000000, 0xdf000000, 0xdf000001, 0x5f7fffff, 0x5f800000, CanonNaN32, 0x7f800000})
			}
		}
		return args
	}
}

func constClass(in string, args []uint64) string {
	var l []string
	for i := range args {
		switch in[i] {
		case 'f', 'F':
			x := f64of(in[i], args[i])
			ax := math.Abs(x)
			switch {
			case x == 0:
				l = append(l, "0")
			case ax < 1e-6:
				l = append(l, "|x|<1e-6")
			case math.Round(x*1e6)/1e6 != x:
				l = append(l, ">6-decimals")
			default:
				l = append(l, "short")
			}
		default:
			l = append(l, Label(in[i], args[i]))
		}
	}
	return strings.Join(l, ",")
}

// chain builds a type-directed chain of 2-4 numeric instructions; only
// instructions without any known finding take part, so a failing chain is
// always a new finding.
func (g *gen) chain() *Func {
	t := g.t
	n := rapid.IntRange(2, 4).Draw(t, "chainlen")
	start := rapid.SampledFrom([]byte("iIfF")).Draw(t, "ct")
	params := []byte{start}
	b := newFB(g.name(), "", "")
	b.I(get(0))
	cur := start
	exact := true
	tainted := false // cur may be a NaN whose payload and sign the spec leaves open
	var names []string
	clean := func(o *OpInfo) bool {
		if g.cfg.Excluded == nil {
			return true
		}
		if g.cfg.Excluded(o.Name, "any") {
			return false
		}
		// findings grouped under a root-cause name (Config.Group) are found through their classes
		for _, cls := range []string{"nan", "+0/-0", "oor", "u>=2^63", ">=2^63", "min/-1", "div0", "tie", "edge", "big"} {
			if op, cl := g.cfg.KeyOf(o.Name, cls); g.cfg.Excluded(op, cl) {
				return false
			}
		}
		return true
	}
	for k := 0; k < n; k++ {
		o := g.pickNumeric("cop", func(o *OpInfo) bool {
			if o.In[0] != cur || !clean(o) {
				return false
			}
			if tainted && strings.Contains(o.Name, ".reinterpret_f") {
				return false // would expose the unspecified payload/sign of a computed NaN
			}
			// keep chains trap-free: division and float->int truncation only as single instructions
			return !strings.Contains(o.Name, "div") && !strings.Contains(o.Name, "rem") && !strings.Contains(o.Name, ".trunc_f")
		})
		if o.In[0] != cur {
			break
		}
		if len(o.In) == 2 {
			params = append(params, o.In[1])
			b.I(get(len(params) - 1))
		}
		b.I(o.Name)
		names = append(names, o.Name)
		exact = exact && o.Exact
		cur = o.Out[0]
		if cur == 'i' || cur == 'I' {
			tainted = false
		} else if !o.Exact {
			tainted = true
		}
	}
	if len(names) < 2 {
		return nil
	}
	b.params, b.results = string(params), string(cur)
	f := b.fn("chain", "chain", false, false)
	f.Exact = false
	_ = exact
	cls := strings.Join(names, "+")
	f.class = func([]uint64) string { return cls }
	return f
}

// ---------------------------------------------------------------- module + script

// Generate draws one module and its call script.
func Generate(t *rapid.T, cfg *Config) *Case {
	g := &gen{t: t, cfg: cfg}
	seed := rapid.Uint64Range(0, 1<<20).Draw(t, "dataseed")
	nf := cfg.NFuncs
	if nf == 0 {
		nf = 40
	}
	// (the lower bound keeps every compiler / node invocation well filled; failing
	// cases are minimised by Minimal, not by shrinking the module)
	nf = rapid.IntRange((nf+1)/2, nf).Draw(t, "nfuncs")
	var funcs []*Func
	for len(funcs) < nf {
		f := g.one()
		if f == nil {
			// excluded shape: draw again (bounded by rapid's own draw budget)
			if rapid.IntRange(0, 50).Draw(t, "giveup") == 0 {
				break
			}
			continue
		}
		funcs = append(funcs, f)
	}
	return Script(t, cfg, seed, funcs)
}

// Script draws the call script for the given functions and assembles the case.
func Script(t *rapid.T, cfg *Config, seed uint64, funcs []*Func) *Case {
	c := &Case{Seed: seed, ExitCode: -1}
	if cfg.Start {
		c.ExitCode = rapid.SampledFrom([]int{-1, -1, 0, 1, 7, 125}).Draw(t, "exitcode")
	}
	for _, f := range funcs {
		c.Funcs = append(c.Funcs, *f)
	}
	gbase := len(c.Funcs)
	c.Funcs = append(c.Funcs, Getters...)
	per := cfg.CallsPer
	if per == 0 {
		per = 4
	}
	ncalls := 0
	if len(funcs) > 0 {
		ncalls = rapid.IntRange((per*len(funcs)+1)/2, per*len(funcs)).Draw(t, "ncalls")
	}
	for k := 0; k < ncalls; k++ {
		fi := rapid.IntRange(0, len(funcs)-1).Draw(t, "callf")
		f := funcs[fi]
		var args []uint64
		var cls string
		ok := false
		for try := 0; try < 6 && !ok; try++ {
			lbl := fmt.Sprintf("a%d_", try)
			if f.argGen != nil {
				args = f.argGen(t, lbl)
			} else {
				args = make([]uint64, len(f.Params))
				for i := range args {
					args[i] = DrawVal(t, f.Params[i], fmt.Sprintf("%s%d", lbl, i))
				}
			}
			for i := range args {
				if f.Params[i] == 'i' || f.Params[i] == 'f' {
					args[i] &= 0xffffffff // 32-bit values travel zero-extended
				}
			}
			cls = f.ClassOf(args)
			ok = !cfg.excluded(f.Op, cls)
		}
		if !ok {
			continue
		}
		c.Calls = append(c.Calls, Call{F: fi, Args: hexes(args), Class: cls})
		if rapid.IntRange(0, 15).Draw(t, "getter") == 0 {
			c.Calls = append(c.Calls, Call{F: gbase + rapid.IntRange(0, 3).Draw(t, "which"), Class: "-"})
		}
	}
	for k := 0; k < 4; k++ {
		c.Calls = append(c.Calls, Call{F: gbase + k, Class: "-"})
	}
	if cfg.Start {
		OrderForStart(c, 1)
	}
	c.Wat = Render(seed, cfg, c)
	return c
}

// Render assembles the module text of a case.
func Render(seed uint64, cfg *Config, c *Case) string {
	var sb strings.Builder
	sb.WriteString(Prelude(seed, cfg))
	for _, f := range c.Funcs {
		sb.WriteString(f.Text)
	}
	if cfg.Wrappers {
		for _, f := range c.Funcs {
			if w := WrapperText(&f); w != "" {
				sb.WriteString(w)
			}
		}
	}
	if cfg.Start {
		sb.WriteString(StartText(c))
	}
	sb.WriteString(")\n")
	return sb.String()
}

// NeedsWrapper reports whether f has float params or results.
func NeedsWrapper(f *Func) bool { return strings.ContainsAny(f.Params+f.Results, "fF") }

// WrapperText renders w<name>: the same function with every f32/f64 param and
// result replaced by its i32/i64 bit pattern, so that an embedder that cannot
// carry NaN payloads (JavaScript numbers) passes exact bits.
func WrapperText(f *Func) string {
	if !NeedsWrapper(f) {
		return ""
	}
	bits := func(s string) string { return strings.NewReplacer("f", "i", "F", "I").Replace(s) }
	var sb strings.Builder
	fmt.Fprintf(&sb, "(func $w%s (export \"w%s\")", f.Name, f.Name)
	bp := bits(f.Params)
	for i := 0; i < len(bp); i++ {
		fmt.Fprintf(&sb, " (param $%c %s)", pnames[i], WT(bp[i]))
	}
	br := bits(f.Results)
	if br != "" {
		sb.WriteString(" (result")
		for i := 0; i < len(br); i++ {
			sb.WriteString(" " + WT(br[i]))
		}
		sb.WriteString(")")
	}
	sb.WriteString("\n")
	for i := 0; i < len(f.Results); i++ {
		fmt.Fprintf(&sb, "  (local $r%d %s)\n", i, WT(f.Results[i]))
	}
	for i := 0; i < len(f.Params); i++ {
		fmt.Fprintf(&sb, "  local.get $%c\n", pnames[i])
		switch f.Params[i] {
		case 'f':
			sb.WriteString("  f32.reinterpret_i32\n")
		case 'F':
			sb.WriteString("  f64.reinterpret_i64\n")
		}
	}
	fmt.Fprintf(&sb, "  call $%s\n", f.Name)
	for i := len(f.Results) - 1; i >= 0; i-- {
		fmt.Fprintf(&sb, "  local.set $r%d\n", i)
	}
	for i := 0; i < len(f.Results); i++ {
		fmt.Fprintf(&sb, "  local.get $r%d\n", i)
		switch f.Results[i] {
		case 'f':
			sb.WriteString("  i32.reinterpret_f32\n")
		case 'F':
			sb.WriteString("  i64.reinterpret_f64\n")
		}
	}
	sb.WriteString(")\n")
	return sb.String()
}

// Strip returns a copy of the case suitable for saving (function texts are
// part of Wat already).
func (c *Case) Strip() *Case {
	d := *c
	d.Funcs = make([]Func, len(c.Funcs))
	for i, f := range c.Funcs {
		f.Text = ""
		f.Ops = nil
		d.Funcs[i] = f
	}
	return &d
}
