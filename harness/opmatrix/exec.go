package opmatrix

import (
	"context"
	"fmt"
	"strconv"
	"strings"

	"wa-lang.org/wa/internal/3rdparty/wazero"
	"wa-lang.org/wa/internal/3rdparty/wazero/api"
	"wa-lang.org/wa/internal/wat/watutil"
)

// CallResult is what one engine observed for one call.
type CallResult struct {
	Trap   bool
	Vals   []uint64
	HasMem bool
	Mem    uint64 // hash of linear memory after the call (stateful functions only)
	Pages  uint32
}

// Outcome is a whole script on one engine.
type Outcome struct {
	Calls []CallResult
	Err   string // engine could not even load the module
}

// MemHash is the two-lane 32-bit multiplicative hash used by every driver
// (C, JavaScript, WAT) because it needs only 32-bit multiplication.
func MemHash(b []byte) uint64 {
	h1, h2 := uint32(2166136261), uint32(0x9747b28c)
	for _, c := range b {
		h1 = (h1 ^ uint32(c)) * 16777619
		h2 = (h2 + uint32(c) + 1) * 0x85ebca6b
	}
	return uint64(h1)<<32 | uint64(h2)
}

// Assemble runs the repository's assembler; a panic is returned as an error
// prefixed "panic:".
func Assemble(wat string) (wasm []byte, err error) {
	defer func() {
		if r := recover(); r != nil {
			err = fmt.Errorf("panic: %v", r)
		}
	}()
	return watutil.Wat2Wasm("opm.wat", []byte(wat))
}

// RunWazero executes the script on the vendored wazero (compiler engine when
// interp is false: that is what wazero.NewRuntime picks on amd64, i.e. what
// `wa run` embeds).  useWrappers calls w<name> for functions with floats.
func RunWazero(wasm []byte, c *Case, interp, useWrappers bool) (out Outcome) {
	ctx := context.Background()
	var rt wazero.Runtime
	if interp {
		rt = wazero.NewRuntimeWithConfig(ctx, wazero.NewRuntimeConfigInterpreter())
	} else {
		rt = wazero.NewRuntime(ctx)
	}
	defer rt.Close(ctx)
	defer func() {
		if r := recover(); r != nil {
			out.Err = fmt.Sprintf("panic in engine: %v", r)
		}
	}()
	mod, err := rt.InstantiateModuleFromBinary(ctx, wasm)
	if err != nil {
		out.Err = err.Error()
		return
	}
	fns := make([]api.Function, len(c.Funcs))
	for i := range c.Funcs {
		name := c.Funcs[i].Name
		if useWrappers && NeedsWrapper(&c.Funcs[i]) {
			name = "w" + name
		}
		fns[i] = mod.ExportedFunction(name)
		if fns[i] == nil {
			out.Err = "export not found: " + name
			return
		}
	}
	for _, call := range c.Calls {
		f := &c.Funcs[call.F]
		res, err := fns[call.F].Call(ctx, call.Raw()...)
		cr := CallResult{}
		if err != nil {
			cr.Trap = true
		} else {
			cr.Vals = append(cr.Vals, res...)
			for i := range cr.Vals {
				if f.Results[i] == 'i' || f.Results[i] == 'f' {
					cr.Vals[i] &= 0xffffffff
				}
			}
		}
		if f.Stateful {
			mem := mod.Memory()
			size := mem.Size(ctx)
			b, _ := mem.Read(ctx, 0, size)
			cr.HasMem, cr.Mem, cr.Pages = true, MemHash(b), size/PageSize
		}
		out.Calls = append(out.Calls, cr)
	}
	return
}

// ParseLines parses the line protocol every external driver prints:
//
//	R <hex>* [M <hash> <pages>]      normal return
//	T [M <hash> <pages>]             trap
//
// one line per call.
func ParseLines(text string) ([]CallResult, error) {
	var out []CallResult
	for _, line := range strings.Split(text, "\n") {
		line = strings.TrimSpace(line)
		if line == "" {
			continue
		}
		f := strings.Fields(line)
		cr := CallResult{}
		switch f[0] {
		case "T":
			cr.Trap = true
		case "R":
		default:
			return out, fmt.Errorf("bad driver line %q", line)
		}
		i := 1
		for ; i < len(f) && f[i] != "M"; i++ {
			v, err := strconv.ParseUint(f[i], 16, 64)
			if err != nil {
				return out, fmt.Errorf("bad driver line %q", line)
			}
			cr.Vals = append(cr.Vals, v)
		}
		if i < len(f) && f[i] == "M" && i+2 < len(f)+0 {
			h, err1 := strconv.ParseUint(f[i+1], 16, 64)
			p, err2 := strconv.ParseUint(f[i+2], 10, 32)
			if err1 != nil || err2 != nil {
				return out, fmt.Errorf("bad driver line %q", line)
			}
			cr.HasMem, cr.Mem, cr.Pages = true, h, uint32(p)
		}
		out = append(out, cr)
	}
	return out, nil
}

// Diff describes the first difference between two engines on call k.
type Diff struct {
	Call int
	Kind string // "trap" | "value" | "memory" | "missing"
	What string
}

// CompareCall compares one call's observations.  Float results that are NaN on
// both sides are equal unless the function is Exact.
func CompareCall(f *Func, a, b CallResult) (kind, what string) {
	if a.Trap != b.Trap {
		return "trap", fmt.Sprintf("trap=%v vs trap=%v (values %x vs %x)", a.Trap, b.Trap, a.Vals, b.Vals)
	}
	if !a.Trap {
		if len(a.Vals) != len(f.Results) || len(b.Vals) != len(f.Results) {
			return "value", fmt.Sprintf("result count %d vs %d, want %d", len(a.Vals), len(b.Vals), len(f.Results))
		}
		for i := range a.Vals {
			x, y := a.Vals[i], b.Vals[i]
			if x == y {
				continue
			}
			if !f.Exact {
				if f.Results[i] == 'f' && IsNaN32(uint32(x)) && IsNaN32(uint32(y)) {
					continue
				}
				if f.Results[i] == 'F' && IsNaN64(x) && IsNaN64(y) {
					continue
				}
			}
			return "value", fmt.Sprintf("result %d: %x vs %x", i, x, y)
		}
	}
	if a.HasMem && b.HasMem && (a.Mem != b.Mem || a.Pages != b.Pages) {
		return "memory", fmt.Sprintf("memory after call: hash %x (%d pages) vs %x (%d pages)", a.Mem, a.Pages, b.Mem, b.Pages)
	}
	return "", ""
}

// Describe renders a call for messages.
func Describe(c *Case, k int) string {
	call := c.Calls[k]
	f := &c.Funcs[call.F]
	return fmt.Sprintf("call #%d %s[%s %s](%s) class=%s", k, f.Name, f.Shape, f.Op, strings.Join(call.Args, ","), call.Class)
}

// Minimal builds the smallest case that keeps call k: the function it calls,
// plus every earlier call of a stateful function (memory/global effects carry
// over).  Function texts must still be present in c.
func Minimal(c *Case, cfg *Config, k int) *Case {
	keep := map[int]bool{c.Calls[k].F: true}
	var calls []Call
	for i := 0; i <= k; i++ {
		f := &c.Funcs[c.Calls[i].F]
		if i == k || (f.Stateful && f.Text != "") {
			keep[c.Calls[i].F] = true
			calls = append(calls, c.Calls[i])
		}
	}
	d := &Case{Seed: c.Seed, ExitCode: c.ExitCode}
	remap := map[int]int{}
	for i, f := range c.Funcs {
		if keep[i] && f.Shape != "getter" {
			remap[i] = len(d.Funcs)
			d.Funcs = append(d.Funcs, f)
		}
	}
	gbase := len(d.Funcs)
	d.Funcs = append(d.Funcs, Getters...)
	for _, call := range calls {
		f := &c.Funcs[call.F]
		if f.Shape == "getter" {
			for gi := range Getters {
				if Getters[gi].Name == f.Name {
					call.F = gbase + gi
				}
			}
		} else {
			call.F = remap[call.F]
		}
		d.Calls = append(d.Calls, call)
	}
	d.Wat = Render(d.Seed, cfg, d)
	return d
}

// HandmadeClass overrides the class label of handmade calls when non-empty.
var HandmadeClass string

// Handmade builds a one-function case from instruction lines (used to write
// corpus reproducers by hand).  Class labels are computed like the generator's.
func Handmade(cfg *Config, params, results, op string, exact, stateful bool, locals map[string]byte, body []string, calls ...[]uint64) *Case {
	b := newFB("f0", params, results)
	for n, t := range locals {
		b.local(n, t)
	}
	b.I(body...)
	f := b.fn(op, "handmade", exact, stateful)
	c := &Case{Seed: 1, ExitCode: -1}
	c.Funcs = append(c.Funcs, *f)
	c.Funcs = append(c.Funcs, Getters...)
	for _, a := range calls {
		cl := f.ClassOf(a)
		if HandmadeClass != "" {
			cl = HandmadeClass
		}
		c.Calls = append(c.Calls, Call{F: 0, Args: hexes(a), Class: cl})
	}
	for k := 0; k < 4; k++ {
		c.Calls = append(c.Calls, Call{F: 1 + k, Class: "-"})
	}
	c.Wat = Render(c.Seed, cfg, c)
	return c
}

// ShapeClass is the class used in keys about a function as a whole (for
// instance a translator that panics on it): "value" for the result-carrying
// br_if / br_table shapes, the shape name otherwise.
func (f *Func) ShapeClass() string {
	switch f.Shape {
	case "brtableval", "brifval":
		return "value"
	}
	return f.Shape
}
