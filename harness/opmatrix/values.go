package opmatrix

import (
	"math"

	"pgregory.net/rapid"
)

func f32b(x float32) uint64 { return uint64(math.Float32bits(x)) }
func f64b(x float64) uint64 { return math.Float64bits(x) }

var i32Special = []uint64{0, 1, 0xffffffff, 0x80000000, 0x7fffffff, 0x80000001, 0x7ffffffe, 2, 0xfffffffe, 3, 7, 10,
	0x55555555, 0xaaaaaaaa, 0x0000ffff, 0xffff0000, 0x00ff00ff, 0x80, 0x8000, 0xff, 0xffff, 0x100, 0x10000}
var i32Counts = []uint64{0, 1, 5, 31, 32, 33, 37, 63, 64, 65, 95, 96, 255, 256, 0x80000005, 0xffffffe0, 0xffffffff}
var i64Special = []uint64{0, 1, ^uint64(0), 1 << 63, 1<<63 - 1, 1<<63 + 1, 1<<63 - 2, 2, ^uint64(1), 3, 7, 10,
	0x5555555555555555, 0xaaaaaaaaaaaaaaaa, 0xffffffff, 0x100000000, 0xffffffff00000000, 0x80000000, 0x7fffffff,
	0xffffffff80000000, 0xffffffff7fffffff, 0x80, 0x8000, 0xff, 0xffff, 1 << 53, 1<<53 + 1, 1<<24 + 1, 0x7fffffffffffff00, 0xfffffffffffffbff}
var i64Counts = []uint64{0, 1, 5, 31, 32, 33, 63, 64, 65, 69, 127, 128, 255, 256, 1<<63 | 5, 0xffffffffffffffc0, ^uint64(0), 1 << 32, 1<<32 | 3}

var f32Special = []uint64{
	0, 0x80000000, f32b(1), f32b(-1), f32b(2), f32b(-2),
	CanonNaN32, 0xffc00000, 0x7fa00000, 0x7fc00001, 0xffffffff, 0x7f800001,
	0x7f800000, 0xff800000,
	1, 0x80000001, 0x007fffff, 0x00800000, 0x7f7fffff, 0xff7fffff,
	f32b(0.5), f32b(-0.5), f32b(1.5), f32b(-1.5), f32b(2.5), f32b(-2.5), f32b(3.5), f32b(0.49999997), f32b(-0.49999997),
	f32b(4194304.5), f32b(8388607.5), f32b(-8388607.5), f32b(8388608), f32b(16777216), f32b(16777217),
	0x4f000000, 0x4effffff, 0xcf000000, 0xcf000001, 0x4f800000, 0x4f7fffff,
	0x5f000000, 0x5effffff, 0xdf000000, 0xdf000001, 0x5f800000, 0x5f7fffff,
	0xbf7fffff, 0x3f7fffff, f32b(-0.75), f32b(0.1), f32b(1e-10), f32b(1e10), f32b(3.1415927), f32b(-123456.79), f32b(1e-40),
}

var f64Special = []uint64{
	0, 1 << 63, f64b(1), f64b(-1), f64b(2), f64b(-2),
	CanonNaN64, 0xfff8000000000000, 0x7ff4000000000000, 0x7ff8000000000001, ^uint64(0), 0x7ff0000000000001,
	0x7ff0000000000000, 0xfff0000000000000,
	1, 1<<63 | 1, 0x000fffffffffffff, 0x0010000000000000, 0x7fefffffffffffff, 0xffefffffffffffff,
	f64b(0.5), f64b(-0.5), f64b(1.5), f64b(-1.5), f64b(2.5), f64b(-2.5), f64b(3.5), f64b(0.49999999999999994), f64b(-0.49999999999999994),
	f64b(2251799813685248.5), f64b(4503599627370495.5), f64b(-4503599627370495.5), f64b(4503599627370496), f64b(9007199254740992), f64b(9007199254740993),
	f64b(2147483648), f64b(2147483647), f64b(2147483647.5), f64b(2147483647.9999998), f64b(-2147483648), f64b(-2147483649), f64b(-2147483648.5), f64b(-2147483648.9999995),
	f64b(4294967296), f64b(4294967295), f64b(4294967295.5), f64b(4294967295.9999995),
	f64b(-1), f64b(-0.9999999999999999), f64b(0.9999999999999999), f64b(-0.75),
	0x43e0000000000000, 0x43dfffffffffffff, 0xc3e0000000000000, 0xc3e0000000000001, 0x43f0000000000000, 0x43efffffffffffff,
	f64b(0.1), f64b(1e-10), f64b(1e10), f64b(math.Pi), f64b(-123456.789), f64b(1e300), f64b(1e-320),
	f64b(3.5e38), f64b(3.4028234663852886e38), f64b(3.4028235677973366e38), f64b(3.4028235677973362e38), f64b(1e-46), f64b(7.006492321624085e-46), f64b(1.401298464324817e-45), f64b(1.1754943508222875e-38),
	f64b(16777217), f64b(16777216.000000004),
}

// DrawVal draws one boundary-biased raw value of type ty.
func DrawVal(t *rapid.T, ty byte, lbl string) uint64 {
	k := rapid.IntRange(0, 9).Draw(t, lbl+"k")
	switch ty {
	case 'i':
		switch {
		case k < 4:
			return rapid.SampledFrom(i32Special).Draw(t, lbl)
		case k < 6:
			return rapid.SampledFrom(i32Counts).Draw(t, lbl)
		case k < 7:
			return uint64(uint32(rapid.Int32Range(-20, 20).Draw(t, lbl)))
		case k < 8:
			sh := rapid.UintRange(0, 31).Draw(t, lbl+"sh")
			return uint64(uint32(1<<sh) + uint32(rapid.Int32Range(-1, 1).Draw(t, lbl)))
		}
		return uint64(rapid.Uint32().Draw(t, lbl))
	case 'I':
		switch {
		case k < 4:
			return rapid.SampledFrom(i64Special).Draw(t, lbl)
		case k < 6:
			return rapid.SampledFrom(i64Counts).Draw(t, lbl)
		case k < 7:
			return uint64(rapid.Int64Range(-20, 20).Draw(t, lbl))
		case k < 8:
			sh := rapid.UintRange(0, 63).Draw(t, lbl+"sh")
			return uint64(1)<<sh + uint64(rapid.Int64Range(-1, 1).Draw(t, lbl))
		}
		return rapid.Uint64().Draw(t, lbl)
	case 'f':
		switch {
		case k < 6:
			return rapid.SampledFrom(f32Special).Draw(t, lbl)
		case k < 7:
			return f32b(float32(rapid.IntRange(-40, 40).Draw(t, lbl)) / 4)
		case k < 8:
			// around integer conversion limits and ties
			e := rapid.SampledFrom([]float64{1 << 23, 1 << 24, 1 << 31, 1 << 32, 1 << 63, 1 << 64}).Draw(t, lbl+"e")
			x := float32(e)
			b := math.Float32bits(x) + uint32(rapid.Int32Range(-2, 2).Draw(t, lbl))
			if rapid.Bool().Draw(t, lbl+"s") {
				b |= 0x80000000
			}
			return uint64(b)
		}
		return uint64(rapid.Uint32().Draw(t, lbl))
	}
	switch {
	case k < 6:
		return rapid.SampledFrom(f64Special).Draw(t, lbl)
	case k < 7:
		return f64b(float64(rapid.IntRange(-40, 40).Draw(t, lbl)) / 4)
	case k < 8:
		e := rapid.SampledFrom([]float64{1 << 23, 1 << 24, 1 << 31, 1 << 32, 1 << 52, 1 << 53, 1 << 63, 1 << 64, math.MaxFloat32}).Draw(t, lbl+"e")
		b := math.Float64bits(e) + uint64(rapid.Int64Range(-2, 2).Draw(t, lbl))
		if rapid.Bool().Draw(t, lbl+"s") {
			b |= 1 << 63
		}
		return b
	}
	return rapid.Uint64().Draw(t, lbl)
}
