package opmatrix

import (
	"fmt"
	"strings"
)

// The boundary matrix is a deterministic, exhaustive companion of the random
// generator: one exported function per plain numeric instruction (every
// unary/binary arithmetic, comparison, bit-count, shift/rotate, div/rem,
// conversion, truncation, extension and reinterpretation of the accepted
// instruction set; the set has no sign-extension or saturating-truncation
// instructions) and a call script that enumerates
//
//	unary  i32/i64 : every value of the special list and of the shift-count list
//	binary i32/i64 : special × special   (shifts/rotates: special × count list)
//	unary  f32/f64 : every value of the special list
//	binary f32/f64 : fbin × fbin, a fixed 26-value subset of the special list
//
// so that a defect living in one boundary cell cannot be missed by sampling.

func matrixPool(op *OpInfo, k int) []uint64 {
	base := op.Name[strings.IndexByte(op.Name, '.')+1:]
	isShift := base == "shl" || base == "shr_s" || base == "shr_u" || base == "rotl" || base == "rotr"
	switch op.In[k] {
	case 'i':
		if len(op.In) == 1 {
			return append(append([]uint64{}, i32Special...), i32Counts...)
		}
		if isShift && k == 1 {
			return i32Counts
		}
		return i32Special
	case 'I':
		if len(op.In) == 1 {
			return append(append([]uint64{}, i64Special...), i64Counts...)
		}
		if isShift && k == 1 {
			return i64Counts
		}
		return i64Special
	case 'f':
		if len(op.In) == 1 {
			return f32Special
		}
		return fbin32
	}
	if len(op.In) == 1 {
		return f64Special
	}
	return fbin64
}

var fbin32 = append(append([]uint64{}, f32Special[:20]...), f32b(0.5), f32b(-0.5), f32b(1.5), f32b(2.5), f32b(16777216), f32b(3.1415927))
var fbin64 = append(append([]uint64{}, f64Special[:20]...), f64b(0.5), f64b(-0.5), f64b(1.5), f64b(2.5), f64b(9007199254740992), f64b(3.141592653589793))

// MatrixStats describes what Matrix built.
type MatrixStats struct {
	Ops       int
	Cells     int // calls in the script
	Boundary  int // cells with at least one operand that is not a generic "pos/neg/x" value
	Excluded  int // cells dropped because their (opcode, class) is a known finding
	PerOpcode map[string]int
}

// Matrix builds the boundary-matrix case for the numeric instructions whose
// index i satisfies i % nshards == shard.
func Matrix(cfg *Config, shard, nshards int) (*Case, MatrixStats) {
	st := MatrixStats{PerOpcode: map[string]int{}}
	c := &Case{Seed: 7, ExitCode: -1}
	var calls []Call
	for idx := range NumericOps {
		if idx%nshards != shard {
			continue
		}
		o := &NumericOps[idx]
		if cfg.excluded(o.Name, "*") {
			continue
		}
		b := newFB(fmt.Sprintf("m%d", idx), o.In, o.Out)
		for i := range o.In {
			b.I(get(i))
		}
		b.I(o.Name)
		f := b.fn(o.Name, "matrix", o.Exact, false)
		fi := len(c.Funcs)
		c.Funcs = append(c.Funcs, *f)
		st.Ops++
		add := func(args []uint64) {
			for i := range args {
				if o.In[i] == 'i' || o.In[i] == 'f' {
					args[i] &= 0xffffffff
				}
			}
			cls := Classify(o.Name, o.In, args)
			if cfg.excluded(o.Name, cls) {
				st.Excluded++
				return
			}
			calls = append(calls, Call{F: fi, Args: hexes(args), Class: cls})
			st.Cells++
			st.PerOpcode[o.Name]++
			for i := range args {
				switch Label(o.In[i], args[i]) {
				case "pos", "neg", "x":
				default:
					st.Boundary++
					return
				}
			}
		}
		if len(o.In) == 1 {
			for _, a := range matrixPool(o, 0) {
				add([]uint64{a})
			}
		} else {
			for _, a := range matrixPool(o, 0) {
				for _, bb := range matrixPool(o, 1) {
					add([]uint64{a, bb})
				}
			}
		}
	}
	c.Funcs = append(c.Funcs, Getters...)
	c.Calls = calls
	c.Wat = Render(c.Seed, cfg, c)
	return c, st
}

// WithoutTraps returns a copy of the case without the calls that trap on the
// reference engine (res), for executors that cannot continue after a trap.
func WithoutTraps(c *Case, cfg *Config, res []CallResult) (*Case, int) {
	d := *c
	d.Calls = nil
	dropped := 0
	for k, call := range c.Calls {
		if k < len(res) && res[k].Trap {
			dropped++
			continue
		}
		d.Calls = append(d.Calls, call)
	}
	d.Wat = Render(d.Seed, cfg, &d)
	return &d, dropped
}

// BoundaryCell reports whether a call has at least one operand that is not a
// generic positive/negative/ordinary value.
func BoundaryCell(f *Func, call Call) bool {
	raw := call.Raw()
	for i := range raw {
		if i >= len(f.Params) {
			break
		}
		switch Label(f.Params[i], raw[i]) {
		case "pos", "neg", "x":
		default:
			return true
		}
	}
	return false
}
