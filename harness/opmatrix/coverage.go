package opmatrix

import (
	"sort"
	"strings"
	"testing"

	"wa-lang.org/wa/internal/wat/token"
	"wa-lang.org/wa/zverif/harness/core"
)

// AcceptedInstructions lists the mnemonics of internal/wat/token (the
// instruction set the repository's WAT front end accepts).
func AcceptedInstructions() []string {
	var out []string
	for tok := token.INS_UNREACHABLE; tok <= token.INS_F64_REINTERPRET_I64; tok++ {
		if tok.IsIsntruction() {
			out = append(out, tok.String())
		}
	}
	sort.Strings(out)
	return out
}

// CheckInstructionSet records, as evidence, that the generator has a shape for
// every accepted instruction; memory.init is attempted separately because the
// repository's assembler rejects every module that uses it (no data-count
// section), which puts it outside all three differential domains.
func CheckInstructionSet(t *testing.T, s *core.Stats) {
	have := map[string]bool{}
	for _, o := range AllOpcodes() {
		have[o] = true
	}
	var missing []string
	for _, ins := range AcceptedInstructions() {
		if !have[ins] {
			missing = append(missing, ins)
		}
	}
	s.Counter("instruction_set/accepted", int64(len(AcceptedInstructions())))
	s.Counter("instruction_set/with_generator_shape", int64(len(AcceptedInstructions())-len(missing)))
	if len(missing) > 0 {
		t.Errorf("harness defect: no generator shape for %s", strings.Join(missing, " "))
	}
	// memory.init: attempted, rejected by the assembler
	wat := Prelude(1, &Config{}) + "(func $f0 (export \"f0\")\n  i32.const 0\n  i32.const 0\n  i32.const 0\n  memory.init 0\n)\n)\n"
	if _, err := Assemble(wat); err != nil {
		s.Counter("rejected_by_domain/memory.init: assembler error", 1)
		s.Note("memory.init attempted: watutil.Wat2Wasm rejects the module (" + err.Error() + "), so the instruction is outside the differential domain")
	} else {
		s.Note("memory.init now assembles: add a generator shape for it")
		s.Counter("instruction_set/memory.init_assembles", 1)
	}
	s.Eval(1)
}
