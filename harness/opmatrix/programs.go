package opmatrix

import (
	"fmt"
	"os"
	"path/filepath"
	"sort"
	"strings"

	"pgregory.net/rapid"
	"wa-lang.org/wa/zverif/harness/core"
)

// Program is a Wa source text with a name.
type Program struct {
	Name string `json:"name"`
	Src  string `json:"src"`
}

// ExamplePrograms returns the single-file programs of waroot/examples (files
// that define main and import nothing but the standard library).  They are
// the stand-in for generated programs until the typed program generator is
// plugged into the hooks of C02/C03/C31.
func ExamplePrograms() []Program {
	root := filepath.Join(core.RepoDir(), "waroot", "examples")
	var out []Program
	filepath.Walk(root, func(path string, info os.FileInfo, err error) error {
		if err != nil || info.IsDir() || !strings.HasSuffix(path, ".wa") {
			return nil
		}
		data, err := os.ReadFile(path)
		if err != nil || len(data) > 20000 {
			return nil
		}
		src := string(data)
		if !strings.Contains(src, "func main") {
			return nil
		}
		rel, _ := filepath.Rel(root, path)
		// packages with wa.mod next to src/ need their siblings; keep plain files only
		dir := filepath.Dir(path)
		if filepath.Base(dir) == "src" {
			ents, _ := os.ReadDir(dir)
			n := 0
			for _, e := range ents {
				if strings.HasSuffix(e.Name(), ".wa") {
					n++
				}
			}
			if n > 1 {
				return nil
			}
		}
		out = append(out, Program{Name: rel, Src: src})
		return nil
	})
	sort.Slice(out, func(i, j int) bool { return out[i].Name < out[j].Name })
	return out
}

// QuickProgram selects the cheap examples (about 1-2 s CPU each for build,
// assembly, engine compilation and the reference run) for quick tiers.
func QuickProgram(name string) bool {
	if strings.HasPrefix(name, "misc/") {
		return true
	}
	switch name {
	case "copy.wa", "eq.wa", "struct.wa", "strbytes.wa", "short-var.wa", "interface_named.wa",
		"runtime_print/main.wa", "docker-wasm/hello.wa", "native-wa-01/hello.wa":
		return true
	}
	return false
}

func wi(v int64) string { return fmt.Sprintf("%d", v) }

// TemplateProgram draws one small hand-templated program (constants, sizes
// and the feature mix are rapid draws).
func TemplateProgram(t *rapid.T) Program {
	sm := func(lbl string) int64 {
		return rapid.SampledFrom([]int64{0, 1, -1, 2, 3, 7, 10, -13, 100, 255, 256, 1000, 65535, 65536, 2147483647, -2147483648, 123456789}).Draw(t, lbl)
	}
	pos := func(lbl string) int64 { return int64(rapid.IntRange(1, 40).Draw(t, lbl)) }
	fl := func(lbl string) string {
		return rapid.SampledFrom([]string{"0.5", "1.5", "2.5", "-2.5", "3.75", "1e6", "0.1", "100.25", "-0.125", "7"}).Draw(t, lbl)
	}
	var sb strings.Builder
	var body []string
	var decls []string
	nfeat := rapid.IntRange(2, 6).Draw(t, "nfeat")
	used := map[string]bool{}
	for k := 0; k < nfeat; k++ {
		feat := rapid.SampledFrom([]string{"arith", "arith64", "float", "slice", "string", "struct", "closure", "loop", "fib", "map", "conv", "array", "multi"}).Draw(t, "feat")
		if used[feat] {
			continue
		}
		used[feat] = true
		switch feat {
		case "arith":
			a, b, c := sm("a"), sm("b"), pos("c")
			body = append(body, fmt.Sprintf("\t{\n\t\ta, b, c := i32(%s), i32(%s), i32(%s)\n\t\tprintln(a+b, a-b, a*b, a/c, a%%c, a&b, a|b, a^b, a<<u32(c%%32), a>>u32(c%%32))\n\t\tprintln(a < b, a <= b, a == b, a != b, a > b, a >= b)\n\t\tu := u32(a)\n\t\tprintln(u/u32(c), u%%u32(c), u>>u32(c%%32))\n\t}", wi(a), wi(b), wi(c)))
		case "arith64":
			a, b, c := sm("a"), sm("b"), pos("c")
			body = append(body, fmt.Sprintf("\t{\n\t\ta, b, c := i64(%s)*1000003, i64(%s)*7919, i64(%s)\n\t\tprintln(a+b, a-b, a*b, a/c, a%%c, a&b, a|b, a^b, a<<u64(c), a>>u64(c))\n\t\tu := u64(a)\n\t\tprintln(u/u64(c), u%%u64(c), u>>u64(c))\n\t\tprintln(i32(a), u8(a), u16(b), u32(b))\n\t}", wi(a), wi(b), wi(c)))
		case "float":
			x, y := fl("x"), fl("y")
			body = append(body, fmt.Sprintf("\t{\n\t\tx, y := f64(%s), f64(%s)\n\t\tprintln(x+y, x-y, x*y, x/(y+100))\n\t\tprintln(x < y, x == y, i32(x), i64(y*1000), f32(x)*f32(y))\n\t\tprintln(f64(i32(%s)), f32(i64(%s)))\n\t}", x, y, wi(sm("k")), wi(sm("l"))))
		case "slice":
			n := pos("n")
			body = append(body, fmt.Sprintf("\t{\n\t\ts := []int{1, 2, 3}\n\t\ts = append(s, %s)\n\t\tprintln(len(s), s[3])\n\t\tfor i := 0; i < %s; i++ {\n\t\t\ts = append(s, i*i)\n\t\t}\n\t\tsum := 0\n\t\tfor _, v := range s {\n\t\t\tsum += v\n\t\t}\n\t\tprintln(len(s), sum, s[len(s)-1])\n\t\tt := s[1:3]\n\t\tt[0] = 99\n\t\tprintln(s[1], len(t), cap(t) > 0)\n\t}", wi(sm("v")), wi(n)))
		case "string":
			w := rapid.SampledFrom([]string{"wa", "hello", "凹语言", "", "a b c", "x\\ty"}).Draw(t, "w")
			body = append(body, fmt.Sprintf("\t{\n\t\ts := \"%s\"\n\t\tt := s + \"-\" + s\n\t\tprintln(t, len(t))\n\t\tfor i, c := range s {\n\t\t\tprintln(i, c)\n\t\t}\n\t\tb := []byte(t)\n\t\tprintln(len(b), string(b) == t, t < s)\n\t}", w))
		case "struct":
			decls = append(decls, "type P :struct {\n\tx, y: i32\n\tname: string\n}\n\nfunc P.Sum() => i32 {\n\treturn this.x + this.y\n}\n\nfunc swapP(a, b: P) => (P, P) {\n\treturn b, a\n}\n")
			body = append(body, fmt.Sprintf("\t{\n\t\tp := P{x: %s, y: %s, name: \"p\"}\n\t\tq := &P{x: 1, y: 2, name: \"q\"}\n\t\tq.x += p.x\n\t\tp, *q = swapP(p, *q)\n\t\tprintln(p.Sum(), q.Sum(), p.name, q.name)\n\t}", wi(sm("x")%100000), wi(sm("y")%100000)))
		case "closure":
			body = append(body, fmt.Sprintf("\t{\n\t\tn := i32(%s)\n\t\tadd := func(i: i32) => i32 {\n\t\t\tn += i\n\t\t\treturn n\n\t\t}\n\t\tprintln(add(%s), add(%s), n)\n\t}", wi(sm("n")%1000), wi(pos("i")), wi(pos("j"))))
		case "loop":
			n := pos("n")
			body = append(body, fmt.Sprintf("\t{\n\t\tacc := u32(%s)\n\t\tfor i := 0; i < %s; i++ {\n\t\t\tif i%%3 == 0 {\n\t\t\t\tcontinue\n\t\t\t}\n\t\t\tacc = acc*1664525 + 1013904223\n\t\t\tif acc%%7 == 0 {\n\t\t\t\tbreak\n\t\t\t}\n\t\t}\n\t\tprintln(acc)\n\t\tswitch acc %% 4 {\n\t\tcase 0:\n\t\t\tprintln(\"zero\")\n\t\tcase 1, 2:\n\t\t\tprintln(\"one-two\")\n\t\tdefault:\n\t\t\tprintln(\"three\")\n\t\t}\n\t}", wi(pos("seed")), wi(n)))
		case "fib":
			decls = append(decls, "func fib(n: int) => int {\n\tif n < 2 {\n\t\treturn n\n\t}\n\treturn fib(n-1) + fib(n-2)\n}\n")
			body = append(body, fmt.Sprintf("\tprintln(fib(%d))", rapid.IntRange(0, 15).Draw(t, "fibn")))
		case "map":
			n := pos("n")
			body = append(body, fmt.Sprintf("\t{\n\t\tm := make(map[int]int)\n\t\tfor i := 0; i < %s; i++ {\n\t\t\tm[i*%s] = i\n\t\t}\n\t\tv, ok := m[%s]\n\t\tdelete(m, 0)\n\t\tprintln(len(m), v, ok)\n\t}", wi(n), wi(pos("k")), wi(pos("q"))))
		case "conv":
			v := sm("v")
			body = append(body, fmt.Sprintf("\t{\n\t\tv := i64(%s)\n\t\tprintln(u8(v), u16(v), i32(v), u32(v), u64(v), f32(v), f64(v))\n\t\tf := f64(v) / 3\n\t\tprintln(i32(f), i64(f), f32(f))\n\t}", wi(v)))
		case "array":
			body = append(body, fmt.Sprintf("\t{\n\t\ta: [4]i32\n\t\tfor i := range a {\n\t\t\ta[i] = i32(i) * %s\n\t\t}\n\t\tb := a\n\t\tb[2] = 7\n\t\tprintln(a[2], b[2], a == b, len(a))\n\t}", wi(sm("m")%1000)))
		case "multi":
			decls = append(decls, "func divmod(a, b: i32) => (q, r: i32) {\n\tq = a / b\n\tr = a % b\n\treturn\n}\n")
			body = append(body, fmt.Sprintf("\t{\n\t\tq, r := divmod(%s, %s)\n\t\tprintln(q, r)\n\t}", wi(sm("a")%1000000), wi(pos("b"))))
		}
	}
	for _, d := range decls {
		sb.WriteString(d + "\n")
	}
	sb.WriteString("func main {\n" + strings.Join(body, "\n") + "\n}\n")
	var names []string
	for f := range used {
		names = append(names, f)
	}
	sort.Strings(names)
	return Program{Name: "tmpl_" + strings.Join(names, "+") + ".wa", Src: sb.String()}
}
