package c25

import (
	"bytes"
	"encoding/hex"
	"encoding/json"
	"fmt"
	"io"
	"sort"
	"testing"

	"pgregory.net/rapid"
	"wa-lang.org/wa/internal/3rdparty/slip"
	"wa-lang.org/wa/zverif/harness/core"
)

const prop = "C25"

func TestMain(m *testing.M) { core.Main(m) }

// ---------------------------------------------------------------- case

type pkt struct {
	Frame int    `json:"frame"` // -1: plain SLIP packet; 0..255: SLIPMUX frame type
	Data  string `json:"data"`  // payload, hex
}

type kase struct {
	Mode        string  `json:"mode"` // "slip" | "mux"
	Pkts        []pkt   `json:"pkts"`
	Stalls      []stall `json:"stalls,omitempty"`
	MaxN        int     `json:"max_n"`
	EOFWithLast bool    `json:"eof_with_last,omitempty"`
	Stream      string  `json:"stream,omitempty"` // informational: what the writer produced (hex)
}

func (p pkt) bytes() []byte { b, _ := hex.DecodeString(p.Data); return b }

// ---------------------------------------------------------------- oracle

// structure describes where the interesting offsets of a written stream are.
type structure struct {
	insideEscape []int // offset of the second byte of an ESC pair
	beforeEND    []int // offset of an END that terminates a packet with data
	afterEND     []int // offset right after such an END
}

func analyse(stream []byte) structure {
	var st structure
	for i := 0; i < len(stream); i++ {
		switch stream[i] {
		case slip.ESC:
			if i+1 < len(stream) {
				st.insideEscape = append(st.insideEscape, i+1)
				i++
			}
		case slip.END:
			if i > 0 && stream[i-1] != slip.END {
				st.beforeEND = append(st.beforeEND, i)
				st.afterEND = append(st.afterEND, i+1)
			}
		}
	}
	return st
}

func contains(xs []int, v int) bool {
	for _, x := range xs {
		if x == v {
			return true
		}
	}
	return false
}

// cause derives the structural identity of a failure from the case: which
// legal transport behaviour the case exercises that plain delivery does not.
func cause(k kase, stream []byte) string {
	st := analyse(stream)
	for _, s := range k.Stalls {
		if contains(st.insideEscape, s.Pos) {
			return "stall-inside-escape-pair"
		}
	}
	for _, s := range k.Stalls {
		if contains(st.beforeEND, s.Pos) {
			return "stall-before-terminating-END"
		}
	}
	if k.EOFWithLast {
		return "last-byte-delivered-with-EOF"
	}
	if len(k.Stalls) > 0 {
		return "stall-elsewhere"
	}
	return "plain-delivery"
}

func write(k kase) (stream []byte, key, what string) {
	var buf bytes.Buffer
	if k.Mode == "mux" {
		w := slip.NewSlipMuxWriter(&buf)
		for i, p := range k.Pkts {
			if err := w.WritePacket(byte(p.Frame), p.bytes()); err != nil {
				return nil, "writer/error", fmt.Sprintf("SlipMuxWriter.WritePacket #%d: %v", i, err)
			}
		}
	} else {
		w := slip.NewWriter(&buf)
		for i, p := range k.Pkts {
			if err := w.WritePacket(p.bytes()); err != nil {
				return nil, "writer/error", fmt.Sprintf("Writer.WritePacket #%d: %v", i, err)
			}
		}
	}
	return buf.Bytes(), "", ""
}

type received struct {
	data  []byte
	frame int
}

// expected is what the property promises the receiver: the payloads in order,
// with their frame types. SLIPMUX packets with a reserved frame type (0x00,
// END, ESC) are documented to be ignored by the reader.
func expected(k kase) []received {
	var out []received
	for _, p := range k.Pkts {
		switch {
		case k.Mode != "mux":
			out = append(out, received{p.bytes(), -1})
		case p.Frame == 0 || p.Frame == slip.END || p.Frame == slip.ESC:
		default:
			out = append(out, received{p.bytes(), p.Frame})
		}
	}
	return out
}

// check runs one case: write, deliver through the transport, read, compare.
func check(k kase) (key, what string) {
	stream, key, what := write(k)
	if key != "" {
		return key, what
	}
	want := expected(k)
	tr := newTransport(stream, k.Stalls, k.MaxN, k.EOFWithLast)
	var got []received
	if k.Mode == "mux" {
		r := slip.NewSlipMuxReader(tr)
		for i := range want {
			p, ft, err := r.ReadPacket()
			if err == errSpin {
				return "mux/lost-packet/" + cause(k, stream), fmt.Sprintf("SlipMuxReader returned %d of %d packets and then kept reading the exhausted stream; stream %x, stalls %v", i, len(want), stream, k.Stalls)
			}
			if err != nil {
				return "mux/error/" + cause(k, stream), fmt.Sprintf("SlipMuxReader.ReadPacket #%d: %v; stream %x, stalls %v", i, err, stream, k.Stalls)
			}
			got = append(got, received{append([]byte{}, p...), int(ft)})
		}
	} else {
		r := slip.NewReader(tr)
		var acc []byte
		limit := len(stream) + len(k.Stalls) + 32
		for calls := 0; ; calls++ {
			if calls > limit {
				return "slip/no-progress/" + cause(k, stream), fmt.Sprintf("more than %d ReadPacket calls on a %d-byte stream without reaching (.., isPrefix, io.EOF) at its end", limit, len(stream))
			}
			p, isPrefix, err := r.ReadPacket()
			if err == errSpin {
				return "slip/no-progress/" + cause(k, stream), "the reader kept reading the exhausted stream within one ReadPacket call"
			}
			acc = append(acc, p...)
			if !isPrefix {
				got = append(got, received{acc, -1})
				acc = nil
				continue
			}
			if tr.drained() && err == io.EOF {
				// after the last packet: (empty, isPrefix, EOF), not a phantom packet.
				// (A stall scheduled at the very end may still produce one more
				// non-EOF prefix return first; the call limit bounds the wait.)
				if len(acc) != 0 {
					return "slip/trailing-fragment/" + cause(k, stream), fmt.Sprintf("the stream ended with an unterminated fragment %x after %d packets; stream %x, stalls %v", acc, len(got), stream, k.Stalls)
				}
				break
			}
		}
	}
	if len(got) != len(want) {
		return k.Mode + "/packet-count/" + cause(k, stream), fmt.Sprintf("sent %d packets, received %d: %s; stream %x, stalls %v", len(want), len(got), show(got), stream, k.Stalls)
	}
	for i := range want {
		if !bytes.Equal(got[i].data, want[i].data) {
			return k.Mode + "/payload/" + cause(k, stream), fmt.Sprintf("packet #%d: sent %x, received %x; stream %x, stalls %v", i, want[i].data, got[i].data, stream, k.Stalls)
		}
		if got[i].frame != want[i].frame {
			return k.Mode + "/frame-type/" + cause(k, stream), fmt.Sprintf("packet #%d: sent frame type %#x, received %#x", i, want[i].frame, got[i].frame)
		}
	}
	return "", ""
}

func show(rs []received) string {
	s := ""
	for _, r := range rs {
		s += fmt.Sprintf("[%x]", r.data)
	}
	return s
}

// ---------------------------------------------------------------- generators

var special = []byte{slip.END, slip.ESC, slip.ESC_END, slip.ESC_ESC}

func genPayload(minLen int) *rapid.Generator[[]byte] {
	return rapid.Custom(func(t *rapid.T) []byte {
		n := rapid.IntRange(minLen, 12).Draw(t, "len")
		if rapid.IntRange(0, 9).Draw(t, "long") == 9 {
			n = rapid.IntRange(minLen, 80).Draw(t, "lenlong")
		}
		p := make([]byte, n)
		for i := range p {
			if rapid.Bool().Draw(t, "sp") {
				p[i] = rapid.SampledFrom(special).Draw(t, "special")
			} else {
				p[i] = rapid.Byte().Draw(t, "b")
			}
		}
		return p
	})
}

func genPlainPkts() *rapid.Generator[[]pkt] {
	return rapid.Custom(func(t *rapid.T) []pkt {
		n := rapid.IntRange(1, 5).Draw(t, "npkts")
		if rapid.IntRange(0, 9).Draw(t, "many") == 9 {
			n = rapid.IntRange(6, 20).Draw(t, "npktsmany")
		}
		out := make([]pkt, n)
		for i := range out {
			out[i] = pkt{Frame: -1, Data: hex.EncodeToString(genPayload(1).Draw(t, "payload"))}
		}
		return out
	})
}

// frame classes of draft-bormann-t2trg-slipmux as implemented by slipmux.go
func genMuxPkt() *rapid.Generator[pkt] {
	return rapid.Custom(func(t *rapid.T) pkt {
		switch rapid.IntRange(0, 6).Draw(t, "fclass") {
		case 0:
			return pkt{slip.FRAME_DIAGNOSTIC, hex.EncodeToString(genPayload(1).Draw(t, "payload"))}
		case 1: // CoAP: the reader ignores messages shorter than a CoAP header (4 bytes) by design
			return pkt{slip.FRAME_COAP, hex.EncodeToString(genPayload(4).Draw(t, "payload"))}
		case 2: // IPv4: the frame type *is* the first payload byte
			f := rapid.IntRange(slip.FRAME_IPV4_START, slip.FRAME_IPV4_END).Draw(t, "v4")
			p := genPayload(1).Draw(t, "payload")
			p[0] = byte(f)
			return pkt{f, hex.EncodeToString(p)}
		case 3:
			f := rapid.IntRange(slip.FRAME_IPV6_START, slip.FRAME_IPV6_END).Draw(t, "v6")
			p := genPayload(1).Draw(t, "payload")
			p[0] = byte(f)
			return pkt{f, hex.EncodeToString(p)}
		case 4: // reserved types: written, but documented to be ignored by the reader
			f := rapid.SampledFrom([]int{slip.FRAME_UNKNOWN, slip.END, slip.ESC}).Draw(t, "reserved")
			return pkt{f, hex.EncodeToString(genPayload(1).Draw(t, "payload"))}
		case 5: // the two stuffing codes are ordinary, valid frame types
			f := rapid.SampledFrom([]int{slip.ESC_END, slip.ESC_ESC}).Draw(t, "escframe")
			return pkt{f, hex.EncodeToString(genPayload(1).Draw(t, "payload"))}
		default: // any other unregistered type
			f := rapid.IntRange(1, 255).Filter(func(f int) bool {
				return f != slip.END && f != slip.ESC && f != slip.FRAME_COAP && !slip.IsIpFrame(byte(f))
			}).Draw(t, "other")
			return pkt{f, hex.EncodeToString(genPayload(1).Draw(t, "payload"))}
		}
	})
}

func frameClass(f int) string {
	switch {
	case f < 0:
		return "plain"
	case f == slip.FRAME_DIAGNOSTIC:
		return "diagnostic"
	case f == slip.FRAME_COAP:
		return "coap"
	case slip.IsIpv4Frame(byte(f)):
		return "ipv4"
	case slip.IsIpv6Frame(byte(f)):
		return "ipv6"
	case f == 0 || f == slip.END || f == slip.ESC:
		return "reserved(skipped)"
	case f == slip.ESC_END || f == slip.ESC_ESC:
		return "esc-code-as-type"
	}
	return "other"
}

// excluded lists the stall classes that known findings take out of the search.
type excluded struct{ insideEscape, beforeEND, eofWithLast bool }

func exclusions() excluded {
	var e excluded
	for _, f := range core.Findings(prop) {
		if f.Status != "known" {
			continue
		}
		switch {
		case bytes.HasSuffix([]byte(f.Key), []byte("/stall-inside-escape-pair")):
			e.insideEscape = true
		case bytes.HasSuffix([]byte(f.Key), []byte("/stall-before-terminating-END")):
			e.beforeEND = true
		case bytes.HasSuffix([]byte(f.Key), []byte("/last-byte-delivered-with-EOF")):
			e.eofWithLast = true
		}
	}
	return e
}

// genStalls draws the read-chunking for a stream: stalls at structurally
// chosen offsets (inside an escape pair, right before / after a terminating
// END, anywhere), the burst size, and whether the last byte arrives with EOF.
func drawChunking(t *rapid.T, s *core.Stats, stream []byte, kinds []string, ex excluded) (stalls []stall, maxN int, eofWithLast bool) {
	st := analyse(stream)
	n := rapid.IntRange(0, 5).Draw(t, "nstalls")
	used := map[int]bool{}
	for i := 0; i < n; i++ {
		var pos int
		cls := rapid.IntRange(0, 3).Draw(t, "stallclass")
		switch {
		case cls == 0 && len(st.insideEscape) > 0:
			pos = st.insideEscape[rapid.IntRange(0, len(st.insideEscape)-1).Draw(t, "esc#")]
		case cls == 1 && len(st.beforeEND) > 0:
			pos = st.beforeEND[rapid.IntRange(0, len(st.beforeEND)-1).Draw(t, "end#")]
		case cls == 2 && len(st.afterEND) > 0:
			pos = st.afterEND[rapid.IntRange(0, len(st.afterEND)-1).Draw(t, "after#")]
		default:
			pos = rapid.IntRange(0, len(stream)).Draw(t, "pos")
		}
		if used[pos] {
			continue
		}
		if ex.insideEscape && contains(st.insideEscape, pos) {
			s.Counter("excluded_by_known/stall-inside-escape-pair", 1)
			continue
		}
		if ex.beforeEND && contains(st.beforeEND, pos) {
			s.Counter("excluded_by_known/stall-before-terminating-END", 1)
			continue
		}
		used[pos] = true
		stalls = append(stalls, stall{Pos: pos, Kind: rapid.SampledFrom(kinds).Draw(t, "kind"),
			N: rapid.SampledFrom([]int{1, 1, 2, 2, 3, 5}).Draw(t, "stallrepeat")})
	}
	sort.Slice(stalls, func(i, j int) bool { return stalls[i].Pos < stalls[j].Pos })
	maxN = rapid.SampledFrom([]int{1, 1, 2, 3, 7, 64}).Draw(t, "maxn")
	eofWithLast = rapid.IntRange(0, 7).Draw(t, "eofwithlast") == 7
	if eofWithLast && ex.eofWithLast {
		s.Counter("excluded_by_known/last-byte-delivered-with-EOF", 1)
		eofWithLast = false
	}
	return
}

// classify records generator-health classes and reports whether the case is
// non-trivial: some payload holds an END and an ESC, and a stall falls inside
// an escape pair.
func classify(c *core.Case, k kase, stream []byte) bool {
	st := analyse(stream)
	hasBoth := false
	for _, p := range k.Pkts {
		b := p.bytes()
		if bytes.IndexByte(b, slip.END) >= 0 && bytes.IndexByte(b, slip.ESC) >= 0 {
			hasBoth = true
		}
		c.Class("frame:" + frameClass(p.Frame))
		if n := len(b); n > 0 && (b[n-1] == slip.END || b[n-1] == slip.ESC) {
			c.Class("payload-ends-with-END/ESC")
		}
		if b[0] == slip.END || b[0] == slip.ESC {
			c.Class("payload-starts-with-END/ESC")
		}
	}
	inside := false
	for _, s := range k.Stalls {
		switch {
		case contains(st.insideEscape, s.Pos):
			inside = true
			c.Class("stall:inside-escape-pair/" + s.Kind)
		case contains(st.beforeEND, s.Pos):
			c.Class("stall:before-terminating-END/" + s.Kind)
		case contains(st.afterEND, s.Pos):
			c.Class("stall:between-packets/" + s.Kind)
		default:
			c.Class("stall:elsewhere/" + s.Kind)
		}
	}
	if len(k.Stalls) == 0 {
		c.Class("no-stall")
	}
	if k.EOFWithLast {
		c.Class("last-byte-with-EOF")
	}
	if hasBoth {
		c.Class("payload-has-END-and-ESC")
	}
	return hasBoth && inside
}

// ---------------------------------------------------------------- tests

const ruleTail = "oracle = the packets reassembled per the documented contract (concatenate pieces while isPrefix) equal the packets written, in order, with frame types; non-trivial = some payload contains both an END and an ESC byte and at least one stall falls between an ESC and its successor"

func TestSlipRoundTrip(t *testing.T) {
	s := core.NewStats(prop, "SlipRoundTrip")
	s.Rule("rapid: 1-20 non-empty payloads (half of the bytes drawn from END/ESC/ESC_END/ESC_ESC) written with slip.Writer; the stream reaches slip.Reader through a transport that stalls ((0,EOF) like a drained buffer, (0,nil), or (0,time-out error)), each for 1-5 consecutive reads (an idle line polled repeatedly), at drawn offsets — inside escape pairs, right before/after terminating ENDs, anywhere — optionally hands over the last byte together with io.EOF, and reports EOF only after the last byte; " + ruleTail + "; additionally the end of the stream must read as (empty, isPrefix, io.EOF)")
	s.Assume("the transport never loses, duplicates or reorders bytes (line noise is outside the property)")
	ex := exclusions()
	s.Check(t, func(t *rapid.T, c *core.Case) {
		k := kase{Mode: "slip", Pkts: genPlainPkts().Draw(t, "pkts")}
		stream, key, what := write(k)
		c.Set(k)
		if key != "" {
			c.Fail(key, "%s", what)
			return
		}
		k.Stalls, k.MaxN, k.EOFWithLast = drawChunking(t, s, stream, []string{stallEOF, stallNil, stallErr}, ex)
		k.Stream = hex.EncodeToString(stream)
		c.Set(k)
		nt := classify(c, k, stream)
		if key, what := check(k); key != "" {
			c.Fail(key, "%s", what)
		}
		if nt {
			c.Nontrivial()
		}
	})
}

func TestSlipMuxRoundTrip(t *testing.T) {
	s := core.NewStats(prop, "SlipMuxRoundTrip")
	s.Rule("rapid: 1-8 SLIPMUX packets over the frame classes diagnostic / CoAP (>= 4 bytes, with FCS) / IPv4 / IPv6 (first payload byte is the type) / reserved 0x00,END,ESC (must be skipped) / ESC_END,ESC_ESC as types / other, written with SlipMuxWriter and read with SlipMuxReader, asked for exactly as many packets as are deliverable; transport stalls are (0,EOF) and (0,nil) only — a non-EOF error is handed to the application by design; " + ruleTail)
	s.Assume("CoAP payloads shorter than 4 bytes and IP packets whose first byte is not the frame type are outside the domain (the reader documents that it drops / re-types them)")
	ex := exclusions()
	s.Check(t, func(t *rapid.T, c *core.Case) {
		n := rapid.IntRange(1, 8).Draw(t, "npkts")
		k := kase{Mode: "mux"}
		for i := 0; i < n; i++ {
			k.Pkts = append(k.Pkts, genMuxPkt().Draw(t, "pkt"))
		}
		stream, key, what := write(k)
		c.Set(k)
		if key != "" {
			c.Fail(key, "%s", what)
			return
		}
		k.Stalls, k.MaxN, k.EOFWithLast = drawChunking(t, s, stream, []string{stallEOF, stallNil}, ex)
		k.Stream = hex.EncodeToString(stream)
		c.Set(k)
		nt := classify(c, k, stream)
		if len(expected(k)) == 0 {
			c.Class("nothing-deliverable")
		}
		if key, what := check(k); key != "" {
			c.Fail(key, "%s", what)
		}
		// every CoAP frame on the wire carries a good FCS
		for _, p := range k.Pkts {
			if p.Frame == slip.FRAME_COAP {
				body := append([]byte{slip.FRAME_COAP}, p.bytes()...)
				wire := slip.AppendFcs16(body, slip.CalcFcs16(body))
				if !slip.CheckFsc16(wire) {
					c.Fail("fcs/CheckFsc16-rejects-own-frame", "CheckFsc16(%x) = false for a frame built with AppendFcs16(CalcFcs16)", wire)
				}
				if slip.CalcFcs16(body) != refFcs16(body) {
					s.Counter("observation/fcs_differs_from_rfc1662_bitwise_reference", 1)
				}
			}
		}
		if nt {
			c.Nontrivial()
		}
	})
}

// TestSlipEnumShort enumerates short packets over the alphabet that matters
// and every single-stall chunking of their streams.
func TestSlipEnumShort(t *testing.T) {
	s := core.NewStats(prop, "SlipEnumShort")
	defer s.Flush()
	s.Rule("enumeration (exhaustive for this sub-domain): every ordered pair of payloads of length 1..3 over {END, ESC, ESC_END, ESC_ESC, 'A'} (155^2 pairs, plus the 155 single packets) × every single stall offset in the written stream × stall kinds (0,EOF)/(0,time-out)/(0,EOF) twice in a row × last-byte-with-EOF off/on, through slip.Writer / slip.Reader; oracle as in SlipRoundTrip; non-trivial = a payload holds END and ESC and the stall is inside an escape pair (exact count in nontrivial_enumerated, 1-in-64 hashed subsample)")
	s.Exhaustive(true)
	ex := exclusions()
	alphabet := []byte{slip.END, slip.ESC, slip.ESC_END, slip.ESC_ESC, 'A'}
	var payloads [][]byte
	var rec func(cur []byte)
	rec = func(cur []byte) {
		if len(cur) > 0 {
			payloads = append(payloads, append([]byte{}, cur...))
		}
		if len(cur) == 3 {
			return
		}
		for _, b := range alphabet {
			rec(append(cur, b))
		}
	}
	rec(nil)
	sh, n := core.Shard()
	var evals, nontriv, skipped int64
	run := func(pk []pkt) {
		base := kase{Mode: "slip", Pkts: pk, MaxN: 1}
		stream, key, what := write(base)
		if key != "" {
			c := s.NewCase(t)
			c.Set(base)
			c.Fail(key, "%s", what)
			return
		}
		st := analyse(stream)
		hasBoth := false
		for _, p := range pk {
			b := p.bytes()
			if bytes.IndexByte(b, slip.END) >= 0 && bytes.IndexByte(b, slip.ESC) >= 0 {
				hasBoth = true
			}
		}
		for pos := -1; pos <= len(stream); pos++ {
			// "eof2": the line stays idle for two consecutive polls
			for _, kind0 := range []string{stallEOF, stallErr, "eof2"} {
				kind, rep := kind0, 1
				if kind0 == "eof2" {
					kind, rep = stallEOF, 2
				}
				for _, ewl := range []bool{false, true} {
					if pos < 0 && kind0 != stallEOF {
						continue
					}
					if ewl && ex.eofWithLast || pos >= 0 && (ex.insideEscape && contains(st.insideEscape, pos) || ex.beforeEND && contains(st.beforeEND, pos)) {
						skipped++
						continue
					}
					k := base
					k.EOFWithLast = ewl
					if pos >= 0 {
						k.Stalls = []stall{{Pos: pos, Kind: kind, N: rep}}
					}
					evals++
					if key, what := check(k); key != "" {
						k.Stream = hex.EncodeToString(stream)
						c := s.NewCase(t)
						c.Set(k)
						c.Fail(key, "%s", what)
					}
					if hasBoth && pos >= 0 && contains(st.insideEscape, pos) {
						nontriv++
						if nontriv&63 == 1 {
							k.Stream = hex.EncodeToString(stream)
							s.Nontrivial(core.Hash64(k.Stream, pos, kind, rep, ewl))
							s.Sample(k)
						}
					}
				}
			}
		}
	}
	for i, a := range payloads {
		if i%n != sh {
			continue
		}
		pa := pkt{-1, hex.EncodeToString(a)}
		run([]pkt{pa})
		for _, b := range payloads {
			run([]pkt{pa, {-1, hex.EncodeToString(b)}})
		}
	}
	s.Eval(evals)
	s.Counter("nontrivial_enumerated", nontriv)
	if skipped > 0 {
		s.Counter("excluded_by_known/chunkings_skipped", skipped)
	}
}

// ---------------------------------------------------------------- replay

func replay(test string, raw json.RawMessage) (string, string) {
	var k kase
	if err := json.Unmarshal(raw, &k); err != nil {
		return "harness/bad-replay", err.Error()
	}
	if k.Mode != "slip" && k.Mode != "mux" {
		return "harness/bad-replay", "unknown mode " + k.Mode
	}
	return check(k)
}

func TestReplay(t *testing.T) { core.RunReplays(t, prop, replay) }
