// Package c25 checks property C25 (SLIP / SLIPMUX framing round-trips under
// every read-chunking of the byte stream).
package c25

import (
	"errors"
	"io"
)

// Stall kinds: what the transport returns when it has nothing to deliver *yet*.
const (
	stallEOF = "eof" // (0, io.EOF): a drained bytes.Buffer / a serial port that reports EOF between bursts (the package's own TestReadMultipart)
	stallNil = "nil" // (0, nil): "nothing happened"
	stallErr = "err" // (0, errTemporary): a read time-out the caller retries
)

var (
	errTemporary = errors.New("harness: temporary read time-out")
	errSpin      = errors.New("harness: the reader keeps reading a stream that ended long ago")
)

type stall struct {
	Pos  int    `json:"pos"`  // stream offset; the stall happens before the byte at Pos is delivered (Pos == len(stream): before the final EOF)
	Kind string `json:"kind"` // eof | nil | err
	N    int    `json:"n,omitempty"` // how many consecutive reads stall there (0 means 1): an idle line polled several times
}

// transport is the io.Reader under the SLIP reader: it delivers the stream in
// the pieces the case prescribes. All of its behaviour is legal for an
// io.Reader; nothing is ever lost, duplicated or reordered.
type transport struct {
	data        []byte
	pos         int
	stalls      map[int][]string
	maxN        int  // most bytes returned by one Read
	eofWithLast bool // the final byte is returned together with io.EOF (n > 0, err == io.EOF)
	finalEOFs   int  // how often the end of stream has been reported
	reads       int
}

func newTransport(data []byte, stalls []stall, maxN int, eofWithLast bool) *transport {
	t := &transport{data: data, stalls: map[int][]string{}, maxN: maxN, eofWithLast: eofWithLast}
	if t.maxN < 1 {
		t.maxN = 1
	}
	for _, s := range stalls {
		if s.Pos >= 0 && s.Pos <= len(data) {
			for i := 0; i < s.N || i == 0; i++ {
				t.stalls[s.Pos] = append(t.stalls[s.Pos], s.Kind)
			}
		}
	}
	return t
}

func (t *transport) Read(p []byte) (int, error) {
	t.reads++
	if len(p) == 0 {
		return 0, nil
	}
	if ks, ok := t.stalls[t.pos]; ok {
		k := ks[0]
		if len(ks) == 1 {
			delete(t.stalls, t.pos)
		} else {
			t.stalls[t.pos] = ks[1:]
		}
		switch k {
		case stallNil:
			return 0, nil
		case stallErr:
			return 0, errTemporary
		}
		return 0, io.EOF
	}
	if t.pos >= len(t.data) {
		t.finalEOFs++
		if t.finalEOFs > 24 {
			return 0, errSpin
		}
		return 0, io.EOF
	}
	n := len(p)
	if n > t.maxN {
		n = t.maxN
	}
	if n > len(t.data)-t.pos {
		n = len(t.data) - t.pos
	}
	for i := 1; i < n; i++ { // never run across a pending stall
		if _, ok := t.stalls[t.pos+i]; ok {
			n = i
			break
		}
	}
	copy(p, t.data[t.pos:t.pos+n])
	t.pos += n
	if t.pos == len(t.data) && t.eofWithLast {
		t.finalEOFs++ // the end of the stream has now been reported
		return n, io.EOF
	}
	return n, nil
}

// drained: every byte has been delivered and the end of the stream reported.
func (t *transport) drained() bool { return t.pos >= len(t.data) && t.finalEOFs > 0 }

// refFcs16 is the PPP frame check sequence of RFC 1662 appendix C computed bit
// by bit (polynomial x^16+x^12+x^5+1 reflected = 0x8408, initial 0xffff).
func refFcs16(data []byte) uint16 {
	fcs := uint16(0xffff)
	for _, b := range data {
		fcs ^= uint16(b)
		for i := 0; i < 8; i++ {
			if fcs&1 != 0 {
				fcs = fcs>>1 ^ 0x8408
			} else {
				fcs >>= 1
			}
		}
	}
	return fcs
}
