// Persistent validator: reads one file path per line on stdin, answers one line
// per path on stdout: "ok" or "invalid: <message>" (V8's WebAssembly validator).
const fs = require('fs');
const rl = require('readline').createInterface({ input: process.stdin, terminal: false });
rl.on('line', (p) => {
  let out;
  try {
    const buf = fs.readFileSync(p.trim());
    if (WebAssembly.validate(buf)) {
      out = 'ok';
    } else {
      try { new WebAssembly.Module(buf); out = 'invalid: validate() returned false'; }
      catch (e) { out = 'invalid: ' + String(e.message).replace(/\n/g, ' '); }
    }
  } catch (e) { out = 'error: ' + String(e.message).replace(/\n/g, ' '); }
  process.stdout.write(out + '\n');
});
