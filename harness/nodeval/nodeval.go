// Package nodeval validates WebAssembly binaries with V8 (node), the
// independent validator available offline (WABT is not installed).
package nodeval

import (
	"bufio"
	"fmt"
	"io"
	"os"
	"os/exec"
	"path/filepath"
	"runtime"
	"strings"
	"sync"
)

// V is a persistent node process.
type V struct {
	mu  sync.Mutex
	cmd *exec.Cmd
	in  io.WriteCloser
	out *bufio.Reader
	dir string
	n   int
}

func scriptPath() string {
	_, file, _, _ := runtime.Caller(0)
	p := filepath.Join(filepath.Dir(file), "validate.js")
	if _, err := os.Stat(p); err == nil {
		return p
	}
	d := os.Getenv("VERIF_DIR")
	if d == "" {
		d = "/verif"
	}
	return filepath.Join(d, "harness", "nodeval", "validate.js")
}

// New starts node; the error is non-nil when node is unavailable.
func New() (*V, error) {
	dir, err := os.MkdirTemp("", "nodeval-")
	if err != nil {
		return nil, err
	}
	cmd := exec.Command("node", scriptPath())
	in, _ := cmd.StdinPipe()
	out, _ := cmd.StdoutPipe()
	cmd.Stderr = os.Stderr
	if err := cmd.Start(); err != nil {
		os.RemoveAll(dir)
		return nil, err
	}
	return &V{cmd: cmd, in: in, out: bufio.NewReader(out), dir: dir}, nil
}

// Validate returns "" when V8 accepts the module, else V8's message.
func (v *V) Validate(wasm []byte) (string, error) {
	v.mu.Lock()
	defer v.mu.Unlock()
	v.n++
	p := filepath.Join(v.dir, fmt.Sprintf("m%d.wasm", v.n))
	if err := os.WriteFile(p, wasm, 0o644); err != nil {
		return "", err
	}
	defer os.Remove(p)
	if _, err := io.WriteString(v.in, p+"\n"); err != nil {
		return "", err
	}
	line, err := v.out.ReadString('\n')
	if err != nil {
		return "", err
	}
	line = strings.TrimSpace(line)
	switch {
	case line == "ok":
		return "", nil
	case strings.HasPrefix(line, "invalid: "):
		return strings.TrimPrefix(line, "invalid: "), nil
	}
	return "", fmt.Errorf("nodeval: %s", line)
}

// Close stops node.
func (v *V) Close() {
	v.in.Close()
	v.cmd.Wait()
	os.RemoveAll(v.dir)
}
