package c08

import (
	"bytes"
	"context"
	"crypto/sha256"
	"fmt"
	"os"
	"os/exec"
	"path/filepath"
	"regexp"
	"sort"
	"strconv"
	"strings"
	"syscall"
	"testing"
	"time"

	"wa-lang.org/wa/zverif/harness/core"
	"wa-lang.org/wa/zverif/harness/textmut"
)

// ---------------------------------------------------------------- native fuzzing (thorough tier)

type fuzzTarget struct {
	fn    string // Fuzz function in harness/c08/fuzz
	entry string
	langs []textmut.Lang
	execs int // fuzz iterations (-fuzztime=Nx): ≈ 60–90 s with 8 workers on an otherwise idle 16-core machine
}

// The campaign is bounded by iteration counts, not by time, so that a loaded
// machine does less per second but not less in total; a wall-clock cap per
// target only protects the driver's process time-out (hitting it is noted as
// inconclusive, never as a violation).
var fuzzTargets = []fuzzTarget{
	{"FuzzFormat", "format", []textmut.Lang{textmut.Wa, textmut.Wz}, 40000},
	{"FuzzSyntax", "syntax", []textmut.Lang{textmut.Wa, textmut.Wz, textmut.Wat, textmut.Asm}, 400000},
	{"FuzzParseWa", "parse_wa", []textmut.Lang{textmut.Wa}, 80000},
	{"FuzzParseWz", "parse_wz", []textmut.Lang{textmut.Wz}, 80000},
	{"FuzzLoad", "load", []textmut.Lang{textmut.Wa, textmut.Wz}, 8000},
	{"FuzzWat", "wat_parse", []textmut.Lang{textmut.Wat}, 150000},
	{"FuzzNative", "native_parse", []textmut.Lang{textmut.Asm}, 200000},
}

// fuzzNames mirrors harness/c08/fuzz.Names (index = the fuzz target's uint8 argument).
var fuzzNames = append(append([]string{}, NameClasses...), OtherNames...)

func nameIndex(name string) int {
	for i, n := range fuzzNames {
		if n == name {
			return i
		}
	}
	return 0
}

func envInt(name string, def int) int {
	if v, err := strconv.Atoi(os.Getenv(name)); err == nil && v > 0 {
		return v
	}
	return def
}

// modfileFlag returns the -modfile flag that makes `go test` build against the
// tree under test when VERIF_REPO points at a scratch copy (mutant runs); the
// driver wrote that file before it built this test binary.
func modfileFlag() (flag []string, ok bool) {
	repo, _ := filepath.Abs(core.RepoDir())
	if repo == "/repo" {
		return nil, true
	}
	tag := fmt.Sprintf("%x", sha256.Sum256([]byte(repo)))[:10]
	mf := filepath.Join(core.VerifDir(), ".run", "alt-"+tag, "go.mod")
	if _, err := os.Stat(mf); err != nil {
		return nil, false
	}
	return []string{"-modfile=" + mf}, true
}

func writeFuzzInput(path string, src []byte, nameIdx, cpuIdx int) error {
	var b bytes.Buffer
	b.WriteString("go test fuzz v1\n")
	fmt.Fprintf(&b, "[]byte(%s)\n", strconv.Quote(string(src)))
	fmt.Fprintf(&b, "uint8(%d)\nuint8(%d)\n", nameIdx, cpuIdx)
	return os.WriteFile(path, b.Bytes(), 0o644)
}

var fuzzLineRe = regexp.MustCompile(`^(\[\]byte|uint8|byte)\((.*)\)$`)

func readFuzzInput(path string) (src []byte, nameIdx, cpuIdx int, err error) {
	data, err := os.ReadFile(path)
	if err != nil {
		return nil, 0, 0, err
	}
	lines := strings.Split(strings.TrimSpace(string(data)), "\n")
	if len(lines) != 4 || !strings.HasPrefix(lines[0], "go test fuzz v1") {
		return nil, 0, 0, fmt.Errorf("%s: not a fuzz corpus file", path)
	}
	var vals []string
	for _, l := range lines[1:] {
		m := fuzzLineRe.FindStringSubmatch(strings.TrimSpace(l))
		if m == nil {
			return nil, 0, 0, fmt.Errorf("%s: cannot parse %q", path, l)
		}
		vals = append(vals, m[2])
	}
	s, err := strconv.Unquote(vals[0])
	if err != nil {
		return nil, 0, 0, fmt.Errorf("%s: %v", path, err)
	}
	num := func(v string) int {
		if strings.HasPrefix(v, "'") {
			r, _, _, _ := strconv.UnquoteChar(strings.Trim(v, "'"), '\'')
			return int(r)
		}
		n, _ := strconv.ParseInt(v, 0, 64)
		return int(n)
	}
	return []byte(s), num(vals[1]), num(vals[2]), nil
}

func caseFromFuzz(entry string, src []byte, nameIdx, cpuIdx int) Case {
	k := Case{Entry: entry, Name: fuzzNames[nameIdx%len(fuzzNames)], Seed: "native-fuzz"}
	if entry == "native_parse" {
		k.CPU = CPUs[cpuIdx%len(CPUs)]
	}
	k.SetText(string(src))
	return k
}

var execsRe = regexp.MustCompile(`execs: (\d+)`)
var seedFailRe = regexp.MustCompile(`failure while testing seed corpus entry: \w+/(seed-\d+)`)

// TestFuzzCampaign runs the native fuzz targets of harness/c08/fuzz, one after
// the other (each with 8 fuzz workers), seeded with the textmut corpus.  The
// fuzzer works in-process and cannot be seeded with VERIF_SEED, so nothing it
// says is taken at face value: every crasher is re-run through the worker-based
// oracle (Evaluate) and only what reproduces there is reported.  Finding
// nothing is fine.
func TestFuzzCampaign(t *testing.T) {
	if !core.Thorough() && os.Getenv("C08_FUZZ") == "" {
		t.Skip("native fuzzing runs in the thorough tier only")
	}
	s := core.NewStats(Prop, "FuzzCampaign")
	defer s.Flush()
	s.Rule("native go test -fuzz, in-process targets per entry point (8 fuzz workers next to the 16 rapid shards, a fixed number of fuzz iterations per target: 8000 for load … 400000 for syntax, ≈ 60–90 s each on an idle machine, wall-clock cap 300 s) seeded with the repository corpus and the hostile constants that pass the worker oracle; every crasher and every new-coverage input the fuzzer kept (≤ 1500 per target) is re-evaluated through the worker oracle, which alone decides; evaluations = inputs re-evaluated there (fuzzer executions are reported as the counter native_fuzz_execs); non-trivial as in the rapid tier")
	mf, ok := modfileFlag()
	if !ok {
		s.Note("native fuzzing skipped: VERIF_REPO is a scratch copy but no alternate go.mod was found")
		t.Skip("no alternate go.mod for the scratch copy")
	}
	corp := theCorpus(t)
	tmp, err := os.MkdirTemp("", "c08-fuzz-")
	if err != nil {
		t.Fatal(err)
	}
	defer os.RemoveAll(tmp)
	bin := filepath.Join(tmp, "fuzz.test")
	args := append([]string{"test", "-c", "-vet=off", "-fuzz=Fuzz"}, mf...)
	args = append(args, "-o", bin, "./harness/c08/fuzz")
	cmd := exec.Command("go", args...)
	cmd.Dir = core.VerifDir()
	if out, err := cmd.CombinedOutput(); err != nil {
		t.Fatalf("harness: cannot build the fuzz targets: %v\n%s", err, out)
	}
	fuzzTime := envInt("C08_FUZZTIME", 300) // wall-clock cap per target, seconds
	workers := envInt("C08_FUZZWORKERS", 8) // the 16 rapid shards run at the same time
	only := os.Getenv("C08_FUZZ_ONLY")
	for _, ft := range fuzzTargets {
		if only != "" && only != ft.fn {
			continue
		}
		runFuzzTarget(t, s, corp, ft, bin, tmp, fuzzTime, workers)
	}
}

func runFuzzTarget(t *testing.T, s *core.Stats, corp *textmut.Corpus, ft fuzzTarget, bin, tmp string, fuzzTime, workers int) {
	dir := filepath.Join(tmp, ft.fn)
	seedDir := filepath.Join(dir, "testdata", "fuzz", ft.fn)
	cacheDir := filepath.Join(tmp, "cache-"+ft.fn)
	os.MkdirAll(seedDir, 0o755)
	// seed corpus: everything that the worker oracle accepts (a seed that crashes is
	// already reported by TestCorpus; the in-process fuzzer would stop on it)
	// (a stride sample of the repository files: the rapid tier already drives all of
	// them, the fuzzer needs starting points, and every seed costs baseline time)
	var seeds []textmut.Seed
	for _, l := range ft.langs {
		var small []textmut.Seed
		for _, sd := range corp.Seeds(l) {
			if len(sd.Text) <= 8<<10 {
				small = append(small, sd)
			}
		}
		stride := 1 + len(small)*len(ft.langs)/120
		for i := 0; i < len(small); i += stride {
			seeds = append(seeds, small[i])
		}
	}
	for _, h := range textmut.Hostile() {
		if len(h.Text) <= 2<<10 {
			seeds = append(seeds, h)
		}
	}
	nseed := 0
	for i, sd := range seeds {
		name := "x.txt"
		switch sd.Lang {
		case textmut.Wa:
			name = "x.wa"
		case textmut.Wz:
			name = "x.wz"
		case textmut.Wat:
			name = "x.wat"
		case textmut.Asm:
			name = "x.wa.s"
		default:
			name = naturalName[ft.langs[0]][0]
		}
		k := Case{Entry: ft.entry, Name: name, Seed: sd.Path}
		if ft.entry == "native_parse" {
			k.CPU = CPUs[i%len(CPUs)]
		}
		k.SetText(sd.Text)
		if outsideDomain(&k) {
			continue
		}
		v := Evaluate(theWorker(), &k)
		if v.Outcome != "ok" && v.Outcome != "error" {
			s.Counter("seeds_not_given_to_fuzzer/"+v.Outcome, 1)
			continue
		}
		if v.CPUms > 100 {
			// the fuzzer has a wall-clock watchdog per input; slow seeds would trip it on a loaded machine
			s.Counter("seeds_not_given_to_fuzzer/slow", 1)
			continue
		}
		if writeFuzzInput(filepath.Join(seedDir, fmt.Sprintf("seed-%04d", i)), []byte(sd.Text), nameIndex(name), i%len(CPUs)) == nil {
			nseed++
		}
	}
	s.Counter(ft.fn+"/seeds", int64(nseed))

	deadline := time.Duration(fuzzTime) * time.Second
	remaining := int64(ft.execs)
	var execs int64
	crashers := map[string]bool{}
	for attempt := 0; attempt < 8 && deadline >= 10*time.Second && remaining > 0; attempt++ {
		start := time.Now() // wall clock only caps the campaign; it never decides a verdict
		ctx, cancel := context.WithTimeout(context.Background(), deadline)
		cmd := exec.CommandContext(ctx, bin, "-test.run=^$", "-test.fuzz=^"+ft.fn+"$", fmt.Sprintf("-test.fuzztime=%dx", remaining),
			fmt.Sprintf("-test.parallel=%d", workers), "-test.fuzzcachedir="+cacheDir, "-test.timeout=0")
		cmd.Dir = dir
		cmd.SysProcAttr = &syscall.SysProcAttr{Setpgid: true}
		cmd.Cancel = func() error { return syscall.Kill(-cmd.Process.Pid, syscall.SIGKILL) }
		out, err := cmd.CombinedOutput()
		capped := ctx.Err() != nil
		cancel()
		if ms := execsRe.FindAllStringSubmatch(string(out), -1); len(ms) > 0 {
			n, _ := strconv.ParseInt(ms[len(ms)-1][1], 10, 64)
			execs += n
			remaining -= n
		}
		deadline -= time.Since(start)
		if capped {
			s.Note(fmt.Sprintf("%s: wall-clock cap reached after %d of %d fuzz iterations (inconclusive for the rest)", ft.fn, execs, ft.execs))
			break
		}
		if err == nil {
			break
		}
		// a crasher (or a harness problem): collect new files in the seed directory
		files, _ := filepath.Glob(filepath.Join(seedDir, "*"))
		found := false
		for _, f := range files {
			if strings.HasPrefix(filepath.Base(f), "seed-") || crashers[f] {
				continue
			}
			crashers[f] = true
			found = true
			src, ni, ci, rerr := readFuzzInput(f)
			if rerr != nil {
				s.Note("unreadable fuzz crasher: " + rerr.Error())
				continue
			}
			k := caseFromFuzz(ft.entry, src, ni, ci)
			k.Kinds = []string{"native-fuzz:crasher"}
			c := s.NewCase(t)
			judge(s, c, k, corp) // fails the test if the worker oracle confirms an unknown key
			c.Done()
			s.Counter(ft.fn+"/crashers_re-evaluated", 1)
			// move it out of the way so that the next attempt does not stop on it again
			os.Rename(f, filepath.Join(dir, "crasher-"+filepath.Base(f)))
		}
		if m := seedFailRe.FindStringSubmatch(string(out)); m != nil && !found {
			// the in-process run of a seed died (usually the fuzzer's wall-clock watchdog):
			// let the worker oracle judge that seed, drop it and go on
			f := filepath.Join(seedDir, m[1])
			if src, ni, ci, rerr := readFuzzInput(f); rerr == nil {
				k := caseFromFuzz(ft.entry, src, ni, ci)
				k.Kinds = []string{"native-fuzz:seed-died-in-process"}
				c := s.NewCase(t)
				judge(s, c, k, corp)
				c.Done()
				s.Counter(ft.fn+"/seeds_that_died_in_process_re-evaluated", 1)
			}
			if os.Remove(f) == nil {
				found = true
			}
		}
		if !found {
			s.Note(fmt.Sprintf("%s: fuzz run ended with an error but left no crasher: %s", ft.fn, lastLines(string(out), 6)))
			break
		}
	}
	s.Counter("native_fuzz_execs/"+ft.fn, execs)

	// what the fuzzer learned: re-evaluate the inputs it kept for new coverage
	kept, _ := filepath.Glob(filepath.Join(cacheDir, "*", ft.fn, "*"))
	if len(kept) == 0 {
		kept, _ = filepath.Glob(filepath.Join(cacheDir, ft.fn, "*"))
	}
	sort.Strings(kept)
	limit := 1500
	if ft.entry == "load" {
		limit = 400
	}
	for i, f := range kept {
		if i >= limit {
			break
		}
		src, ni, ci, rerr := readFuzzInput(f)
		if rerr != nil {
			continue
		}
		k := caseFromFuzz(ft.entry, src, ni, ci)
		k.Kinds = []string{"native-fuzz:kept"}
		if outsideDomain(&k) {
			continue
		}
		c := s.NewCase(t)
		judge(s, c, k, corp)
		c.Done()
	}
	s.Counter(ft.fn+"/kept_inputs", int64(len(kept)))
	s.Flush()
}

func lastLines(s string, n int) string {
	ls := strings.Split(strings.TrimSpace(s), "\n")
	if len(ls) > n {
		ls = ls[len(ls)-n:]
	}
	return strings.Join(ls, " | ")
}
