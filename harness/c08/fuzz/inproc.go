// Package fuzz holds the native `go test -fuzz` targets of property C08.  They
// call the front ends in-process (the fuzzer needs coverage feedback), so a
// crash here is only a *candidate*: harness/c08's TestFuzzCampaign re-runs every
// crasher through the worker-based oracle before anything is reported.
package fuzz

import (
	"fmt"

	"wa-lang.org/wa/api"
	"wa-lang.org/wa/internal/loader"
	"wa-lang.org/wa/internal/native/abi"
	navparser "wa-lang.org/wa/internal/native/parser"
	navtoken "wa-lang.org/wa/internal/native/token"
	"wa-lang.org/wa/internal/parser"
	"wa-lang.org/wa/internal/parser/w2parser"
	"wa-lang.org/wa/internal/token"
	watparser "wa-lang.org/wa/internal/wat/parser"
)

var cpuTypes = map[string]abi.CPUType{
	"loong64": abi.LOONG64, "riscv64": abi.RISCV64, "riscv32": abi.RISCV32,
	"x64": abi.X64Unix, "x64win": abi.X64Windows, "arm64": abi.ARM64,
}

// Run calls one entry point exactly like the worker op "c08" does.
func Run(entry, name, cpu string, src []byte) error {
	if src == nil {
		src = []byte{}
	}
	var err error
	switch entry {
	case "format":
		_, err = api.FormatCode(name, string(src))
	case "syntax":
		_ = api.GetCodeSyntax(name, src)
	case "parse_wa":
		_, err = parser.ParseFile(nil, token.NewFileSet(), name, src, parser.AllErrors|parser.ParseComments)
	case "parse_wz":
		_, err = w2parser.ParseFile(nil, token.NewFileSet(), name, src, w2parser.AllErrors|w2parser.ParseComments)
	case "load":
		_, err = loader.LoadProgramFile(api.DefaultConfig(), name, src)
	case "wat_parse":
		_, err = watparser.ParseModule(name, src)
	case "native_parse":
		c, ok := cpuTypes[cpu]
		if !ok {
			return fmt.Errorf("unknown cpu %q", cpu)
		}
		_, err = navparser.ParseFile(c, navtoken.NewFileSet(), name, src)
	default:
		panic("harness: unknown entry " + entry)
	}
	return err
}
