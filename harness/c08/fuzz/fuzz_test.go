package fuzz

import (
	"runtime/debug"
	"strings"
	"testing"

	"wa-lang.org/wa/zverif/harness/c08"
	"wa-lang.org/wa/zverif/harness/core"
	"wa-lang.org/wa/zverif/harness/textmut"
)

// Names is the file-name table the uint8 argument indexes.
var Names = append(append([]string{}, c08.NameClasses...), c08.OtherNames...)

func target(f *testing.F, entry string) {
	f.Add([]byte("func main() {}\n"), uint8(0), uint8(0))
	f.Fuzz(func(t *testing.T, src []byte, nameIdx, cpuIdx uint8) {
		if len(src) > textmut.MaxLen {
			t.Skip()
		}
		name := Names[int(nameIdx)%len(Names)]
		cpu := ""
		if entry == "native_parse" {
			cpu = c08.CPUs[int(cpuIdx)%len(c08.CPUs)]
		}
		if entry == "format" {
			l := textmut.Wa
			if strings.HasSuffix(strings.ToLower(name), ".wz") || strings.Contains(string(src), "完毕") {
				l = textmut.Wz
			}
			if textmut.NestDepth(l, string(src)) > c08.MaxFormatNest {
				t.Skip()
			}
		}
		defer func() {
			if r := recover(); r != nil {
				frame := c08.PanicFrame(string(debug.Stack()))
				// tolerate exactly the listed known findings and panics behind the type checker
				if c08.NotC08Frame(frame) || core.IsKnown(c08.Prop, entry+"/panic:"+frame) {
					return
				}
				panic(r)
			}
		}()
		Run(entry, name, cpu, src)
	})
}

func FuzzFormat(f *testing.F)  { target(f, "format") }
func FuzzSyntax(f *testing.F)  { target(f, "syntax") }
func FuzzParseWa(f *testing.F) { target(f, "parse_wa") }
func FuzzParseWz(f *testing.F) { target(f, "parse_wz") }
func FuzzLoad(f *testing.F)    { target(f, "load") }
func FuzzWat(f *testing.F)     { target(f, "wat_parse") }
func FuzzNative(f *testing.F)  { target(f, "native_parse") }
