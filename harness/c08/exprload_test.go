package c08

// TestGrammarLoad: syntactically well-formed, freely typed programs for the
// type checker. The text mutators of the other tests rarely produce a program
// that gets past the parser AND puts an unusual operand combination in front
// of the checker's constant folder (a float constant divided by a constant
// zero, a shift by a huge or negative constant, a conversion that overflows,
// a constant index out of range, a builtin with the wrong number of arguments,
// a type or constant that refers to itself). This generator draws declarations
// and expressions from a grammar without regard to types; the oracle is the
// one of the whole property: load returns (a result or an error), it never
// panics, never ends the process and stays within the time budget.

import (
	"fmt"
	"strings"
	"testing"

	"pgregory.net/rapid"
	"wa-lang.org/wa/zverif/harness/core"
)

type exprGen struct {
	t     *rapid.T
	depth int
	kinds map[string]bool
}

func (g *exprGen) pick(label string, xs ...string) string {
	return xs[rapid.IntRange(0, len(xs)-1).Draw(g.t, label)]
}

var intLits = []string{"0", "1", "2", "7", "-1", "255", "256", "65536", "2147483647", "2147483648", "4294967295", "4294967296",
	"9223372036854775807", "9223372036854775808", "18446744073709551615", "18446744073709551616", "0x7fffffff", "0xffffffffffffffff",
	"1000000", "'a'", "'世'", "'\\x00'", "0b101", "0o17", "1_000"}
var floatLits = []string{"0.0", "1.5", "-0.0", "1e10", "1e100", "1e308", "1e309", "1e-400", "1e1000", "0.1", "3.14", "2.0", "1e3", ".5", "0x1p-2", "1e100000"}
var strLits = []string{`""`, `"a"`, `"wa-lang"`, `"世界"`, "`raw`", `"\xff"`, `"\x00"`}
var otherAtoms = []string{"true", "false", "nil", "ci", "cf", "cs", "cb", "vi", "vf", "vs", "vb", "vu8", "vi64", "vu64", "arr", "sl", "mp", "st", "pt", "fn", "ifc", "iota", "_"}
var typeNames = []string{"int", "uint", "i8", "u8", "i16", "u16", "i32", "u32", "i64", "u64", "f32", "f64", "string", "bool", "rune", "byte",
	"uintptr", "[]int", "[]byte", "[3]int", "[0]int", "*int", "map[string]int", "map[int]bool", "func()", "func(a: int) => int", "interface{}", "T", "*T", "[]T", "struct{}", "struct{ x: int }", "error", "complex128"}
var binOps = []string{"+", "-", "*", "/", "%", "&", "|", "^", "&^", "<<", ">>", "==", "!=", "<", "<=", ">", ">=", "&&", "||"}
var unOps = []string{"-", "+", "!", "^", "*", "&", "-", "^"}
var builtins = []string{"len", "cap", "append", "copy", "delete", "make", "new", "panic", "print", "println", "real", "imag", "complex", "unsafe.Sizeof", "min", "max", "raw"}

func (g *exprGen) atom() string {
	switch rapid.IntRange(0, 9).Draw(g.t, "atom") {
	case 0, 1, 2:
		g.kinds["int-literal"] = true
		return g.pick("int", intLits...)
	case 3, 4:
		g.kinds["float-literal"] = true
		return g.pick("float", floatLits...)
	case 5:
		g.kinds["string-literal"] = true
		return g.pick("str", strLits...)
	default:
		return g.pick("other", otherAtoms...)
	}
}

func (g *exprGen) typ() string { return g.pick("type", typeNames...) }

func (g *exprGen) expr(d int) string {
	if d <= 0 {
		return g.atom()
	}
	switch rapid.IntRange(0, 19).Draw(g.t, "form") {
	case 0, 1, 2, 3, 4, 5:
		op := g.pick("binop", binOps...)
		l, r := g.expr(d-1), g.expr(d-1)
		switch op {
		case "/", "%":
			g.kinds["division"] = true
			if r == "0" || r == "0.0" || r == "-0.0" || strings.HasSuffix(r, "(0)") || strings.HasSuffix(r, "(0.0)") {
				g.kinds["division-by-constant-zero"] = true
			}
		case "<<", ">>":
			g.kinds["shift"] = true
		}
		return "(" + l + " " + op + " " + r + ")"
	case 6, 7:
		return g.pick("unop", unOps...) + g.expr(d-1)
	case 8, 9:
		g.kinds["conversion"] = true
		return g.typ() + "(" + g.expr(d-1) + ")"
	case 10:
		g.kinds["index"] = true
		return g.expr(d-1) + "[" + g.expr(d-1) + "]"
	case 11:
		g.kinds["slice-expr"] = true
		parts := []string{g.expr(d - 1), g.expr(d - 1)}
		if rapid.Bool().Draw(g.t, "3idx") {
			parts = append(parts, g.expr(d-1))
		}
		if rapid.Bool().Draw(g.t, "omitlo") {
			parts[0] = ""
		}
		return g.expr(d-1) + "[" + strings.Join(parts, ":") + "]"
	case 12, 13:
		g.kinds["builtin-call"] = true
		n := rapid.IntRange(0, 3).Draw(g.t, "nargs")
		var as []string
		for i := 0; i < n; i++ {
			if i == 0 && rapid.IntRange(0, 3).Draw(g.t, "typearg") == 0 {
				as = append(as, g.typ())
			} else {
				as = append(as, g.expr(d-1))
			}
		}
		call := g.pick("builtin", builtins...) + "(" + strings.Join(as, ", ")
		if n > 0 && rapid.IntRange(0, 5).Draw(g.t, "spread") == 0 {
			call += "..."
		}
		return call + ")"
	case 14:
		g.kinds["composite-literal"] = true
		n := rapid.IntRange(0, 3).Draw(g.t, "nelts")
		var es []string
		for i := 0; i < n; i++ {
			e := g.expr(d - 1)
			if rapid.IntRange(0, 2).Draw(g.t, "keyed") == 0 {
				e = g.pick("key", "x", "0", "1", "-1", "99999999999", `"k"`, "ci", "2: 3") + ": " + e
			}
			es = append(es, e)
		}
		return g.pick("littype", "[]int", "[3]int", "[...]int", "map[string]int", "T", "&T", "struct{ x: int }", "[2][2]f64", "[]string", "[ci]int", "[1e3]u8", "[-1]int", "[1<<40]int") + "{" + strings.Join(es, ", ") + "}"
	case 15:
		g.kinds["selector"] = true
		return g.expr(d-1) + "." + g.pick("sel", "x", "y", "m", "Method", "next", "len", "_")
	case 16:
		g.kinds["type-assertion"] = true
		return g.expr(d-1) + ".(" + g.typ() + ")"
	case 17:
		g.kinds["call"] = true
		n := rapid.IntRange(0, 2).Draw(g.t, "ncall")
		var as []string
		for i := 0; i < n; i++ {
			as = append(as, g.expr(d-1))
		}
		return g.pick("callee", "fn", "f2", "st.m", "T.m", "main", "rec", "func(a: int) => int { return a }") + "(" + strings.Join(as, ", ") + ")"
	case 18:
		g.kinds["func-literal"] = true
		return "func(a: " + g.typ() + ") => " + g.typ() + " { return " + g.expr(d-1) + " }"
	}
	return g.atom()
}

func (g *exprGen) decl(i int) string {
	e := func() string { return g.expr(rapid.IntRange(0, g.depth).Draw(g.t, "d")) }
	switch rapid.IntRange(0, 13).Draw(g.t, "decl") {
	case 0, 1, 2:
		g.kinds["const-decl"] = true
		if rapid.Bool().Draw(g.t, "typed") {
			return fmt.Sprintf("const k%d: %s = %s", i, g.typ(), e())
		}
		return fmt.Sprintf("const k%d = %s", i, e())
	case 3, 4:
		if rapid.Bool().Draw(g.t, "typed") {
			return fmt.Sprintf("global w%d: %s = %s", i, g.typ(), e())
		}
		return fmt.Sprintf("global w%d = %s", i, e())
	case 5:
		g.kinds["const-group-iota"] = true
		return fmt.Sprintf("const (\n\tq%da = %s\n\tq%db\n\tq%dc = iota %s %s\n)", i, e(), i, i, g.pick("binop", binOps...), e())
	case 6:
		g.kinds["type-decl"] = true
		return fmt.Sprintf("type U%d %s", i, g.pick("tdef", g.typ(), fmt.Sprintf("U%d", i), fmt.Sprintf("[]U%d", i), fmt.Sprintf("struct{ a: U%d }", i), fmt.Sprintf("*U%d", i),
			fmt.Sprintf("[len(U%d{})]int", i), fmt.Sprintf("struct{ a: [%s]int }", e()), fmt.Sprintf("map[U%d]int", i), fmt.Sprintf("func(U%d) => U%d", i, i), fmt.Sprintf("interface{ m() => U%d }", i)))
	case 7:
		g.kinds["self-referential-const"] = true
		return fmt.Sprintf("const r%da = r%db + %s\nconst r%db = r%da", i, i, e(), i, i)
	case 8:
		g.kinds["array-type-length"] = true
		return fmt.Sprintf("global a%d: [%s]%s", i, e(), g.typ())
	case 9:
		return fmt.Sprintf("func g%d(a: %s, b: ...%s) => (r: %s) {\n\tr = %s\n\treturn\n}", i, g.typ(), g.typ(), g.typ(), e())
	case 10:
		g.kinds["statements"] = true
		return fmt.Sprintf("func h%d() {\n\tx := %s\n\tx %s= %s\n\tswitch %s {\n\tcase %s, %s:\n\t}\n\tfor i := range %s {\n\t\t_ = i\n\t}\n\tvar y: %s = %s\n\t_, _ = x, y\n}",
			i, e(), g.pick("asop", "+", "-", "*", "/", "%", "<<", ">>", "&", "|", "^", "&^"), e(), e(), e(), e(), e(), g.typ(), e())
	case 11:
		g.kinds["method-decl"] = true
		return fmt.Sprintf("func %s.m%d(a: int) => int {\n\treturn %s\n}", g.pick("recv", "T", "*T", "U0", "int", "[]int", "Missing"), i, e())
	case 12:
		return fmt.Sprintf("global (\n\tp%d, s%d = %s, %s\n)", i, i, e(), e())
	}
	return fmt.Sprintf("global z%d = %s", i, e())
}

const exprPrelude = `const ci = 3
const cf = 2.5
const cs = "const"
const cb = true

global vi: int = 1
global vf: f64 = 1.5
global vs: string = "v"
global vb: bool
global vu8: u8 = 200
global vi64: i64
global vu64: u64
global arr: [3]int
global sl: []int
global mp: map[string]int
global st: T
global pt: *T
global fn: func(a: int) => int
global ifc: interface{}

type T struct {
	x: int
	y: f64
	next: *T
}

func T.m(a: int) => int { return a + this.x }

func f2(a, b: int) => (int, int) { return b, a }

func rec(n: int) => int { return rec(n - 1) }

func main {
	println(vi)
}
`

func genExprProgram(t *rapid.T) (string, map[string]bool) {
	g := &exprGen{t: t, depth: rapid.IntRange(1, 3).Draw(t, "maxdepth"), kinds: map[string]bool{}}
	n := rapid.IntRange(1, 6).Draw(t, "ndecls")
	var ds []string
	for i := 0; i < n; i++ {
		ds = append(ds, g.decl(i))
	}
	return exprPrelude + "\n" + strings.Join(ds, "\n\n") + "\n", g.kinds
}

func TestGrammarLoad(t *testing.T) {
	corp := theCorpus(t)
	s := core.NewStats(Prop, "GrammarLoad")
	s.Rule("load: rapid over a grammar of declarations and expressions that is syntactically well formed and typed at random: 1..6 declarations (typed/untyped constants, iota groups, globals, self-referential constants and types, array types with computed lengths, functions with variadic parameters and named results, methods on assorted receivers, statements with compound assignments / switch / range) whose expressions (depth <= 3) combine boundary integer/float/string literals, constants and variables of every basic and composite type with every binary and unary operator, conversions to every type, index / slice / selector / type-assertion forms, composite literals with keyed elements and computed array lengths, builtin calls with 0..3 arguments (types as arguments, spread) and function literals, appended to a fixed well-typed prelude; entry point api.LoadProgramFile in the worker; oracle: returns a result or an error - no panic, no process exit, CPU time within the budget; non-trivial = the program got past the parser (the type checker ran)")
	s.Assume("as for the other C08 tests")
	s.Check(t, func(t *rapid.T, c *core.Case) {
		src, kinds := genExprProgram(t)
		k := Case{Entry: "load", Name: "x.wa"}
		k.SetText(src)
		for kd := range kinds {
			c.Class("has/" + kd)
		}
		judge(s, c, k, corp)
	})
}
