package c08

import (
	"encoding/json"
	"fmt"
	"os"
	"testing"
)

// TestProbe is a developer tool: C08_PROBE=<file with a JSON list of cases>
// prints outcome, CPU time and key of each case.  Skipped otherwise.
func TestProbe(t *testing.T) {
	path := os.Getenv("C08_PROBE")
	if path == "" {
		t.Skip("C08_PROBE not set")
	}
	data, err := os.ReadFile(path)
	if err != nil {
		t.Fatal(err)
	}
	var cases []Case
	if err := json.Unmarshal(data, &cases); err != nil {
		t.Fatal(err)
	}
	for _, k := range cases {
		v := Evaluate(theWorker(), &k)
		fmt.Printf("%-13s %-8q %-8s %7d bytes  %-10s cpu=%6dms tokens=%d lang=%s key=%s err=%.100q\n", k.Entry, k.Name, k.CPU, len(k.Text()), v.Outcome, v.CPUms, v.Tokens, v.Lang, v.Key, v.Err)
	}
}
