package c08

import (
	"encoding/json"
	"fmt"
	"os"
	"path"
	"sort"
	"strings"
	"sync"
	"testing"
	"time"

	"pgregory.net/rapid"
	"wa-lang.org/wa/zverif/harness/core"
	"wa-lang.org/wa/zverif/harness/textmut"
	"wa-lang.org/wa/zverif/harness/wk"
)

func TestMain(m *testing.M) { core.Main(m) }

// ---------------------------------------------------------------- shared state

var (
	workerOnce sync.Once
	worker     *wk.Client

	corpusOnce sync.Once
	corpus     *textmut.Corpus
	corpusErr  error
)

func theWorker() *wk.Client {
	workerOnce.Do(func() { worker = NewWorker(0) })
	return worker
}

// theCorpus loads the seed corpus of the tree under test and adds
// compiler-emitted WAT (worker op "build" on the smallest corpus programs that
// compile), cut into modules of at most 48 KiB.
func theCorpus(t testing.TB) *textmut.Corpus {
	corpusOnce.Do(func() {
		corpus, corpusErr = textmut.Load(core.RepoDir())
		if corpusErr != nil {
			return
		}
		built := 0
		for _, s := range corpus.Seeds(textmut.Wa) {
			if built >= 2 || len(s.Text) > 4000 {
				break
			}
			if !strings.Contains(s.Text, "func main") {
				continue
			}
			o := theWorker().Do("build", wk.Src{Name: "p.wa", Src: s.Text})
			if o.Kind != wk.OK {
				continue
			}
			var r struct {
				Wat string `json:"wat"`
			}
			if o.Decode(&r) != nil || r.Wat == "" {
				continue
			}
			for i, m := range carveWat(r.Wat, 48<<10, 6) {
				corpus.Add(textmut.Seed{Path: fmt.Sprintf("emitted:%s#%d", s.Path, i), Lang: textmut.Wat, Text: m})
			}
			built++
		}
	})
	if corpusErr != nil {
		t.Fatalf("cannot load seed corpus: %v", corpusErr)
	}
	return corpus
}

// carveWat splits compiler output (one big module) into smaller modules made
// of consecutive top-level fields.
func carveWat(wat string, maxLen, maxParts int) []string {
	toks := textmut.Tokenize(textmut.Wat, wat)
	depth := 0
	var fields []string
	var cur strings.Builder
	for _, tk := range toks {
		if tk.Kind == textmut.Open {
			depth++
		}
		if depth >= 2 {
			cur.WriteString(tk.Text)
		}
		if tk.Kind == textmut.Close {
			depth--
			if depth == 1 {
				fields = append(fields, cur.String())
				cur.Reset()
			}
		}
	}
	var out []string
	var b strings.Builder
	flush := func() {
		if b.Len() > 0 && len(out) < maxParts {
			out = append(out, "(module $carved\n"+b.String()+")\n")
		}
		b.Reset()
	}
	for _, f := range fields {
		if len(f) > maxLen {
			continue
		}
		if b.Len()+len(f) > maxLen {
			flush()
		}
		b.WriteString(f)
		b.WriteString("\n")
	}
	flush()
	return out
}

// ---------------------------------------------------------------- one case

// minimised remembers, per violation key, the smallest failing case found in
// this process, so that rapid's shrinking does not re-minimise every attempt.
var (
	minMu      sync.Mutex
	minimised  = map[string]minimal{}
	notC08Seen = map[string]bool{}
)

type minimal struct {
	k    Case
	what string
}

func minimiseOnce(k Case, key, what string) (Case, string) {
	minMu.Lock()
	defer minMu.Unlock()
	if m, ok := minimised[key]; ok {
		if len(m.k.Text()) <= len(k.Text()) {
			return m.k, m.what
		}
	}
	var m Case
	if strings.HasSuffix(key, "/hang") {
		w := NewWorker(3 * time.Second) // a probe that burns 3 s on a smaller input still "hangs"; the result is re-confirmed with the full budget
		m = Minimise(w, k, key, 24)
		w.Close()
	} else {
		w := NewWorker(0)
		budget := 400
		if k.Entry == "load" {
			budget = 200
		}
		m = Minimise(w, k, key, budget)
		w.Close()
	}
	if v := Evaluate(theWorker(), &m); v.Key != key {
		m = k // minimised form does not survive the full oracle: keep the original
	} else {
		what = v.What
	}
	minimised[key] = minimal{m, what}
	return m, what
}

func outsideDomain(k *Case) bool {
	if k.Entry != "format" {
		return false
	}
	text := k.Text()
	l := textmut.Wa
	if strings.HasSuffix(strings.ToLower(k.Name), ".wz") || strings.Contains(text, "完毕") {
		l = textmut.Wz
	}
	return textmut.NestDepth(l, text) > MaxFormatNest
}

// judge evaluates one case, accounts for it and reports violations.
func judge(s *core.Stats, c *core.Case, k Case, corp *textmut.Corpus) {
	text := k.Text()
	c.Set(k)
	v := Evaluate(theWorker(), &k)
	nc := "name=" + NameClass(k.Name)
	c.Class(nc + "/" + v.Outcome)
	s.Counter("worker_cpu_ms/"+k.Entry, v.CPUms)
	switch {
	case v.CPUms >= 5000:
		s.Counter("cases_with_cpu>=5s", 1)
	case v.CPUms >= 1000:
		s.Counter("cases_with_cpu>=1s", 1)
	case v.CPUms >= 100:
		s.Counter("cases_with_cpu>=100ms", 1)
	}
	if k.CPU != "" {
		c.Class("cpu=" + k.CPU + "/" + v.Outcome)
	}
	for _, m := range k.Kinds {
		c.Class("mut=" + m + "/" + v.Outcome)
	}
	switch {
	case v.Key != "":
		if core.IsKnown(Prop, v.Key) {
			c.Fail(v.Key, "%s", v.What) // counted under known_hits, search continues
			s.Counter("known/"+v.Key, 1)
			return
		}
		m, what := minimiseOnce(k, v.Key, v.What)
		c.Set(m)
		c.Fail(v.Key, "%s", what)
	case v.Outcome == "not-c08:ssa-panic":
		s.Counter("not_c08_panic_behind_type_checker", 1)
		minMu.Lock()
		if !notC08Seen[v.What] && len(notC08Seen) < 5 {
			notC08Seen[v.What] = true
			s.Note("not a C08 violation (C16's domain): " + firstLine(v.What))
		}
		minMu.Unlock()
	case strings.HasPrefix(v.Outcome, "inconclusive"):
		s.Counter(v.Outcome, 1)
	default:
		if v.Tokens >= 5 && ReachedParser(&k, v) && !corp.Contains(text) {
			c.Nontrivial(k.Entry, k.Name, k.CPU, text)
		}
	}
}

func firstLine(s string) string {
	if i := strings.IndexByte(s, '\n'); i >= 0 {
		return s[:i]
	}
	return s
}

// ---------------------------------------------------------------- rapid tier

const rule = "rapid over textmut: seed (repo corpus file of the entry's language, compiler-emitted WAT, hostile constant) + 1..3 stacked mutators (byte level 10%, token level, grammar-level splicing) × file name ∈ {x.wa,x.wz,x.wat,x.wa.s,x.wz.s,x.txt,\"\",x.WA,other}; every call goes through the child-process worker; oracle: outcome ∈ {ok,error}; panic / process exit (confirmed in a fresh worker) and > 20 s CPU (then killed 3× at 60 s CPU in fresh workers) are violations keyed <entry>/panic:<innermost repo frame>, <entry>/exited:<reason>, <entry>/hang; format is driven only with block nesting ≤ 800 (its output grows as depth × lines); non-trivial = the matching scanner yields ≥ 5 tokens, the call reaches a parser (format: detected wa/wz; syntax: name does not decide; load: .wa/.wz name) and the text is not byte-identical to a repository file; distinct by hash of (entry,name,cpu,text)"

// langFor draws the language whose seeds/mutators feed an entry point.
func langFor(t *rapid.T, entry string) textmut.Lang {
	pick := func(ls ...textmut.Lang) textmut.Lang { return ls[rapid.IntRange(0, len(ls)-1).Draw(t, "lang")] }
	switch entry {
	case "parse_wa":
		return pick(textmut.Wa, textmut.Wa, textmut.Wa, textmut.Wz)
	case "parse_wz":
		return pick(textmut.Wz, textmut.Wz, textmut.Wz, textmut.Wa)
	case "wat_parse":
		return textmut.Wat
	case "native_parse":
		return textmut.Asm
	case "load":
		return pick(textmut.Wa, textmut.Wa, textmut.Wz)
	}
	return pick(textmut.Wa, textmut.Wz, textmut.Wat, textmut.Asm, textmut.Wa, textmut.Wz)
}

var naturalName = map[textmut.Lang][]string{
	textmut.Wa: {"x.wa"}, textmut.Wz: {"x.wz"}, textmut.Wat: {"x.wat"}, textmut.Asm: {"x.wa.s", "x.wz.s"},
}

func drawName(t *rapid.T, l textmut.Lang) string {
	if rapid.IntRange(0, 1).Draw(t, "natural") == 0 {
		ns := naturalName[l]
		return ns[rapid.IntRange(0, len(ns)-1).Draw(t, "nn")]
	}
	i := rapid.IntRange(0, len(NameClasses)).Draw(t, "name")
	if i < len(NameClasses) {
		return NameClasses[i]
	}
	return OtherNames[rapid.IntRange(0, len(OtherNames)-1).Draw(t, "other")]
}

func mutTest(t *testing.T, test, entry string) {
	corp := theCorpus(t)
	s := core.NewStats(Prop, test)
	s.Rule(entry + ": " + rule)
	s.Assume("the worker's accounting of CPU time (/proc/<pid>/stat) and its 4 GiB address-space limit; a crash or kill that does not reproduce in a fresh worker is counted as inconclusive, not as a violation")
	opts := textmut.Options{}
	if entry == "format" {
		opts.MaxNest = 300
	}
	if entry == "load" {
		opts.MaxSeed = 8 << 10 // type checking big files is slow; the tiers favour many cases
	}
	s.Check(t, func(t *rapid.T, c *core.Case) {
		l := langFor(t, entry)
		k := Case{Entry: entry}
		k.Name = drawName(t, l)
		if entry == "native_parse" {
			k.CPU = rapid.SampledFrom(CPUs).Draw(t, "cpu")
		}
		// one rapid draw seeds a uniform stream for the many positional decisions of the
		// mutators (rapid's own integer draws are biased towards small values, which
		// would pin mutations to the first seeds and the beginning of the text)
		g := corp.Generate(textmut.NewSplitMix(rapid.Uint64().Draw(t, "mutseed")), l, opts)
		k.SetText(g.Text)
		if outsideDomain(&k) {
			s.Counter("rejected_by_domain/format-nesting>800", 1)
			t.Skip("outside the domain of the format entry")
		}
		k.Seed = g.Seed
		for _, m := range g.Kinds {
			k.Kinds = append(k.Kinds, string(m))
		}
		c.Class("lang=" + string(l))
		judge(s, c, k, corp)
	})
}

func TestMutFormat(t *testing.T)  { mutTest(t, "MutFormat", "format") }
func TestMutSyntax(t *testing.T)  { mutTest(t, "MutSyntax", "syntax") }
func TestMutParseWa(t *testing.T) { mutTest(t, "MutParseWa", "parse_wa") }
func TestMutParseWz(t *testing.T) { mutTest(t, "MutParseWz", "parse_wz") }
func TestMutLoad(t *testing.T)    { mutTest(t, "MutLoad", "load") }
func TestMutWat(t *testing.T)     { mutTest(t, "MutWat", "wat_parse") }
func TestMutNative(t *testing.T)  { mutTest(t, "MutNative", "native_parse") }

// ---------------------------------------------------------------- enumerated tier

type item struct {
	k    Case
	cost int // rough relative cost, for balanced sharding
}

// TestCorpus drives (a) every repository seed, unmodified, through the entry
// points that accept its language, under its own file name, and (b) every
// hostile constant through every entry point (every CPU) under every file-name
// class.  This is the part that guarantees entry × name coverage by
// enumeration instead of by chance.
func TestCorpus(t *testing.T) {
	corp := theCorpus(t)
	s := core.NewStats(Prop, "Corpus")
	defer s.Flush()
	s.Rule("enumeration: every repository seed (.wa/.wz under waroot, .wat, .s files, carved compiler-emitted WAT) unmodified under its own file name through the entry points for its language, and every hostile constant of textmut.Hostile() × every entry point (every CPU) × every file-name class; same oracle as the rapid tier; non-trivial = hostile constant with ≥ 5 tokens that reaches a parser (repository files are never counted as non-trivial)")
	var items []item
	for _, sd := range corp.All() {
		name := path.Base(sd.Path)
		if strings.HasPrefix(sd.Path, "emitted:") {
			name = "emitted.wat"
		}
		if len(sd.Text) > textmut.MaxLen {
			s.Counter("repository_seeds_over_64KiB_not_driven_unmodified", 1)
			continue // beyond the size for which the time bound is stated
		}
		var es []string
		switch sd.Lang {
		case textmut.Wa:
			es = []string{"format", "syntax", "parse_wa", "load"}
		case textmut.Wz:
			es = []string{"format", "syntax", "parse_wz", "load"}
		case textmut.Wat:
			es = []string{"format", "syntax", "wat_parse"}
		case textmut.Asm:
			es = []string{"format", "syntax", "native_parse"}
		}
		for _, e := range es {
			k := Case{Entry: e, Name: name, Seed: sd.Path}
			k.SetText(sd.Text)
			if e == "native_parse" {
				for _, cpu := range CPUs {
					k.CPU = cpu
					items = append(items, item{k, 1})
				}
				continue
			}
			cost := 1
			if e == "load" {
				cost = 30
			}
			items = append(items, item{k, cost})
		}
	}
	names := append(append([]string{}, NameClasses...), OtherNames[0], OtherNames[4])
	for _, sd := range textmut.Hostile() {
		for _, e := range Entries {
			ns := names
			if len(sd.Text) > 4<<10 {
				// the file name only selects the dispatch; the big (expensive) constants
				// need not be repeated under every name
				switch e {
				case "wat_parse":
					ns = []string{"x.wat", ""}
				case "native_parse":
					ns = []string{"x.wa.s", ""}
				default:
					ns = []string{"x.wa", "x.wz", "x.txt"}
				}
			}
			for _, name := range ns {
				k := Case{Entry: e, Name: name, Seed: sd.Path, Kinds: []string{string(textmut.HostileConst)}}
				k.SetText(sd.Text)
				if e == "native_parse" {
					for _, cpu := range CPUs {
						k.CPU = cpu
						items = append(items, item{k, 1})
					}
					continue
				}
				cost := 1
				if e == "load" {
					cost = 30
				}
				items = append(items, item{k, cost})
			}
		}
	}
	sh, n := core.Shard()
	covered := map[string]bool{}
	for i, it := range items {
		if i%n != sh {
			continue
		}
		if outsideDomain(&it.k) {
			s.Counter("rejected_by_domain/format-nesting>800", 1)
			continue
		}
		c := s.NewCase(t)
		judge(s, c, it.k, corp)
		c.Done()
		covered[it.k.Entry+"|"+NameClass(it.k.Name)] = true
	}
	s.Counter("items_total_all_shards", int64(len(items))/int64(n))
	// coverage obligation of the whole enumeration (checked on the item list, which is the same in every shard)
	all := map[string]bool{}
	for _, it := range items {
		all[it.k.Entry+"|"+NameClass(it.k.Name)] = true
	}
	for _, e := range Entries {
		for _, nm := range append(append([]string{}, NameClasses...), "zz") {
			if !all[e+"|"+NameClass(nm)] {
				t.Errorf("harness: entry %s is never driven with name class %s", e, NameClass(nm))
			}
		}
	}
}

// ---------------------------------------------------------------- replay

func replay(test string, raw json.RawMessage) (string, string) {
	var k Case
	if err := json.Unmarshal(raw, &k); err != nil {
		return "harness/bad-replay", err.Error()
	}
	v := Evaluate(theWorker(), &k)
	return v.Key, v.What
}

func TestReplay(t *testing.T) { core.RunReplays(t, Prop, replay) }

var _ = sort.Strings
var _ = os.Getenv
