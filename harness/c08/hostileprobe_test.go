package c08

import (
	"fmt"
	"os"
	"sort"
	"testing"

	"wa-lang.org/wa/zverif/harness/textmut"
)

// TestHostileCost is a developer tool (C08_COST=<entry>): CPU cost of every hostile constant.
func TestHostileCost(t *testing.T) {
	entry := os.Getenv("C08_COST")
	if entry == "" {
		t.Skip("C08_COST not set")
	}
	type row struct {
		name string
		ms   int64
		out  string
	}
	var rows []row
	for _, h := range textmut.Hostile() {
		k := Case{Entry: entry, Name: os.Getenv("C08_COST_NAME"), CPU: "riscv64"}
		k.SetText(h.Text)
		v := Evaluate(theWorker(), &k)
		rows = append(rows, row{h.Path, v.CPUms, v.Outcome})
	}
	sort.Slice(rows, func(i, j int) bool { return rows[i].ms > rows[j].ms })
	var total int64
	for _, r := range rows {
		total += r.ms
	}
	fmt.Println("total ms", total)
	for _, r := range rows[:25] {
		fmt.Println(r.ms, r.name, r.out)
	}
}
