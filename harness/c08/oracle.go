// Package c08 checks property C08: the front ends (formatter, language
// detection, Wa/Wz parsers, type checker, WAT parser, native-assembly parser)
// never panic, never terminate the process and never hang, whatever the input
// text and file name.
//
// This file is the oracle: it drives one entry point in the child-process
// worker and classifies the way the request ended.  It is a non-test file so
// that the native-fuzz package (harness/c08/fuzz) shares key construction.
package c08

import (
	"encoding/base64"
	"fmt"
	"regexp"
	"strings"
	"time"
	"unicode/utf8"

	"wa-lang.org/wa/zverif/harness/wk"
)

const Prop = "C08"

// Entries are the entry points of the property.
var Entries = []string{"format", "syntax", "parse_wa", "parse_wz", "load", "wat_parse", "native_parse"}

// CPUs are the CPU types of the native-assembly parser.
var CPUs = []string{"loong64", "riscv64", "riscv32", "x64", "x64win", "arm64"}

// NameClasses are the file names of the domain; index 8 ("other") is drawn from OtherNames.
var NameClasses = []string{"x.wa", "x.wz", "x.wat", "x.wa.s", "x.wz.s", "x.txt", "", "x.WA"}

// OtherNames are further names (class "other").
var OtherNames = []string{"x.WZ", "x.Wat", ".wa", "d/x.wz", "x", "x.s", "x.wa.S", "x.wa.go", "a b.wa", "x_test.wa", "x.wa.wz", "凹.wz", "x..wat"}

// NameClass maps a name to its class label.
func NameClass(name string) string {
	for _, n := range NameClasses {
		if n == name {
			if n == "" {
				return "(empty)"
			}
			return n
		}
	}
	return "other"
}

// Case is the replayable form of one case.
type Case struct {
	Entry  string   `json:"entry"`
	Name   string   `json:"name"`
	CPU    string   `json:"cpu,omitempty"`
	Src    string   `json:"src,omitempty"`     // the input when it is valid UTF-8
	SrcB64 string   `json:"src_b64,omitempty"` // the input otherwise (base64)
	Seed   string   `json:"seed,omitempty"`    // informational: base seed
	Kinds  []string `json:"kinds,omitempty"`   // informational: mutators applied
}

// SetText stores the input losslessly.
func (c *Case) SetText(text string) {
	c.Src, c.SrcB64 = "", ""
	if utf8.ValidString(text) {
		c.Src = text
	} else {
		c.SrcB64 = base64.StdEncoding.EncodeToString([]byte(text))
	}
}

// Text returns the input.
func (c *Case) Text() string {
	if c.SrcB64 != "" {
		b, _ := base64.StdEncoding.DecodeString(c.SrcB64)
		return string(b)
	}
	return c.Src
}

type wireArgs struct {
	Entry   string `json:"entry"`
	Name    string `json:"name"`
	CPU     string `json:"cpu,omitempty"`
	Src     []byte `json:"src"`
	NoCount bool   `json:"no_count,omitempty"`
}

type wireResult struct {
	Tokens    int    `json:"tokens"`
	Lang      string `json:"lang"`
	ScanPanic string `json:"scan_panic"`
}

// Verdict is what the oracle concluded for one case.
type Verdict struct {
	Key     string // violation key, "" when the property holds on the case
	What    string
	Outcome string // ok | error | panic | exited | hang | not-c08:ssa-panic | inconclusive:<why>
	Tokens  int    // tokens the matching scanner produced (valid for ok/error)
	Lang    string // detected language (entries syntax and format)
	Err     string // diagnostic of an error outcome
	CPUms   int64
}

// MaxFormatNest bounds the block nesting of inputs given to the formatter.
// A pretty printer's output grows as nesting depth × number of lines (every
// nested line is indented by its depth), so 20000 nested blocks in 40 KiB
// legitimately produce hundreds of megabytes and no fixed CPU budget can be
// "generous"; such inputs still go through the parsers and the type checker.
const MaxFormatNest = 800

// CPULimit is the CPU budget of one request (inputs are at most 64 KiB): a
// request that exceeds it is killed and becomes a hang *candidate*.
const CPULimit = 20 * time.Second

// ConfirmLimit is the CPU budget of the confirmation runs.  It is three times
// the trigger budget: CPU time measured on a heavily shared machine is inflated
// (cache and memory-bandwidth contention, SMT siblings) by a factor that was
// observed to reach 2, and an input that needs 12 s on a quiet machine must not
// be reported as a hang on a loaded one.  A genuine endless loop exceeds any
// budget; super-linear but terminating work between the two budgets is counted
// as "slow", not as a violation.
const ConfirmLimit = 3 * CPULimit

// HangConfirmations is how often a killed request must be killed again, each
// time in a fresh worker with ConfirmLimit, before it is reported as a hang.
const HangConfirmations = 3

// NewWorker starts a client with the C08 budgets.
func NewWorker(limit time.Duration) *wk.Client {
	if limit == 0 {
		limit = CPULimit
	}
	return wk.New(wk.Options{CPULimit: limit, ASMB: 4096})
}

var frameRe = regexp.MustCompile(`(?m)^(wa-lang\.org/wa/[^\s(]+(?:\([^)]*\))?[^\s(]*)\(`)

// helper frames that only raise the panic on behalf of their caller
var helperRe = regexp.MustCompile(`(\.assert|\.Assert|\.Assertf|\.AssertEQ|/logger\.Panic|/logger\.Panicf|\.unreachable|\.throw|\.bailout)$`)

// PanicFrame returns the innermost frame of the repository (module
// wa-lang.org/wa, not the harness) in a Go stack trace, skipping assertion
// helpers.
func PanicFrame(stack string) string {
	// a deferred function that re-panics (parser bailout handlers) sits above
	// the original panic: start below the innermost "panic(" line
	if i := strings.LastIndex(stack, "\npanic("); i >= 0 {
		stack = stack[i+1:]
	}
	first := ""
	for _, m := range frameRe.FindAllStringSubmatch(stack, -1) {
		if strings.Contains(m[1], "/zverif/") {
			continue
		}
		if first == "" {
			first = m[1]
		}
		if helperRe.MatchString(m[1]) {
			continue
		}
		return m[1]
	}
	if first != "" {
		return first
	}
	return "unknown"
}

// NotC08Frame reports whether a panic frame lies behind a successful type
// check (SSA construction, back ends): property C16's domain.
func NotC08Frame(frame string) bool {
	return strings.HasPrefix(frame, "wa-lang.org/wa/internal/ssa") || strings.HasPrefix(frame, "wa-lang.org/wa/internal/backends")
}

// ExitReason classifies the death of the worker process.
func ExitReason(o wk.Outcome) string {
	out := o.Output
	switch {
	case strings.Contains(out, "stack overflow") || strings.Contains(out, "goroutine stack exceeds"):
		return "stack-overflow:" + PanicFrame(out)
	case strings.Contains(out, "out of memory") || strings.Contains(out, "cannot allocate memory"):
		return "out-of-memory"
	case strings.Contains(out, "all goroutines are asleep"):
		return "deadlock:" + PanicFrame(out)
	case strings.Contains(out, "fatal error:"):
		i := strings.Index(out, "fatal error:")
		line := out[i:]
		if j := strings.IndexByte(line, '\n'); j >= 0 {
			line = line[:j]
		}
		return "fatal:" + strings.TrimSpace(strings.TrimPrefix(line, "fatal error:"))
	case o.Signal != "":
		return "signal:" + o.Signal
	}
	return fmt.Sprintf("os.Exit(%d)", o.ExitCode)
}

func args(c *Case, noCount bool) wireArgs {
	return wireArgs{Entry: c.Entry, Name: c.Name, CPU: c.CPU, Src: []byte(c.Text()), NoCount: noCount}
}

// classify turns a raw outcome into (kind, key) without any confirmation run.
func classify(c *Case, o wk.Outcome) (outcome, key, what string) {
	switch o.Kind {
	case wk.OK:
		return "ok", "", ""
	case wk.Error:
		if strings.HasPrefix(o.Err, "worker:") {
			return "inconclusive:harness", "", o.Err
		}
		return "error", "", ""
	case wk.Panic:
		fr := PanicFrame(o.Stack)
		if NotC08Frame(fr) {
			return "not-c08:ssa-panic", "", fmt.Sprintf("panic behind the type checker (%s): %s", fr, o.Panic)
		}
		return "panic", c.Entry + "/panic:" + fr, fmt.Sprintf("%s(name=%q%s, %d bytes) panicked: %s\n%s", c.Entry, c.Name, cpuNote(c), len(c.Text()), o.Panic, trim(o.Stack, 2500))
	case wk.Exited:
		r := ExitReason(o)
		return "exited", c.Entry + "/exited:" + r, fmt.Sprintf("%s(name=%q%s, %d bytes) terminated the process (%s, exit code %d %s); output tail:\n%s", c.Entry, c.Name, cpuNote(c), len(c.Text()), r, o.ExitCode, o.Signal, tailStr(o.Output, 1500))
	case wk.Killed:
		return "killed", c.Entry + "/hang", fmt.Sprintf("%s(name=%q%s, %d bytes) used more than %d ms CPU and was killed", c.Entry, c.Name, cpuNote(c), len(c.Text()), o.CPUms)
	}
	return "inconclusive:" + o.Kind, "", o.Err
}

func cpuNote(c *Case) string {
	if c.CPU != "" {
		return ", cpu=" + c.CPU
	}
	return ""
}

func trim(s string, n int) string {
	if len(s) > n {
		return s[:n] + "…"
	}
	return s
}

func tailStr(s string, n int) string {
	if len(s) > n {
		return "…" + s[len(s)-n:]
	}
	return s
}

// Evaluate runs the case in w and decides.  Crashes are confirmed in a fresh
// worker (so that the verdict is a function of the case alone, not of what the
// long-lived worker did before); a CPU-budget kill is a violation only when it
// is reproduced HangConfirmations times in fresh workers.
func Evaluate(w *wk.Client, c *Case) Verdict {
	o := w.Do("c08", args(c, false))
	outcome, key, what := classify(c, o)
	v := Verdict{Outcome: outcome, CPUms: o.CPUms, Err: o.Err}
	switch outcome {
	case "ok", "error":
		var r wireResult
		if err := o.Decode(&r); err != nil {
			v.Outcome = "inconclusive:harness"
			v.What = "cannot decode worker result: " + err.Error()
			return v
		}
		v.Tokens, v.Lang = r.Tokens, r.Lang
		if r.ScanPanic != "" {
			// the scanner itself crashed while counting tokens: report it as a scanner finding
			so := w.Do("c08_scan", args(c, false))
			if so.Kind == wk.Panic {
				fr := PanicFrame(so.Stack)
				v.Outcome = "panic"
				v.Key = "scan(" + c.Entry + ")/panic:" + fr
				v.What = fmt.Sprintf("the scanner behind %s panicked on a %d-byte input: %s\n%s", c.Entry, len(c.Text()), so.Panic, trim(so.Stack, 2500))
			}
		}
		return v
	case "panic", "exited":
		fresh := NewWorker(0)
		o2 := fresh.Do("c08", args(c, true))
		fresh.Close()
		out2, key2, what2 := classify(c, o2)
		if out2 == outcome && key2 == key {
			v.Key, v.What = key, what
			return v
		}
		if out2 == "panic" || out2 == "exited" {
			// crashes either way; the fresh run is the reproducible one
			v.Outcome, v.Key, v.What = out2, key2, what2
			return v
		}
		v.Outcome = "inconclusive:crash-not-reproduced-in-fresh-worker"
		v.What = what
		return v
	case "killed":
		for i := 0; i < HangConfirmations; i++ {
			fresh := NewWorker(ConfirmLimit)
			o2 := fresh.Do("c08", args(c, true))
			fresh.Close()
			if o2.Kind != wk.Killed {
				v.Outcome = "inconclusive:slow-but-finished-within-" + ConfirmLimit.String()
				if o2.Kind != wk.OK && o2.Kind != wk.Error {
					v.Outcome = "inconclusive:kill-not-reproduced"
				}
				return v
			}
		}
		v.Outcome, v.Key = "hang", key
		v.What = what + fmt.Sprintf(" (killed at %v CPU, then killed %d× at %v CPU in fresh processes)", CPULimit, HangConfirmations, ConfirmLimit)
		return v
	case "not-c08:ssa-panic":
		v.What = what
		return v
	}
	v.What = what
	return v
}

// ReachedParser reports whether the case got as far as a parser, given the
// verdict of a completed (ok/error) run.
func ReachedParser(c *Case, v Verdict) bool {
	switch c.Entry {
	case "format":
		return v.Lang == "wa-lang/wa" || v.Lang == "wa-lang/wz"
	case "syntax":
		// language detection scans the text only when the name does not decide
		l := strings.ToLower(c.Name)
		for _, ext := range []string{".wa", ".wz", ".wat", ".wa.s", ".wz.s"} {
			if strings.HasSuffix(l, ext) {
				return false
			}
		}
		return true
	case "load":
		return strings.HasSuffix(c.Name, ".wa") || strings.HasSuffix(c.Name, ".wz")
	}
	return true
}

// Probe is a cheap single run (no confirmation) used by the minimiser: does
// the text still end with the same violation key?
func Probe(w *wk.Client, c *Case, wantKey string) bool {
	o := w.Do("c08", args(c, true))
	_, key, _ := classify(c, o)
	return key == wantKey
}

// Minimise shrinks the input of a failing case with delta debugging (lines,
// then bytes) while the violation key stays the same; at most budget probes.
func Minimise(w *wk.Client, c Case, key string, budget int) Case {
	text := []byte(c.Text())
	try := func(cand []byte) bool {
		if budget <= 0 {
			return false
		}
		budget--
		cc := c
		cc.SetText(string(cand))
		return Probe(w, &cc, key)
	}
	// split into units, remove chunks of units
	ddmin := func(units [][]byte) [][]byte {
		n := 2
		for len(units) >= 2 && budget > 0 {
			chunk := (len(units) + n - 1) / n
			reduced := false
			for i := 0; i < len(units) && budget > 0; i += chunk {
				j := i + chunk
				if j > len(units) {
					j = len(units)
				}
				cand := make([][]byte, 0, len(units))
				cand = append(cand, units[:i]...)
				cand = append(cand, units[j:]...)
				if try(join(cand)) {
					units = cand
					if n > 2 {
						n--
					}
					reduced = true
					break
				}
			}
			if !reduced {
				if chunk == 1 {
					break
				}
				n *= 2
				if n > len(units) {
					n = len(units)
				}
			}
		}
		return units
	}
	if try(nil) {
		c.SetText("")
		return c
	}
	lines := splitAfter(text, '\n')
	if len(lines) > 1 {
		text = join(ddmin(lines))
	}
	if len(text) <= 4096 {
		bs := make([][]byte, len(text))
		for i := range text {
			bs[i] = text[i : i+1]
		}
		text = join(ddmin(bs))
	} else {
		// too long for byte-level ddmin: halve runs
		var blocks [][]byte
		for i := 0; i < len(text); i += 64 {
			j := i + 64
			if j > len(text) {
				j = len(text)
			}
			blocks = append(blocks, text[i:j])
		}
		text = join(ddmin(blocks))
	}
	c.SetText(string(text))
	return c
}

func join(u [][]byte) []byte {
	var out []byte
	for _, x := range u {
		out = append(out, x...)
	}
	return out
}

func splitAfter(b []byte, sep byte) [][]byte {
	var out [][]byte
	start := 0
	for i, c := range b {
		if c == sep {
			out = append(out, b[start:i+1])
			start = i + 1
		}
	}
	if start < len(b) {
		out = append(out, b[start:])
	}
	return out
}
